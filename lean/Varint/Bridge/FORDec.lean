import Varint.Gen.CFORDec
import Varint.Model.FOR
import Varint.Lemmas.Bytes
import Varint.Lemmas.Canon
import Varint.Lemmas.Adaptive
import Varint.Bridge.Loop
import Varint.Bridge.Tagged
import Varint.Bridge.External
import Varint.Bridge.RLE
import Varint.Bridge.RLEDec
import Varint.Bridge.Dim
import Varint.Lemmas.FOR
import Varint.Lemmas.Tagged
/-
  Bridge: the readers of src/varintFOR.c — varintFORReadMetadata (local struct filled through `&meta`),
  varintFORGetMinValue / GetCount / GetOffsetWidth, varintFORGetAt and varintFORDecode (element loop around the inlined
  `varintExternalGetQuick_` macro), as translated by tools/c2lean2.py from the CURRENT source — equal the hand-written
  model Varint.FOR.* on every byte buffer the model reads inside of.
-/
namespace Varint.Bridge.FORDec
open Varint Varint.Gen.C Varint.Bridge Varint.FOR
open Varint.Bridge.Tagged (bufOf bufOf_lt)

/-- a value the tagged reader returns from bytes is a 64-bit value -/
theorem get_val_lt (bs : List Nat) (hb : ∀ b ∈ bs, b < 256) (v l : Nat) (h : Tagged.get bs = .ok v l) : v < 2 ^ 64 := by
  unfold Tagged.get Tagged.getN at h
  simp only [show ¬ ((9 : Int) < 1) by omega, if_false] at h
  cases bs with
  | nil => simp at h
  | cons b0 rest =>
    have h0 := hb b0 (by simp)
    simp only [] at h
    by_cases c1 : b0 ≤ 240
    · rw [if_pos c1] at h; cases h; omega
    · rw [if_neg c1] at h
      by_cases c2 : b0 ≤ 248
      · rw [if_pos c2] at h
        simp only [show ¬ ((9 : Int) < 2) by omega, if_false] at h
        cases rest with
        | nil => simp at h
        | cons b1 r =>
          have h1 := hb b1 (by simp)
          cases h; omega
      · rw [if_neg c2, if_neg (by omega)] at h
        cases hp : takeExact (b0 - 247) rest with
        | none => rw [hp] at h; simp at h
        | some p =>
          rw [hp] at h
          try simp only [] at h
          obtain ⟨hpe, _, hpl⟩ := takeExact_some hp
          have hpb : ∀ b ∈ p, b < 256 := by
            intro b hbm; rw [hpe] at hbm
            exact hb b (List.mem_cons_of_mem _ (List.mem_of_mem_take hbm))
          have hlt := ofBe_lt p hpb
          rw [hpl] at hlt
          have h8 : (256 : Nat) ^ (b0 - 247) ≤ 256 ^ 8 := Nat.pow_le_pow_right (by omega) (by omega)
          have e8 : (256 : Nat) ^ 8 = 2 ^ 64 := by decide
          by_cases c3 : b0 = 249
          · rw [if_pos c3] at h; cases h
            subst c3
            have : (256 : Nat) ^ (249 - 247) = 65536 := by decide
            omega
          · rw [if_neg c3, if_pos (by omega)] at h; cases h; omega

/-- the header as the C reads it -/
theorem readHdr_parts (bs : List Nat) (h : Hdr) (hh : readHdr bs = some h) :
    ∃ rest, Tagged.get bs = .ok h.minValue h.minLen ∧ bs.drop h.minLen = h.width :: rest ∧
      Tagged.get rest = .ok h.count h.countLen := by
  unfold readHdr at hh
  cases h1 : Tagged.get bs with
  | fault => rw [h1] at hh; simp at hh
  | short => rw [h1] at hh; simp at hh
  | ok mn l1 =>
    rw [h1] at hh
    simp only [] at hh
    cases h2 : bs.drop l1 with
    | nil => rw [h2] at hh; simp at hh
    | cons w rest =>
      rw [h2] at hh
      simp only [] at hh
      cases h3 : Tagged.get rest with
      | fault => rw [h3] at hh; simp at hh
      | short => rw [h3] at hh; simp at hh
      | ok cnt l2 =>
        rw [h3] at hh
        simp only [Option.some.injEq] at hh
        subst hh
        exact ⟨rest, rfl, h2, h3⟩

/-- **`varintFORReadMetadata(src, &meta)`**: minimum, count and offset width as the model reads them -/
theorem forReadMetadata_eq (bs : List Nat) (hb : ∀ b ∈ bs, b < 256) (h : Hdr) (hh : readHdr bs = some h) :
    ∃ sz, forReadMetadata (bufOf bs) = (some h.minValue, some h.count, some h.width, some 0, some h.minValue, some sz) := by
  obtain ⟨rest, h1, h2, h3⟩ := readHdr_parts bs h hh
  unfold forReadMetadata
  have hrest : bs.drop (h.minLen + 1) = rest := by
    rw [← List.drop_drop, h2]; rfl
  have hbr : ∀ b ∈ rest, b < 256 := by rw [← hrest]; exact RLE.mem_drop_lt bs hb _
  simp only [RLEDec.taggedGet64_ok bs hb _ _ h1, RLE.bufOf_shift, hrest, RLEDec.taggedGet64_ok rest hbr _ _ h3,
    RLE.bufOf_drop bs _ _ _ h2, Option.getD_some]
  exact ⟨_, rfl⟩

/-- the accessors tell the truth about the header -/
theorem forAccessors_eq (bs : List Nat) (hb : ∀ b ∈ bs, b < 256) (h : Hdr) (hh : readHdr bs = some h) :
    forGetMinValue (bufOf bs) = h.minValue ∧ forGetCount (bufOf bs) = h.count ∧
    forGetOffsetWidth (bufOf bs) = h.width := by
  obtain ⟨rest, h1, h2, h3⟩ := readHdr_parts bs h hh
  have hrest : bs.drop (h.minLen + 1) = rest := by
    rw [← List.drop_drop, h2]; rfl
  have hbr : ∀ b ∈ rest, b < 256 := by rw [← hrest]; exact RLE.mem_drop_lt bs hb _
  unfold forGetMinValue forGetCount forGetOffsetWidth
  simp only [RLEDec.taggedGet64_ok bs hb _ _ h1, RLE.bufOf_shift, hrest, RLEDec.taggedGet64_ok rest hbr _ _ h3,
    RLE.bufOf_drop bs _ _ _ h2, Option.getD_some]
  first | exact ⟨rfl, rfl, rfl⟩ | simp

/-- the inlined `varintExternalGetQuick_(p, w, out)`: arms for 1, 2 and 3 bytes, `varintExternalGet` otherwise -/
theorem getQuick_eq (bs : List Nat) (hb : ∀ b ∈ bs, b < 256) (off w : Nat) (h1 : 1 ≤ w) (h8 : w ≤ 8)
    (hin : off + w ≤ bs.length) :
    (if w = 1 then bufOf bs off
      else if w = 2 then (bufOf bs (off + 1) * 2 ^ 8 % 2 ^ 64) ||| bufOf bs off
      else if w = 3 then ((bufOf bs (off + 2) * 2 ^ 16 % 2 ^ 64) ||| (bufOf bs (off + 1) * 2 ^ 8 % 2 ^ 64)) ||| bufOf bs off
      else extGet (fun i => bufOf bs (off + i)) w) = ofLe ((bs.drop off).take w) := by
  have hr := Dim.range_map_bufOf bs off w hin
  have b0 := bufOf_lt bs hb off
  have b1 := bufOf_lt bs hb (off + 1)
  have b2 := bufOf_lt bs hb (off + 2)
  by_cases c1 : w = 1
  · subst c1
    rw [if_pos rfl, ← hr]
    simp [List.range, List.range.loop, ofLe]
  · rw [if_neg c1]
    by_cases c2 : w = 2
    · subst c2
      rw [if_pos rfl, ← hr]
      simp only [List.range, List.range.loop, List.map, ofLe, Nat.add_zero]
      rw [Nat.mod_eq_of_lt (by omega), Nat.mul_comm,
        ← Nat.two_pow_add_eq_or_of_lt (show bufOf bs off < 2 ^ 8 by omega)]
      omega
    · rw [if_neg c2]
      by_cases c3 : w = 3
      · subst c3
        rw [if_pos rfl, ← hr]
        simp only [List.range, List.range.loop, List.map, ofLe, Nat.add_zero]
        rw [Nat.mod_eq_of_lt (by omega), Nat.mod_eq_of_lt (by omega), Nat.mul_comm _ (2 ^ 16),
          ← Nat.two_pow_add_eq_or_of_lt (show bufOf bs (off + 1) * 2 ^ 8 < 2 ^ 16 by omega)]
        have e : 2 ^ 16 * bufOf bs (off + 2) + bufOf bs (off + 1) * 2 ^ 8 =
            2 ^ 8 * (2 ^ 8 * bufOf bs (off + 2) + bufOf bs (off + 1)) := by omega
        rw [e, ← Nat.two_pow_add_eq_or_of_lt (show bufOf bs off < 2 ^ 8 by omega)]
        omega
      · rw [if_neg c3, External.extGet_eq _ w h1 h8 (fun i _ => bufOf_lt bs hb _), hr]

theorem readOffsets_length : ∀ (n mn w : Nat) (bs vs : List Nat), readOffsets n mn w bs = some vs → vs.length = n := by
  intro n
  induction n with
  | zero => intro mn w bs vs h; simp [readOffsets] at h; subst h; rfl
  | succ n ih =>
    intro mn w bs vs h
    unfold readOffsets at h
    cases hp : takeExact w bs with
    | none => rw [hp] at h; simp at h
    | some p =>
      rw [hp] at h
      simp only [] at h
      cases hr : readOffsets n mn w (bs.drop w) with
      | none => rw [hr] at h; simp at h
      | some vs' =>
        rw [hr] at h
        simp only [Option.some.injEq] at h
        subst h
        simp [ih mn w _ vs' hr]

/-- the element loop of `varintFORDecode` -/
theorem decode_loop (bs : List Nat) (hb : ∀ b ∈ bs, b < 256) (mn cnt w : Nat) (h1 : 1 ≤ w) (h8 : w ≤ 8)
    (hcnt : cnt < 2 ^ 64) :
    ∀ (n i ptr : Nat) (st : List (Nat × Nat)) (vs : List Nat), i + n = cnt →
      readOffsets n mn w (bs.drop ptr) = some vs → ∀ fuel, n < fuel →
      forDecode_loop1 (bufOf bs) mn cnt w fuel (i, ptr, st) = .done (cnt, ptr + n * w, st ++ storesFrom i vs) := by
  intro n
  induction n with
  | zero =>
    intro i ptr st vs hi hr fuel hf
    obtain ⟨f, rfl⟩ : ∃ f', fuel = f' + 1 := ⟨fuel - 1, by omega⟩
    simp [readOffsets] at hr
    subst hr
    have c : ¬ i < cnt := by omega
    have : i = cnt := by omega
    subst this
    simp [forDecode_loop1]
  | succ n ih =>
    intro i ptr st vs hi hr fuel hf
    obtain ⟨f, rfl⟩ : ∃ f', fuel = f' + 1 := ⟨fuel - 1, by omega⟩
    have c : i < cnt := by omega
    unfold readOffsets at hr
    cases hp : takeExact w (bs.drop ptr) with
    | none => rw [hp] at hr; simp at hr
    | some p =>
      rw [hp] at hr
      simp only [] at hr
      cases hr' : readOffsets n mn w ((bs.drop ptr).drop w) with
      | none => rw [hr'] at hr; simp at hr
      | some vs' =>
        rw [hr'] at hr
        simp only [Option.some.injEq] at hr
        subst hr
        obtain ⟨hpe, hple, _⟩ := takeExact_some hp
        have hin : ptr + w ≤ bs.length := by rw [List.length_drop] at hple; omega
        rw [List.drop_drop] at hr'
        have e1 : (i + 1) % 2 ^ 64 = i + 1 := Nat.mod_eq_of_lt (by omega)
        simp only [forDecode_loop1, if_pos c, e1]
        rw [getQuick_eq bs hb ptr w h1 h8 hin, ← hpe]
        rw [ih (i + 1) (ptr + w) _ vs' (by omega) hr' f (by omega)]
        simp only [storesFrom_cons, List.append_assoc, List.singleton_append]
        have e2 : ptr + w + n * w = ptr + (n + 1) * w := by rw [Nat.succ_mul]; omega
        rw [e2]

/-- the element loop of `varintFORDecodeBlock` (same body, bounded by the block size) -/
theorem block_loop (bs : List Nat) (hb : ∀ b ∈ bs, b < 256) (mn cnt w : Nat) (h1 : 1 ≤ w) (h8 : w ≤ 8)
    (hcnt : cnt < 2 ^ 64) :
    ∀ (n i ptr : Nat) (st : List (Nat × Nat)) (vs : List Nat), i + n = cnt →
      readOffsets n mn w (bs.drop ptr) = some vs → ∀ fuel, n < fuel →
      forDecodeBlock_loop1 (bufOf bs) mn w cnt fuel (i, ptr, st) = .done (cnt, ptr + n * w, st ++ storesFrom i vs) := by
  intro n
  induction n with
  | zero =>
    intro i ptr st vs hi hr fuel hf
    obtain ⟨f, rfl⟩ : ∃ f', fuel = f' + 1 := ⟨fuel - 1, by omega⟩
    simp [readOffsets] at hr
    subst hr
    have c : ¬ i < cnt := by omega
    have : i = cnt := by omega
    subst this
    simp [forDecodeBlock_loop1]
  | succ n ih =>
    intro i ptr st vs hi hr fuel hf
    obtain ⟨f, rfl⟩ : ∃ f', fuel = f' + 1 := ⟨fuel - 1, by omega⟩
    have c : i < cnt := by omega
    unfold readOffsets at hr
    cases hp : takeExact w (bs.drop ptr) with
    | none => rw [hp] at hr; simp at hr
    | some p =>
      rw [hp] at hr
      simp only [] at hr
      cases hr' : readOffsets n mn w ((bs.drop ptr).drop w) with
      | none => rw [hr'] at hr; simp at hr
      | some vs' =>
        rw [hr'] at hr
        simp only [Option.some.injEq] at hr
        subst hr
        obtain ⟨hpe, hple, _⟩ := takeExact_some hp
        have hin : ptr + w ≤ bs.length := by rw [List.length_drop] at hple; omega
        rw [List.drop_drop] at hr'
        have e1 : (i + 1) % 2 ^ 64 = i + 1 := Nat.mod_eq_of_lt (by omega)
        simp only [forDecodeBlock_loop1, if_pos c, e1]
        rw [getQuick_eq bs hb ptr w h1 h8 hin, ← hpe]
        rw [ih (i + 1) (ptr + w) _ vs' (by omega) hr' f (by omega)]
        simp only [storesFrom_cons, List.append_assoc, List.singleton_append]
        have e2 : ptr + w + n * w = ptr + (n + 1) * w := by rw [Nat.succ_mul]; omega
        rw [e2]


/-- **`varintFORBatchDecode`** (scalar build: header check, then `varintFORDecode`) = `varintFORDecode` -/
theorem forBatchDecode_eq (bs : List Nat) (hb : ∀ b ∈ bs, b < 256) (cap fuel : Nat) (h : Hdr) (hh : readHdr bs = some h)
    (r : Nat × List (Nat × Nat)) (hd : forDecode fuel (bufOf bs) cap = some r) (hgt : h.count > cap → r = (0, [])) :
    forBatchDecode fuel (bufOf bs) cap = some r := by
  obtain ⟨sz, hmeta⟩ := forReadMetadata_eq bs hb h hh
  unfold forBatchDecode
  simp only [hmeta, Option.getD_some, hd]
  by_cases c : h.count > cap
  · rw [if_pos c, hgt c]
  · rw [if_neg c]

/-- **`varintFORDecodeBlock(src, values, start, blockSize)`** = the model's block reader: nothing when `start` is past
    the end, otherwise exactly values[0 … n-1] with n = min(blockSize, count - start) ≤ blockSize -/
theorem forDecodeBlock_eq (bs : List Nat) (hb : ∀ b ∈ bs, b < 256) (start bsz fuel : Nat) (h : Hdr)
    (hh : readHdr bs = some h) (hsum : start + bsz < 2 ^ 64) (hsw : start * h.width < 2 ^ 64) (hf : bsz < fuel)
    (vs : List Nat) (hd : FOR.decBlock bs start bsz = some vs) :
    forDecodeBlock fuel (bufOf bs) start bsz = some (vs.length, storesFrom 0 vs) ∧ vs.length ≤ bsz := by
  obtain ⟨sz, hmeta⟩ := forReadMetadata_eq bs hb h hh
  obtain ⟨rest, g1, g2, g3⟩ := readHdr_parts bs h hh
  have hrest : bs.drop (h.minLen + 1) = rest := by rw [← List.drop_drop, g2]; rfl
  have hbr : ∀ b ∈ rest, b < 256 := by rw [← hrest]; exact RLE.mem_drop_lt bs hb _
  have hmn := get_val_lt bs hb _ _ g1
  have hcn := get_val_lt rest hbr _ _ g3
  unfold forDecodeBlock
  unfold FOR.decBlock at hd
  simp only [hmeta, hh, Option.getD_some] at hd ⊢
  by_cases c : start ≥ h.count
  · rw [if_pos c] at hd ⊢
    simp only [Option.some.injEq] at hd
    subst hd
    simp
  · rw [if_neg c] at hd ⊢
    by_cases cw : h.width < 1 ∨ h.width > 8
    · rw [if_pos cw] at hd; simp at hd
    · rw [if_neg cw] at hd
      try simp only [] at hd
      have e1 : (start + bsz) % 2 ^ 64 = start + bsz := Nat.mod_eq_of_lt hsum
      have e2 : (h.count + 2 ^ 64 - start) % 2 ^ 64 = h.count - start := by omega
      simp only [e1, e2]
      generalize hn : (if start + bsz > h.count then h.count - start else bsz) = n at hd ⊢
      have hnb : n ≤ bsz := by rw [← hn]; split <;> omega
      have hl := readOffsets_length _ _ _ _ _ hd
      rw [Tagged.taggedLen_eq _ hmn, Tagged.taggedLen_eq _ hcn, Nat.mod_eq_of_lt hsw]
      rw [block_loop bs hb h.minValue n h.width (by omega) (by omega) (by omega) n 0 _ [] vs (by omega) hd fuel
        (by omega)]
      simp only [List.nil_append]
      exact ⟨by rw [hl], by omega⟩

/-- **`varintFORDecode(src, values, maxCount)`** on every byte buffer the model reads inside of: a declared count above
    the capacity returns 0 with no store at all; otherwise the C returns the count and stores exactly the model's values
    at values[0 … count-1], in order and nowhere else. Every fuel above the count. -/
theorem forDecode_eq (bs : List Nat) (hb : ∀ b ∈ bs, b < 256) (cap : Nat) (fuel : Nat) (h : Hdr)
    (hh : readHdr bs = some h) (hf : h.count < fuel) :
    (FOR.dec bs cap = some none → forDecode fuel (bufOf bs) cap = some (0, [])) ∧
    (∀ vs, FOR.dec bs cap = some (some vs) →
      forDecode fuel (bufOf bs) cap = some (vs.length, storesFrom 0 vs) ∧ vs.length = h.count ∧ vs.length ≤ cap) := by
  obtain ⟨sz, hmeta⟩ := forReadMetadata_eq bs hb h hh
  obtain ⟨rest, g1, g2, g3⟩ := readHdr_parts bs h hh
  have hrest : bs.drop (h.minLen + 1) = rest := by rw [← List.drop_drop, g2]; rfl
  have hbr : ∀ b ∈ rest, b < 256 := by rw [← hrest]; exact RLE.mem_drop_lt bs hb _
  have hmn := get_val_lt bs hb _ _ g1
  have hcn := get_val_lt rest hbr _ _ g3
  unfold forDecode FOR.dec
  simp only [hmeta, hh, Option.getD_some]
  constructor
  · intro hd
    by_cases c : h.count > cap
    · rw [if_pos c]
    · rw [if_neg c] at hd
      by_cases cw : h.width < 1 ∨ h.width > 8
      · rw [if_pos cw] at hd
        by_cases c0 : h.count = 0
        · rw [if_pos c0] at hd; simp at hd
        · rw [if_neg c0] at hd; simp at hd
      · rw [if_neg cw] at hd
        try simp only [] at hd
        cases hr : readOffsets h.count h.minValue h.width (bs.drop (Tagged.len h.minValue + 1 + Tagged.len h.count)) with
        | none => rw [hr] at hd; simp at hd
        | some vs => rw [hr] at hd; simp at hd
  · intro vs hd
    by_cases c : h.count > cap
    · rw [if_pos c] at hd; simp at hd
    · rw [if_neg c] at hd ⊢
      rw [Tagged.taggedLen_eq _ hmn, Tagged.taggedLen_eq _ hcn]
      by_cases cw : h.width < 1 ∨ h.width > 8
      · rw [if_pos cw] at hd
        by_cases c0 : h.count = 0
        · rw [if_pos c0] at hd
          simp only [Option.some.injEq] at hd
          subst hd
          obtain ⟨f, rfl⟩ : ∃ f', fuel = f' + 1 := ⟨fuel - 1, by omega⟩
          simp [forDecode_loop1, c0]
        · rw [if_neg c0] at hd; simp at hd
      · rw [if_neg cw] at hd
        try simp only [] at hd
        cases hr : readOffsets h.count h.minValue h.width (bs.drop (Tagged.len h.minValue + 1 + Tagged.len h.count)) with
        | none => rw [hr] at hd; simp at hd
        | some vs' =>
          rw [hr] at hd
          simp only [Option.some.injEq] at hd
          subst hd
          have hl := readOffsets_length _ _ _ _ _ hr
          rw [decode_loop bs hb h.minValue h.count h.width (by omega) (by omega) hcn h.count 0 _ [] vs' (by omega) hr
            fuel hf]
          simp only [List.nil_append]
          exact ⟨by rw [hl], hl, by omega⟩

/-- **`varintFORGetAt(src, i)`** = the model's random access (offset width 1..8, the element's bytes inside the buffer) -/
theorem forGetAt_eq (bs : List Nat) (hb : ∀ b ∈ bs, b < 256) (i v : Nat) (h : Hdr) (hh : readHdr bs = some h)
    (hi : i * h.width < 2 ^ 64) (hg : FOR.getAt bs i = some v) : forGetAt (bufOf bs) i = v := by
  obtain ⟨sz, hmeta⟩ := forReadMetadata_eq bs hb h hh
  obtain ⟨rest, g1, g2, g3⟩ := readHdr_parts bs h hh
  have hrest : bs.drop (h.minLen + 1) = rest := by rw [← List.drop_drop, g2]; rfl
  have hbr : ∀ b ∈ rest, b < 256 := by rw [← hrest]; exact RLE.mem_drop_lt bs hb _
  have hmn := get_val_lt bs hb _ _ g1
  have hcn := get_val_lt rest hbr _ _ g3
  unfold forGetAt
  unfold FOR.getAt at hg
  simp only [hmeta, hh, Option.getD_some] at hg ⊢
  by_cases cw : h.width < 1 ∨ h.width > 8
  · rw [if_pos cw] at hg; simp at hg
  · rw [if_neg cw] at hg
    try simp only [] at hg
    cases hp : takeExact h.width (bs.drop (Tagged.len h.minValue + 1 + Tagged.len h.count + i * h.width)) with
    | none => rw [hp] at hg; simp at hg
    | some p =>
      rw [hp] at hg
      simp only [Option.some.injEq] at hg
      obtain ⟨hpe, hple, _⟩ := takeExact_some hp
      have hin : Tagged.len h.minValue + 1 + Tagged.len h.count + i * h.width + h.width ≤ bs.length := by
        rw [List.length_drop] at hple; omega
      rw [Tagged.taggedLen_eq _ hmn, Tagged.taggedLen_eq _ hcn, Nat.mod_eq_of_lt hi,
        getQuick_eq bs hb _ h.width (by omega) (by omega) hin, ← hpe]
      exact hg

theorem offsets_lt (mn w : Nat) (xs : List Nat) : ∀ b ∈ offsets mn w xs, b < 256 := by
  induction xs with
  | nil => intro b hb; simp [offsets] at hb
  | cons x xs ih =>
    intro b hb
    simp only [offsets, List.mem_append] at hb
    rcases hb with hb | hb
    · exact leBytes_lt _ _ b hb
    · exact ih b hb

/-- every byte the model's encoder produces is a byte -/
theorem enc_lt (xs : List Nat) (g : FOR.Good xs) : ∀ b ∈ FOR.enc xs, b < 256 := by
  obtain ⟨hmn, hc, hw1, hw8, _⟩ := FOR.analyze_facts xs g
  intro b hb
  unfold FOR.enc at hb
  simp only [List.mem_append, List.mem_singleton] at hb
  rcases hb with ((hb | hb) | hb) | hb
  · exact Tagged.enc_lt _ hmn b hb
  · subst hb; omega
  · exact Tagged.enc_lt _ (by rw [hc]; exact g.len) b hb
  · exact offsets_lt _ _ _ b hb

end Varint.Bridge.FORDec
