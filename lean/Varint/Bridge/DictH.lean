import Varint.Gen.CDictH
import Varint.Bridge.Loop
/-
  Bridge: `size_mul_overflow` of src/varintDict.c (the guard in front of every allocation size the dictionary decoders
  compute from untrusted counts), translated from the CURRENT source: it reports overflow exactly when the mathematical
  product does not fit 64 bits, and stores the product otherwise.
-/
namespace Varint.Bridge.DictH
open Varint Varint.Gen.C

/-- **`size_mul_overflow(a, b, &r)`** for all 64-bit operands: returns true iff a·b ≥ 2^64; stores a·b mod 2^64 -/
theorem dictMulOverflow_eq (a b : Nat) (ha : a < 2 ^ 64) (hb : b < 2 ^ 64) :
    dictMulOverflow a b = ((if a * b < 2 ^ 64 then 0 else 1), some (a * b % 2 ^ 64)) := by
  unfold dictMulOverflow
  by_cases c : a = 0 ∨ b = 0
  · rw [if_pos c]
    have hz : a * b = 0 := by
      rcases c with rfl | rfl <;> simp
    simp [hz]
  · rw [if_neg c]
    have ha0 : 0 < a := by omega
    by_cases hlt : a * b < 2 ^ 64
    · have e1 : a * b % 2 ^ 64 = a * b := Nat.mod_eq_of_lt hlt
      have e2 : a * b / a = b := Nat.mul_div_cancel_left b ha0
      simp [hlt, e1, e2]
    · have hx : a * b % 2 ^ 64 < a * b := by
        have := Nat.mod_lt (a * b) (show 0 < 2 ^ 64 by omega)
        omega
      have hne : a * b % 2 ^ 64 / a ≠ b := by
        have := Nat.div_lt_of_lt_mul hx
        omega
      simp [hne, hlt]

end Varint.Bridge.DictH
