import Varint.Gen.CExtBE
import Varint.Model.External
import Varint.Lemmas.Bytes
import Varint.Bridge.Loop
import Varint.Bridge.External
/-
  Bridge: src/varintExternalBigEndian.c — varintExternalBigEndianPut (width loop + per-width reversed copy, the 8-byte
  arm through `__builtin_bswap64`), varintExternalBigEndianPutFixedWidth, varintExternalBigEndianGet, as translated by
  tools/c2lean2.py from the CURRENT source (little-endian host) — equal the model Varint.ExternalBE.* for every 64-bit
  value and every width 1..8.
-/
namespace Varint.Bridge.ExtBE
open Varint Varint.Gen.C Varint.Bridge Varint.Bridge.External

theorem be1 (v : Nat) : beBytes 1 v = [v / 256 ^ 0 % 256] := rfl
theorem be2 (v : Nat) : beBytes 2 v = [v / 256 ^ 1 % 256, v / 256 ^ 0 % 256] := rfl
theorem be3 (v : Nat) : beBytes 3 v = [v / 256 ^ 2 % 256, v / 256 ^ 1 % 256, v / 256 ^ 0 % 256] := rfl
theorem be4 (v : Nat) : beBytes 4 v = [v / 256 ^ 3 % 256, v / 256 ^ 2 % 256, v / 256 ^ 1 % 256, v / 256 ^ 0 % 256] := rfl
theorem be5 (v : Nat) : beBytes 5 v = [v / 256 ^ 4 % 256, v / 256 ^ 3 % 256, v / 256 ^ 2 % 256, v / 256 ^ 1 % 256, v / 256 ^ 0 % 256] := rfl
theorem be6 (v : Nat) : beBytes 6 v = [v / 256 ^ 5 % 256, v / 256 ^ 4 % 256, v / 256 ^ 3 % 256, v / 256 ^ 2 % 256, v / 256 ^ 1 % 256, v / 256 ^ 0 % 256] := rfl
theorem be7 (v : Nat) : beBytes 7 v = [v / 256 ^ 6 % 256, v / 256 ^ 5 % 256, v / 256 ^ 4 % 256, v / 256 ^ 3 % 256, v / 256 ^ 2 % 256, v / 256 ^ 1 % 256, v / 256 ^ 0 % 256] := rfl
theorem be8 (v : Nat) : beBytes 8 v = [v / 256 ^ 7 % 256, v / 256 ^ 6 % 256, v / 256 ^ 5 % 256, v / 256 ^ 4 % 256, v / 256 ^ 3 % 256, v / 256 ^ 2 % 256, v / 256 ^ 1 % 256, v / 256 ^ 0 % 256] := rfl

/-- the width loop `while ((v >>= 8) != 0) encoding++` counts base-256 digits -/
theorem width_loop : ∀ (f v e : Nat), extLen v ≤ f → e + extLen v < 2 ^ 32 →
    extbeCopyUsed_loop1 f (v, e) = .done (0, e + extLen v - 1) := by
  intro f
  induction f with
  | zero => intro v e h; have := extLen_pos v; omega
  | succ f ih =>
    intro v e hf he
    unfold extbeCopyUsed_loop1
    simp only [Nat.reducePow]
    rw [extLen_eq] at hf he ⊢
    by_cases c : v < 256
    · have h0 : v / 256 = 0 := by omega
      simp only [h0, if_pos c, ne_eq, not_true_eq_false, if_false]
      rw [Nat.add_sub_cancel]
    · simp only [if_neg c] at hf he ⊢
      have h0 : v / 256 ≠ 0 := by omega
      rw [if_pos h0]
      have hp := extLen_pos (v / 256)
      rw [Nat.mod_eq_of_lt (by omega)]
      rw [ih (v / 256) (e + 1) (by omega) (by omega)]
      congr 2
      omega

/-- the 8-byte arm: bytes assembled little-endian, swapped, stored little-endian = big-endian bytes -/
theorem bswap_bytes (x0 x1 x2 x3 x4 x5 x6 x7 : Nat) (h0 : x0 < 256) (h1 : x1 < 256) (h2 : x2 < 256) (h3 : x3 < 256)
    (h4 : x4 < 256) (h5 : x5 < 256) (h6 : x6 < 256) (h7 : x7 < 256) :
    bswap64 (setByte (setByte (setByte (setByte (setByte (setByte (setByte (setByte 0 0 x0) 1 x1) 2 x2) 3 x3) 4 x4) 5 x5)
      6 x6) 7 x7) = x7 + x6 * 2 ^ 8 + x5 * 2 ^ 16 + x4 * 2 ^ 24 + x3 * 2 ^ 32 + x2 * 2 ^ 40 + x1 * 2 ^ 48 + x0 * 2 ^ 56 := by
  rw [setByte_fresh 0 0 x0 (by simp)]
  rw [setByte_fresh _ 1 x1 (by simp only [Nat.reducePow, Nat.reduceMul]; omega)]
  rw [setByte_fresh _ 2 x2 (by simp only [Nat.reducePow, Nat.reduceMul]; omega)]
  rw [setByte_fresh _ 3 x3 (by simp only [Nat.reducePow, Nat.reduceMul]; omega)]
  rw [setByte_fresh _ 4 x4 (by simp only [Nat.reducePow, Nat.reduceMul]; omega)]
  rw [setByte_fresh _ 5 x5 (by simp only [Nat.reducePow, Nat.reduceMul]; omega)]
  rw [setByte_fresh _ 6 x6 (by simp only [Nat.reducePow, Nat.reduceMul]; omega)]
  rw [setByte_fresh _ 7 x7 (by simp only [Nat.reducePow, Nat.reduceMul]; omega)]
  unfold bswap64
  simp only [Nat.reducePow, Nat.reduceMul]
  omega

/-- the copy made by `_varintExternalBigEndianCopyUsedBytesLittleEndian` once the width is known -/
theorem copyUsed_arms (v w : Nat) (h1 : 1 ≤ w) (h8 : w ≤ 8) :
    Writes (if w = 1 then extbeCopyUsed_arm1 v else if w = 2 then extbeCopyUsed_arm2 v
      else if w = 4 then extbeCopyUsed_arm3 v else if w = 3 then extbeCopyUsed_arm4 v
      else if w = 7 then extbeCopyUsed_arm5 v else if w = 6 then extbeCopyUsed_arm6 v
      else if w = 5 then extbeCopyUsed_arm7 v else extbeCopyUsed_arm8 v) (beBytes w v) := by
  have hw : w = 1 ∨ w = 2 ∨ w = 3 ∨ w = 4 ∨ w = 5 ∨ w = 6 ∨ w = 7 ∨ w = 8 := by omega
  unfold Writes
  rcases hw with rfl | rfl | rfl | rfl | rfl | rfl | rfl | rfl
  · simp only [extbeCopyUsed_arm1, be1]
    refine ⟨?_, rfl, by simp, by simp⟩
    simp [applyStores]
  · simp only [extbeCopyUsed_arm2, be2]
    refine ⟨?_, rfl, by simp, by simp⟩
    simp [applyStores]
  · simp only [extbeCopyUsed_arm4, be3]
    refine ⟨?_, rfl, by simp, by simp⟩
    simp [applyStores]; try omega
  · simp only [extbeCopyUsed_arm3, be4]
    refine ⟨?_, rfl, by simp, by simp⟩
    simp [applyStores]; try omega
  · simp only [extbeCopyUsed_arm7, be5]
    refine ⟨?_, rfl, by simp, by simp⟩
    simp [applyStores]; try omega
  · simp only [extbeCopyUsed_arm6, be6]
    refine ⟨?_, rfl, by simp, by simp⟩
    simp [applyStores]; try omega
  · simp only [extbeCopyUsed_arm5, be7]
    refine ⟨?_, rfl, by simp, by simp⟩
    simp [applyStores]; try omega
  · simp only [extbeCopyUsed_arm8, be8, Nat.reducePow, Nat.reduceMul, Nat.div_one]
    generalize e0 : v % 256 = x0
    generalize e1 : v / 256 % 256 = x1
    generalize e2 : v / 65536 % 256 = x2
    generalize e3 : v / 16777216 % 256 = x3
    generalize e4 : v / 4294967296 % 256 = x4
    generalize e5 : v / 1099511627776 % 256 = x5
    generalize e6 : v / 281474976710656 % 256 = x6
    generalize e7 : v / 72057594037927936 % 256 = x7
    have c0 : x0 < 256 := by omega
    have c1 : x1 < 256 := by omega
    have c2 : x2 < 256 := by omega
    have c3 : x3 < 256 := by omega
    have c4 : x4 < 256 := by omega
    have c5 : x5 < 256 := by omega
    have c6 : x6 < 256 := by omega
    have c7 : x7 < 256 := by omega
    clear e0 e1 e2 e3 e4 e5 e6 e7
    have hs := bswap_bytes x0 x1 x2 x3 x4 x5 x6 x7 c0 c1 c2 c3 c4 c5 c6 c7
    simp only [Nat.reducePow] at hs
    rw [hs]
    refine ⟨?_, rfl, by simp, by simp⟩
    simp [applyStores]
    (repeat' constructor) <;> omega

/-- **`varintExternalBigEndianPut(p, v)`** for every 64-bit value and every fuel ≥ 8: returns the minimal width and
    leaves the minimal big-endian slice, each byte stored once, nothing beyond the width -/
theorem extbePut_eq (v fuel : Nat) (hv : v < 2 ^ 64) (hf : 8 ≤ fuel) :
    ∃ stores, extbePut fuel v = some (extLen v, stores) ∧ Writes stores (ExternalBE.enc v) := by
  have h8 := extLen_le_8 hv
  have h1 := extLen_pos v
  unfold extbePut extbeCopyUsed
  simp only []
  rw [width_loop fuel v 1 (by omega) (by omega)]
  simp only [show 1 + extLen v - 1 = extLen v by omega]
  have harms := copyUsed_arms v (extLen v) h1 h8
  refine ⟨_, rfl, ?_⟩
  unfold ExternalBE.enc
  generalize extLen v = w at *
  have hw : w = 1 ∨ w = 2 ∨ w = 3 ∨ w = 4 ∨ w = 5 ∨ w = 6 ∨ w = 7 ∨ w = 8 := by omega
  rcases hw with rfl | rfl | rfl | rfl | rfl | rfl | rfl | rfl <;> simpa using harms

/-- **`varintExternalBigEndianPutFixedWidth(p, v, w)`**, 1 ≤ w ≤ 8: the bytes left at p[0 … w-1] are the big-endian
    low `w` bytes of `v`, every index below `w` stored exactly once and nothing at or beyond `w` -/
theorem extbePutFixedWidth_eq (v w : Nat) (h1 : 1 ≤ w) (h8 : w ≤ 8) :
    Writes (extbePutFixedWidth v w) (ExternalBE.encFixed v w) := by
  have hw : w = 1 ∨ w = 2 ∨ w = 3 ∨ w = 4 ∨ w = 5 ∨ w = 6 ∨ w = 7 ∨ w = 8 := by omega
  unfold Writes ExternalBE.encFixed
  rcases hw with rfl | rfl | rfl | rfl | rfl | rfl | rfl | rfl
  · simp only [extbePutFixedWidth, extbePutFixedWidth_arm1, be1]
    refine ⟨?_, rfl, by simp, by simp⟩
    simp [applyStores]
  · simp only [extbePutFixedWidth, extbePutFixedWidth_arm2, be2]
    refine ⟨?_, rfl, by simp, by simp⟩
    simp [applyStores]
  · simp only [extbePutFixedWidth, extbePutFixedWidth_arm4, be3]
    refine ⟨?_, rfl, by simp, by simp⟩
    simp [applyStores]; try omega
  · simp only [extbePutFixedWidth, extbePutFixedWidth_arm3, be4]
    refine ⟨?_, rfl, by simp, by simp⟩
    simp [applyStores]; try omega
  · simp only [extbePutFixedWidth, extbePutFixedWidth_arm7, be5]
    refine ⟨?_, rfl, by simp, by simp⟩
    simp [applyStores]; try omega
  · simp only [extbePutFixedWidth, extbePutFixedWidth_arm6, be6]
    refine ⟨?_, rfl, by simp, by simp⟩
    simp [applyStores]; try omega
  · simp only [extbePutFixedWidth, extbePutFixedWidth_arm5, be7]
    refine ⟨?_, rfl, by simp, by simp⟩
    simp [applyStores]; try omega
  · simp only [extbePutFixedWidth, extbePutFixedWidth_arm8, be8, Nat.reducePow, Nat.reduceMul, Nat.div_one]
    generalize e0 : v % 256 = x0
    generalize e1 : v / 256 % 256 = x1
    generalize e2 : v / 65536 % 256 = x2
    generalize e3 : v / 16777216 % 256 = x3
    generalize e4 : v / 4294967296 % 256 = x4
    generalize e5 : v / 1099511627776 % 256 = x5
    generalize e6 : v / 281474976710656 % 256 = x6
    generalize e7 : v / 72057594037927936 % 256 = x7
    have c0 : x0 < 256 := by omega
    have c1 : x1 < 256 := by omega
    have c2 : x2 < 256 := by omega
    have c3 : x3 < 256 := by omega
    have c4 : x4 < 256 := by omega
    have c5 : x5 < 256 := by omega
    have c6 : x6 < 256 := by omega
    have c7 : x7 < 256 := by omega
    clear e0 e1 e2 e3 e4 e5 e6 e7
    have hs := bswap_bytes x0 x1 x2 x3 x4 x5 x6 x7 c0 c1 c2 c3 c4 c5 c6 c7
    simp only [Nat.reducePow] at hs
    rw [hs]
    refine ⟨?_, rfl, by simp, by simp⟩
    simp [applyStores]
    (repeat' constructor) <;> omega

/-- storing the eight bytes of a 64-bit value back, low byte first, rebuilds it -/
theorem reassemble (X : Nat) (h : X < 2 ^ 64) :
    setByte (setByte (setByte (setByte (setByte (setByte (setByte (setByte 0 0 (X / 2 ^ (8 * 0) % 256)) 1
      (X / 2 ^ (8 * 1) % 256)) 2 (X / 2 ^ (8 * 2) % 256)) 3 (X / 2 ^ (8 * 3) % 256)) 4 (X / 2 ^ (8 * 4) % 256)) 5
      (X / 2 ^ (8 * 5) % 256)) 6 (X / 2 ^ (8 * 6) % 256)) 7 (X / 2 ^ (8 * 7) % 256) = X := by
  rw [setByte_fresh 0 0 _ (by simp)]
  rw [setByte_fresh _ 1 _ (by simp only [Nat.reducePow, Nat.reduceMul]; omega)]
  rw [setByte_fresh _ 2 _ (by simp only [Nat.reducePow, Nat.reduceMul]; omega)]
  rw [setByte_fresh _ 3 _ (by simp only [Nat.reducePow, Nat.reduceMul]; omega)]
  rw [setByte_fresh _ 4 _ (by simp only [Nat.reducePow, Nat.reduceMul]; omega)]
  rw [setByte_fresh _ 5 _ (by simp only [Nat.reducePow, Nat.reduceMul]; omega)]
  rw [setByte_fresh _ 6 _ (by simp only [Nat.reducePow, Nat.reduceMul]; omega)]
  rw [setByte_fresh _ 7 _ (by simp only [Nat.reducePow, Nat.reduceMul]; omega)]
  simp only [Nat.reducePow, Nat.reduceMul]
  omega

/-- **`varintExternalBigEndianGet(p, w)`**, 1 ≤ w ≤ 8, on a buffer of bytes: the big-endian value of p[0 … w-1] -/
theorem extbeGet_eq (p : Nat → Nat) (w : Nat) (h1 : 1 ≤ w) (h8 : w ≤ 8) (hb : ∀ i, i < w → p i < 256) :
    extbeGet p w = ofBe ((List.range w).map p) := by
  have hw : w = 1 ∨ w = 2 ∨ w = 3 ∨ w = 4 ∨ w = 5 ∨ w = 6 ∨ w = 7 ∨ w = 8 := by omega
  unfold extbeGet
  rcases hw with rfl | rfl | rfl | rfl | rfl | rfl | rfl | rfl
  · have c := fun i (h : i < 1) => hb i h
    simp only [extbeLoad, extbeLoad_arm1, Nat.reduceEqDiff, if_true, if_false, List.range, List.range.loop, List.map, ofBe,
      List.length]
    have c0 := c 0 (by omega)
    clear c hb
    generalize p 0 = x0 at *
    rw [setByte_fresh 0 0 x0 (by simp)]
    simp only [Nat.reducePow, Nat.reduceMul, Nat.reduceAdd]
    omega
  · have c := fun i (h : i < 2) => hb i h
    simp only [extbeLoad, extbeLoad_arm2, Nat.reduceEqDiff, if_true, if_false, List.range, List.range.loop, List.map, ofBe,
      List.length]
    have c0 := c 0 (by omega)
    have c1 := c 1 (by omega)
    clear c hb
    generalize p 0 = x0 at *
    generalize p 1 = x1 at *
    rw [setByte_fresh 0 1 x0 (by simp)]
    rw [setByte_fresh _ 0 x1 (by simp only [Nat.reducePow, Nat.reduceMul]; omega)]
    simp only [Nat.reducePow, Nat.reduceMul, Nat.reduceAdd]
    omega
  · have c := fun i (h : i < 3) => hb i h
    simp only [extbeLoad, extbeLoad_arm4, Nat.reduceEqDiff, if_true, if_false, List.range, List.range.loop, List.map, ofBe,
      List.length]
    have c0 := c 0 (by omega)
    have c1 := c 1 (by omega)
    have c2 := c 2 (by omega)
    clear c hb
    generalize p 0 = x0 at *
    generalize p 1 = x1 at *
    generalize p 2 = x2 at *
    rw [setByte_fresh 0 2 x0 (by simp)]
    rw [setByte_fresh _ 1 x1 (by simp only [Nat.reducePow, Nat.reduceMul]; omega)]
    rw [setByte_fresh _ 0 x2 (by simp only [Nat.reducePow, Nat.reduceMul]; omega)]
    simp only [Nat.reducePow, Nat.reduceMul, Nat.reduceAdd]
    omega
  · have c := fun i (h : i < 4) => hb i h
    simp only [extbeLoad, extbeLoad_arm3, Nat.reduceEqDiff, if_true, if_false, List.range, List.range.loop, List.map, ofBe,
      List.length]
    have c0 := c 0 (by omega)
    have c1 := c 1 (by omega)
    have c2 := c 2 (by omega)
    have c3 := c 3 (by omega)
    clear c hb
    generalize p 0 = x0 at *
    generalize p 1 = x1 at *
    generalize p 2 = x2 at *
    generalize p 3 = x3 at *
    rw [setByte_fresh 0 3 x0 (by simp)]
    rw [setByte_fresh _ 2 x1 (by simp only [Nat.reducePow, Nat.reduceMul]; omega)]
    rw [setByte_fresh _ 1 x2 (by simp only [Nat.reducePow, Nat.reduceMul]; omega)]
    rw [setByte_fresh _ 0 x3 (by simp only [Nat.reducePow, Nat.reduceMul]; omega)]
    simp only [Nat.reducePow, Nat.reduceMul, Nat.reduceAdd]
    omega
  · have c := fun i (h : i < 5) => hb i h
    simp only [extbeLoad, extbeLoad_arm7, Nat.reduceEqDiff, if_true, if_false, List.range, List.range.loop, List.map, ofBe,
      List.length]
    have c0 := c 0 (by omega)
    have c1 := c 1 (by omega)
    have c2 := c 2 (by omega)
    have c3 := c 3 (by omega)
    have c4 := c 4 (by omega)
    clear c hb
    generalize p 0 = x0 at *
    generalize p 1 = x1 at *
    generalize p 2 = x2 at *
    generalize p 3 = x3 at *
    generalize p 4 = x4 at *
    rw [setByte_fresh 0 4 x0 (by simp)]
    rw [setByte_fresh _ 3 x1 (by simp only [Nat.reducePow, Nat.reduceMul]; omega)]
    rw [setByte_fresh _ 2 x2 (by simp only [Nat.reducePow, Nat.reduceMul]; omega)]
    rw [setByte_fresh _ 1 x3 (by simp only [Nat.reducePow, Nat.reduceMul]; omega)]
    rw [setByte_fresh _ 0 x4 (by simp only [Nat.reducePow, Nat.reduceMul]; omega)]
    simp only [Nat.reducePow, Nat.reduceMul, Nat.reduceAdd]
    omega
  · have c := fun i (h : i < 6) => hb i h
    simp only [extbeLoad, extbeLoad_arm6, Nat.reduceEqDiff, if_true, if_false, List.range, List.range.loop, List.map, ofBe,
      List.length]
    have c0 := c 0 (by omega)
    have c1 := c 1 (by omega)
    have c2 := c 2 (by omega)
    have c3 := c 3 (by omega)
    have c4 := c 4 (by omega)
    have c5 := c 5 (by omega)
    clear c hb
    generalize p 0 = x0 at *
    generalize p 1 = x1 at *
    generalize p 2 = x2 at *
    generalize p 3 = x3 at *
    generalize p 4 = x4 at *
    generalize p 5 = x5 at *
    rw [setByte_fresh 0 5 x0 (by simp)]
    rw [setByte_fresh _ 4 x1 (by simp only [Nat.reducePow, Nat.reduceMul]; omega)]
    rw [setByte_fresh _ 3 x2 (by simp only [Nat.reducePow, Nat.reduceMul]; omega)]
    rw [setByte_fresh _ 2 x3 (by simp only [Nat.reducePow, Nat.reduceMul]; omega)]
    rw [setByte_fresh _ 1 x4 (by simp only [Nat.reducePow, Nat.reduceMul]; omega)]
    rw [setByte_fresh _ 0 x5 (by simp only [Nat.reducePow, Nat.reduceMul]; omega)]
    simp only [Nat.reducePow, Nat.reduceMul, Nat.reduceAdd]
    omega
  · have c := fun i (h : i < 7) => hb i h
    simp only [extbeLoad, extbeLoad_arm5, Nat.reduceEqDiff, if_true, if_false, List.range, List.range.loop, List.map, ofBe,
      List.length]
    have c0 := c 0 (by omega)
    have c1 := c 1 (by omega)
    have c2 := c 2 (by omega)
    have c3 := c 3 (by omega)
    have c4 := c 4 (by omega)
    have c5 := c 5 (by omega)
    have c6 := c 6 (by omega)
    clear c hb
    generalize p 0 = x0 at *
    generalize p 1 = x1 at *
    generalize p 2 = x2 at *
    generalize p 3 = x3 at *
    generalize p 4 = x4 at *
    generalize p 5 = x5 at *
    generalize p 6 = x6 at *
    rw [setByte_fresh 0 6 x0 (by simp)]
    rw [setByte_fresh _ 5 x1 (by simp only [Nat.reducePow, Nat.reduceMul]; omega)]
    rw [setByte_fresh _ 4 x2 (by simp only [Nat.reducePow, Nat.reduceMul]; omega)]
    rw [setByte_fresh _ 3 x3 (by simp only [Nat.reducePow, Nat.reduceMul]; omega)]
    rw [setByte_fresh _ 2 x4 (by simp only [Nat.reducePow, Nat.reduceMul]; omega)]
    rw [setByte_fresh _ 1 x5 (by simp only [Nat.reducePow, Nat.reduceMul]; omega)]
    rw [setByte_fresh _ 0 x6 (by simp only [Nat.reducePow, Nat.reduceMul]; omega)]
    simp only [Nat.reducePow, Nat.reduceMul, Nat.reduceAdd]
    omega
  · have c := fun i (h : i < 8) => hb i h
    simp only [extbeLoad, extbeLoad_arm8, Nat.reduceEqDiff, if_true, if_false, List.range, List.range.loop, List.map, ofBe,
      List.length]
    have c0 := c 0 (by omega)
    have c1 := c 1 (by omega)
    have c2 := c 2 (by omega)
    have c3 := c 3 (by omega)
    have c4 := c 4 (by omega)
    have c5 := c 5 (by omega)
    have c6 := c 6 (by omega)
    have c7 := c 7 (by omega)
    clear c hb
    generalize p 0 = x0 at *
    generalize p 1 = x1 at *
    generalize p 2 = x2 at *
    generalize p 3 = x3 at *
    generalize p 4 = x4 at *
    generalize p 5 = x5 at *
    generalize p 6 = x6 at *
    generalize p 7 = x7 at *
    rw [bswap_bytes x0 x1 x2 x3 x4 x5 x6 x7 c0 c1 c2 c3 c4 c5 c6 c7]
    rw [reassemble _ (by omega)]
    simp only [Nat.reducePow, Nat.reduceMul, Nat.reduceAdd]
    omega

end Varint.Bridge.ExtBE
