import Varint.Gen.CDim
import Varint.Model.Dimension
import Varint.Lemmas.Bytes
import Varint.Bridge.Loop
import Varint.Bridge.External
import Varint.Bridge.Delta
import Varint.Bridge.Tagged
/-
  Bridge: src/varintDimension.c — varintDimensionPack (level loop, out-parameters), varintDimensionUnpack,
  varintDimensionPairDimension (two width loops of the `varintExternalUnsignedEncoding` macro), varintDimensionPairEncode,
  varintDimensionPairDecode — as translated by tools/c2lean2.py from the CURRENT source, equal the hand-written model
  Varint.Dim.* for every 64-bit row / column count.
-/
namespace Varint.Bridge.Dim
open Varint Varint.Gen.C Varint.Bridge Varint.Bridge.External Varint.Dim

/-! ### Pack / Unpack -/

theorem dimPack_loop (m f : Nat) :
    dimPack_loop1 m (f + 9) 1 = match packDim m with
      | some d => .done d
      | none => .ret (0, none, none) := by
  simp only [dimPack_loop1]
  unfold packDim
  simp only [Nat.reducePow, Nat.reduceMul, Nat.reduceMod, Nat.reduceAdd, Nat.one_mul]
  by_cases h1 : m < 16
  · have n1 : ¬ 16 ≤ m := by omega
    simp [h1, n1]
  have g1 : 16 ≤ m := by omega
  by_cases h2 : m < 256
  · have n2 : ¬ 256 ≤ m := by omega
    simp [h1, g1, h2, n2]
  have g2 : 256 ≤ m := by omega
  by_cases h3 : m < 4096
  · have n3 : ¬ 4096 ≤ m := by omega
    simp [h1, g1, h2, g2, h3, n3]
  have g3 : 4096 ≤ m := by omega
  by_cases h4 : m < 65536
  · have n4 : ¬ 65536 ≤ m := by omega
    simp [h1, g1, h2, g2, h3, g3, h4, n4]
  have g4 : 65536 ≤ m := by omega
  by_cases h5 : m < 1048576
  · have n5 : ¬ 1048576 ≤ m := by omega
    simp [h1, g1, h2, g2, h3, g3, h4, g4, h5, n5]
  have g5 : 1048576 ≤ m := by omega
  by_cases h6 : m < 16777216
  · have n6 : ¬ 16777216 ≤ m := by omega
    simp [h1, g1, h2, g2, h3, g3, h4, g4, h5, g5, h6, n6]
  have g6 : 16777216 ≤ m := by omega
  by_cases h7 : m < 268435456
  · have n7 : ¬ 268435456 ≤ m := by omega
    simp [h1, g1, h2, g2, h3, g3, h4, g4, h5, g5, h6, g6, h7, n7]
  have g7 : 268435456 ≤ m := by omega
  by_cases h8 : m < 4294967296
  · have n8 : ¬ 4294967296 ≤ m := by omega
    simp [h1, g1, h2, g2, h3, g3, h4, g4, h5, g5, h6, g6, h7, g7, h8, n8]
  have g8 : 4294967296 ≤ m := by omega
  simp [h1, g1, h2, g2, h3, g3, h4, g4, h5, g5, h6, g6, h7, g7, h8, g8]

/-- **`varintDimensionPack(row, col, &result, &dimension)`** for every pair of 64-bit coordinates and every fuel ≥ 9:
    returns false and stores nothing when a coordinate needs more than 32 bits, otherwise true with the packed value and
    the level the model computes -/
theorem dimPack_eq (row col fuel : Nat) (hr : row < 2 ^ 64) (hc : col < 2 ^ 64) (hf : 9 ≤ fuel) :
    dimPack fuel row col = some (match Dim.pack row col with
      | some (p, d) => (1, some p, some d)
      | none => (0, none, none)) := by
  obtain ⟨f, rfl⟩ : ∃ f, fuel = f + 9 := ⟨fuel - 9, by omega⟩
  have hmax : (if row > col then row else col) = max row col := by
    by_cases c : row > col
    · rw [if_pos c]; omega
    · rw [if_neg c]; omega
  unfold dimPack Dim.pack
  simp only [hmax, dimPack_loop]
  cases hd : packDim (max row col) with
  | none => simp
  | some d =>
    have hd' : packDim (max row col) = some d := hd
    unfold packDim at hd
    have hb : 1 ≤ d ∧ d ≤ 8 ∧ max row col < 16 ^ d := by
      repeat' split at hd
      all_goals (first | (cases hd; omega) | cases hd)
    obtain ⟨h1, h8, hlt⟩ := hb
    have e4 : d * 4 % 2 ^ 32 = 4 * d := by omega
    have e16 : (16 : Nat) ^ d = 2 ^ (4 * d) := by rw [Nat.pow_mul]
    have hcd : col < 2 ^ (4 * d) := by rw [← e16]; omega
    have hrd : row < 2 ^ (4 * d) := by rw [← e16]; omega
    have h32 : 2 ^ (4 * d) ≤ 2 ^ 32 := Nat.pow_le_pow_right (by omega) (by omega)
    have hsmall : row * 2 ^ (4 * d) + col < 2 ^ 64 := by
      have : row * 2 ^ (4 * d) ≤ (2 ^ 32 - 1) * 2 ^ 32 := Nat.mul_le_mul (by omega) h32
      omega
    simp only [Option.map_some, e4, e16]
    have hor : row * 2 ^ (4 * d) % 2 ^ 64 ||| col = (row * 2 ^ (4 * d) + col) % 2 ^ 64 := by
      rw [Nat.mod_eq_of_lt (by omega), Nat.mod_eq_of_lt hsmall, Nat.mul_comm]
      exact (Nat.two_pow_add_eq_or_of_lt hcd row).symm
    rw [hor]
    simp

/-- **`varintDimensionUnpack`** for every 64-bit packed value and every level 1..8 -/
theorem dimUnpack_eq (p d : Nat) (hp : p < 2 ^ 64) (h1 : 1 ≤ d) (h8 : d ≤ 8) :
    dimUnpack p d = (some (Dim.unpack p d).1, some (Dim.unpack p d).2) := by
  have hd : d = 1 ∨ d = 2 ∨ d = 3 ∨ d = 4 ∨ d = 5 ∨ d = 6 ∨ d = 7 ∨ d = 8 := by omega
  unfold dimUnpack Dim.unpack
  rcases hd with rfl | rfl | rfl | rfl | rfl | rfl | rfl | rfl <;>
    simp only [Nat.reducePow, Nat.reduceMul, Nat.reduceMod, Nat.reduceSub, Prod.mk.injEq, Option.some.injEq, true_and]
  · exact Nat.and_two_pow_sub_one_eq_mod p 4
  · exact Nat.and_two_pow_sub_one_eq_mod p 8
  · exact Nat.and_two_pow_sub_one_eq_mod p 12
  · exact Nat.and_two_pow_sub_one_eq_mod p 16
  · exact Nat.and_two_pow_sub_one_eq_mod p 20
  · exact Nat.and_two_pow_sub_one_eq_mod p 24
  · exact Nat.and_two_pow_sub_one_eq_mod p 28
  · exact Nat.and_two_pow_sub_one_eq_mod p 32

/-! ### the pair byte and the variable-width header -/

theorem width_loop1 : ∀ (f v e : Nat), extLen v ≤ f → e + extLen v < 2 ^ 32 →
    dimPairDimension_loop1 f (v, e) = .done (0, e + extLen v - 1) := by
  intro f
  induction f with
  | zero => intro v e h; have := extLen_pos v; omega
  | succ f ih =>
    intro v e hf he
    unfold dimPairDimension_loop1
    simp only [Nat.reducePow]
    rw [extLen_eq] at hf he ⊢
    by_cases c : v < 256
    · have h0 : v / 256 = 0 := by omega
      simp only [h0, if_pos c, ne_eq, not_true_eq_false, if_false]
      rw [Nat.add_sub_cancel]
    · simp only [if_neg c] at hf he ⊢
      have h0 : v / 256 ≠ 0 := by omega
      rw [if_pos h0]
      have hp := extLen_pos (v / 256)
      rw [Nat.mod_eq_of_lt (by omega)]
      rw [ih (v / 256) (e + 1) (by omega) (by omega)]
      congr 2
      omega

theorem width_loop2 : ∀ (f v e : Nat), extLen v ≤ f → e + extLen v < 2 ^ 32 →
    dimPairDimension_loop2 f (v, e) = .done (0, e + extLen v - 1) := by
  intro f
  induction f with
  | zero => intro v e h; have := extLen_pos v; omega
  | succ f ih =>
    intro v e hf he
    unfold dimPairDimension_loop2
    simp only [Nat.reducePow]
    rw [extLen_eq] at hf he ⊢
    by_cases c : v < 256
    · have h0 : v / 256 = 0 := by omega
      simp only [h0, if_pos c, ne_eq, not_true_eq_false, if_false]
      rw [Nat.add_sub_cancel]
    · simp only [if_neg c] at hf he ⊢
      have h0 : v / 256 ≠ 0 := by omega
      rw [if_pos h0]
      have hp := extLen_pos (v / 256)
      rw [Nat.mod_eq_of_lt (by omega)]
      rw [ih (v / 256) (e + 1) (by omega) (by omega)]
      congr 2
      omega

theorem width_loop3 : ∀ (f v e : Nat), extLen v ≤ f → e + extLen v < 2 ^ 32 →
    dimPairDimension_loop3 f (v, e) = .done (0, e + extLen v - 1) := by
  intro f
  induction f with
  | zero => intro v e h; have := extLen_pos v; omega
  | succ f ih =>
    intro v e hf he
    unfold dimPairDimension_loop3
    simp only [Nat.reducePow]
    rw [extLen_eq] at hf he ⊢
    by_cases c : v < 256
    · have h0 : v / 256 = 0 := by omega
      simp only [h0, if_pos c, ne_eq, not_true_eq_false, if_false]
      rw [Nat.add_sub_cancel]
    · simp only [if_neg c] at hf he ⊢
      have h0 : v / 256 ≠ 0 := by omega
      rw [if_pos h0]
      have hp := extLen_pos (v / 256)
      rw [Nat.mod_eq_of_lt (by omega)]
      rw [ih (v / 256) (e + 1) (by omega) (by omega)]
      congr 2
      omega

theorem pair_formula : ∀ wr, wr < 9 → ∀ wc, wc < 9 → 1 ≤ wc →
    ((wr * 2 ^ 4 % 2 ^ 32) ||| ((wc + 2 ^ 32 - 1) % 2 ^ 32 * 2 ^ 1 % 2 ^ 32)) ||| 0 = pairByte wr wc false := by
  decide

theorem pair_widths (wr wc : Nat) (hwr : wr ≤ 8) (h1 : 1 ≤ wc) (h8 : wc ≤ 8) :
    pairByte wr wc false / 2 ^ 4 = wr ∧ (pairByte wr wc false / 2 ^ 1 % 8 + 1) % 2 ^ 32 = wc := by
  unfold pairByte
  simp only [Bool.false_eq_true, if_false]
  omega

/-- **`varintDimensionPairDimension(rows, cols)`** for every 64-bit row count, every 64-bit column count ≥ 1 and every
    fuel ≥ 8: the pair byte of the model (row width 0 for rows = 0, otherwise the minimal widths) -/
theorem dimPairDimension_eq (rows cols fuel : Nat) (hr : rows < 2 ^ 64) (hc1 : 1 ≤ cols) (hc : cols < 2 ^ 64)
    (hf : 8 ≤ fuel) : dimPairDimension fuel rows cols = some (Dim.pairDim rows cols) := by
  have hc0 : cols ≠ 0 := by omega
  have hwc := extLen_le_8 hc
  have hwc1 := extLen_pos cols
  unfold dimPairDimension Dim.pairDim Dim.widthRows
  by_cases c : rows = 0
  · subst c
    simp only [ne_eq, not_true_eq_false, if_false, if_true, hc0, not_false_eq_true]
    rw [width_loop3 fuel cols 1 (by omega) (by omega)]
    simp only [show 1 + extLen cols - 1 = extLen cols by omega]
    rw [pair_formula 0 (by omega) (extLen cols) (by omega) hwc1]
  · have hwr := extLen_le_8 hr
    have hwr1 := extLen_pos rows
    simp only [ne_eq, c, not_false_eq_true, if_true, if_false, hc0]
    rw [width_loop1 fuel rows 1 (by omega) (by omega)]
    simp only [show 1 + extLen rows - 1 = extLen rows by omega]
    rw [width_loop2 fuel cols 1 (by omega) (by omega)]
    simp only [show 1 + extLen cols - 1 = extLen cols by omega]
    rw [pair_formula (extLen rows) (by omega) (extLen cols) (by omega) hwc1]

theorem writes_nil : Writes [] [] := by
  unfold Writes; simp [applyStores]

/-- **`varintDimensionPairEncode(dst, rows, cols)`**: returns the model's pair byte and leaves the model's header (rows
    in 0–8 little-endian bytes, then cols in 1–8), every header byte stored exactly once and nothing beyond -/
theorem dimPairEncode_eq (rows cols fuel : Nat) (hr : rows < 2 ^ 64) (hc1 : 1 ≤ cols) (hc : cols < 2 ^ 64)
    (hf : 8 ≤ fuel) :
    ∃ st, dimPairEncode fuel rows cols = some ((Dim.pairEncode rows cols).1, st) ∧
      Writes st (Dim.pairEncode rows cols).2 := by
  have hwc := extLen_le_8 hc
  have hwc1 := extLen_pos cols
  have hwr : Dim.widthRows rows ≤ 8 := by
    unfold Dim.widthRows; split
    · omega
    · exact extLen_le_8 hr
  obtain ⟨e1, e2⟩ := pair_widths (Dim.widthRows rows) (extLen cols) hwr hwc1 hwc
  unfold dimPairEncode Dim.pairEncode
  rw [dimPairDimension_eq rows cols fuel hr hc1 hc hf]
  have e1' : Dim.rowWidthOf (Dim.pairDim rows cols) = Dim.widthRows rows := by
    unfold Dim.rowWidthOf Dim.pairDim; exact e1
  have e2' : Dim.colWidthOf (Dim.pairDim rows cols) = extLen cols := by
    unfold Dim.colWidthOf Dim.pairDim
    have := e2
    rw [Nat.mod_eq_of_lt (by omega)] at this
    simpa using this
  have e1'' : Dim.pairDim rows cols / 2 ^ 4 = Dim.widthRows rows := by unfold Dim.pairDim; exact e1
  have e2'' : (Dim.pairDim rows cols / 2 ^ 1 % 8 + 1) % 2 ^ 32 = extLen cols := by unfold Dim.pairDim; exact e2
  simp only [e1', e2', e1'', e2'']
  refine ⟨_, rfl, ?_⟩
  have hcols := extPutFixedWidth_eq cols (extLen cols) hwc1 hwc
  unfold External.encFixed at hcols
  by_cases c : Dim.widthRows rows = 0
  · have hl : leBytes (Dim.widthRows rows) rows = [] := by rw [c]; rfl
    have := Delta.writes_append [] (extPutFixedWidth cols (extLen cols)) [] (leBytes (extLen cols) cols) writes_nil hcols
    simp only [c, ne_eq, not_true_eq_false, if_false]
    simpa [leBytes] using this
  · have hrows := extPutFixedWidth_eq rows (Dim.widthRows rows) (by omega) hwr
    unfold External.encFixed at hrows
    have := Delta.writes_append _ _ _ _ hrows hcols
    simp only [ne_eq, c, not_false_eq_true, if_true]
    simpa using this

/-- **`varintDimensionPairDecode(hdr, &x, &y, dim)`** on bytes: rows = the little-endian value of the first
    `rowWidth` bytes (0 when the row width is 0), cols = that of the next `colWidth` bytes — every pair byte with row
    width ≤ 8 -/
theorem dimPairDecode_eq (mem : Nat → Nat) (dim : Nat) (hwr : Dim.rowWidthOf dim ≤ 8)
    (hb : ∀ i, i < Dim.rowWidthOf dim + Dim.colWidthOf dim → mem i < 256) :
    dimPairDecode mem dim =
      (some (ofLe ((List.range (Dim.rowWidthOf dim)).map mem)),
       some (ofLe ((List.range (Dim.colWidthOf dim)).map (fun i => mem (Dim.rowWidthOf dim + i))))) := by
  have hc8 : Dim.colWidthOf dim ≤ 8 := by unfold Dim.colWidthOf; omega
  have hc1 : 1 ≤ Dim.colWidthOf dim := by unfold Dim.colWidthOf; omega
  have ec : (dim / 2 ^ 1 % 8 + 1) % 2 ^ 32 = Dim.colWidthOf dim := by unfold Dim.colWidthOf; omega
  have er : dim / 2 ^ 4 = Dim.rowWidthOf dim := by unfold Dim.rowWidthOf; omega
  unfold dimPairDecode
  simp only [ec, er]
  rw [extGet_eq (fun i => mem (Dim.rowWidthOf dim + i)) (Dim.colWidthOf dim) hc1 hc8
    (by intro i hi; exact hb _ (by omega))]
  by_cases c : Dim.rowWidthOf dim = 0
  · simp [c, ofLe]
  · rw [if_pos c, extGet_eq mem (Dim.rowWidthOf dim) (by omega) hwr (by intro i hi; exact hb _ (by omega))]

/-! ### matrix cells behind the header: bits -/

theorem rdw_nil' (m : Nat → Nat) (i : Nat) : rdw m [] i = m i := rfl

open Varint.Bridge.Tagged (bufOf bufOf_lt)

theorem range_map_bufOf (buf : List Nat) (off n : Nat) (h : off + n ≤ buf.length) :
    (List.range n).map (fun i => bufOf buf (off + i)) = (buf.drop off).take n := by
  apply List.ext_getElem
  · simp; omega
  · intro i h1 h2
    simp only [List.getElem_map, List.getElem_range, List.getElem_take, List.getElem_drop, bufOf]
    rw [List.getD_eq_getElem?_getD, List.getElem?_eq_getElem (by simp at h1; omega)]
    rfl

/-- the column count the cell accessors read from the header = the one the model decodes -/
theorem cols_read (buf : List Nat) (hb : ∀ b ∈ buf, b < 256) (dim : Nat)
    (hlen : Dim.hdrLen dim ≤ buf.length) (rows cols : Nat) (hd : Dim.pairDecode buf dim = some (rows, cols)) :
    extGet (fun i => bufOf buf (dim / 2 ^ 4 + i)) ((dim / 2 ^ 1 % 8 + 1) % 2 ^ 32) = cols := by
  have ec : (dim / 2 ^ 1 % 8 + 1) % 2 ^ 32 = Dim.colWidthOf dim := by unfold Dim.colWidthOf; omega
  have er : dim / 2 ^ 4 = Dim.rowWidthOf dim := by unfold Dim.rowWidthOf; omega
  have hc8 : Dim.colWidthOf dim ≤ 8 := by unfold Dim.colWidthOf; omega
  have hc1 : 1 ≤ Dim.colWidthOf dim := by unfold Dim.colWidthOf; omega
  unfold Dim.hdrLen at hlen
  rw [ec, er, extGet_eq _ _ hc1 hc8 (fun i _ => bufOf_lt buf hb _), range_map_bufOf buf _ _ hlen]
  unfold Dim.pairDecode takeExact at hd
  simp only [] at hd
  rw [if_pos (by omega), if_pos (by simp; omega)] at hd
  simp only [Option.some.injEq, Prod.mk.injEq] at hd
  exact hd.2

set_option maxRecDepth 100000 in
theorem getbit_byte : ∀ bit, bit < 8 → ∀ b, b < 256 →
    ((if ((if (((((b : Nat) : Int) / 2 ^ (((bit : Nat) : Int)).toNat) % (2 : Int)) ≠ 0) then 1 else 0) ≠ 0) then 1 else 0) : Nat) =
      (if b / 2 ^ bit % 2 = 1 then 1 else 0) := by
  decide

set_option maxRecDepth 100000 in
theorem setbit_byte : ∀ bit, bit < 8 → ∀ b, b < 256 →
    (((((b ||| ((1 * 2 ^ (((bit : Nat) : Int)).toNat % 2 ^ 32) % 2 ^ 8)) : Nat) : Int)) % (2 ^ 8 : Int)).toNat =
      b + (1 - b / 2 ^ bit % 2) * 2 ^ bit := by
  decide

set_option maxRecDepth 100000 in
theorem clrbit_byte : ∀ bit, bit < 8 → ∀ b, b < 256 →
    (((((b &&& ((2 ^ 32 - 1 - (1 * 2 ^ (((bit : Nat) : Int)).toNat % 2 ^ 32)) % 2 ^ 8)) : Nat) : Int)) % (2 ^ 8 : Int)).toNat =
      b - (b / 2 ^ bit % 2) * 2 ^ bit := by
  decide

set_option maxRecDepth 100000 in
theorem togglebit_byte : ∀ bit, bit < 8 → ∀ b, b < 256 →
    (((ibit2 32 (· ^^^ ·) ((b : Nat) : Int) ((1 : Int) * 2 ^ (((bit : Nat) : Int)).toNat))) % (2 ^ 8 : Int)).toNat =
      (if b / 2 ^ bit % 2 = 1 then b - 2 ^ bit else b + 2 ^ bit) := by
  decide

/-- where the C looks for the bit of cell (row, col): byte `hdrLen + k / 8`, bit `k % 8`, `k` the model's cell index -/
structure CellOK (buf : List Nat) (dim row col k : Nat) : Prop where
  bytes : ∀ b ∈ buf, b < 256
  hdr : Dim.hdrLen dim ≤ buf.length
  wr : Dim.rowWidthOf dim ≤ 8
  row64 : row < 2 ^ 64
  col64 : col < 2 ^ 64
  idx : Dim.cellIndex buf dim row col = some k
  k64 : k < 2 ^ 64
  inside : Dim.hdrLen dim + k / 8 < buf.length

theorem total_eq {buf : List Nat} {dim row col k : Nat} (h : CellOK buf dim row col k) :
    (if row ≠ 0 then
      (row * extGet (fun i => bufOf buf (dim / 2 ^ 4 + i)) ((dim / 2 ^ 1 % 8 + 1) % 2 ^ 32) % 2 ^ 64 + col) % 2 ^ 64
     else col) = k := by
  have hidx := h.idx
  unfold Dim.cellIndex at hidx
  by_cases c : row = 0
  · rw [if_pos c] at hidx
    simp only [Option.some.injEq] at hidx
    simp [c, hidx]
  · rw [if_neg c] at hidx
    cases hd : Dim.pairDecode buf dim with
    | none => rw [hd] at hidx; simp at hidx
    | some rc =>
      obtain ⟨rows, cols⟩ := rc
      rw [hd] at hidx
      simp only [Option.map_some, Option.some.injEq] at hidx
      rw [if_pos c, cols_read buf h.bytes dim h.hdr rows cols hd]
      have := h.k64
      have h1 : row * cols < 2 ^ 64 := by omega
      rw [Nat.mod_eq_of_lt h1, Nat.mod_eq_of_lt (by omega)]
      exact hidx

theorem meta_eq (dim : Nat) (hwr : Dim.rowWidthOf dim ≤ 8) :
    (dim / 2 ^ 4 + (dim / 2 ^ 1 % 8 + 1) % 2 ^ 32) % 2 ^ 32 % 2 ^ 8 = Dim.hdrLen dim := by
  unfold Dim.hdrLen Dim.rowWidthOf Dim.colWidthOf at *
  omega

/-- **`varintDimensionPairEntryGetBit`** = the model's `getBit` -/
theorem dimEntryGetBit_eq {buf : List Nat} {dim row col k : Nat} (h : CellOK buf dim row col k) :
    Dim.getBit buf dim row col = some (decide (dimEntryGetBit (bufOf buf) row col dim = 1)) ∧
    dimEntryGetBit (bufOf buf) row col dim ≤ 1 := by
  have hin := h.inside
  have hk := h.k64
  have hm := meta_eq dim h.wr
  have hl : Dim.hdrLen dim ≤ 16 := by have := h.wr; unfold Dim.hdrLen Dim.colWidthOf; omega
  unfold dimEntryGetBit Dim.getBit
  simp only [total_eq h, hm, h.idx]
  have e1 : (Dim.hdrLen dim + k / 8) % 2 ^ 64 = Dim.hdrLen dim + k / 8 := Nat.mod_eq_of_lt (by omega)
  have e2 : k % 8 % 2 ^ 8 = k % 8 := by omega
  rw [e1, e2]
  have hb : bufOf buf (Dim.hdrLen dim + k / 8) = buf[Dim.hdrLen dim + k / 8] := by
    unfold bufOf; rw [List.getD_eq_getElem?_getD, List.getElem?_eq_getElem hin]; rfl
  rw [hb, List.getElem?_eq_getElem hin, getbit_byte (k % 8) (by omega) _ (h.bytes _ (List.getElem_mem _))]
  simp only [Option.map_some]
  by_cases c : buf[Dim.hdrLen dim + k / 8] / 2 ^ (k % 8) % 2 = 1
  · simp [c]
  · simp [c]

/-- **`varintDimensionPairEntrySetBit`**: exactly one store, inside the buffer, and the memory it leaves is the
    model's `setBit` -/
theorem dimEntrySetBit_eq {buf : List Nat} {dim row col k : Nat} (h : CellOK buf dim row col k) (on : Bool) :
    ∃ nb, dimEntrySetBit (bufOf buf) row col (if on then 1 else 0) dim = [(Dim.hdrLen dim + k / 8, nb)] ∧
      Dim.setBit buf dim row col on = some (applyStores buf [(Dim.hdrLen dim + k / 8, nb)]) := by
  have hin := h.inside
  have hk := h.k64
  have hm := meta_eq dim h.wr
  have hl : Dim.hdrLen dim ≤ 16 := by have := h.wr; unfold Dim.hdrLen Dim.colWidthOf; omega
  unfold dimEntrySetBit Dim.setBit
  simp only [rdw_nil', total_eq h, hm, h.idx]
  have e1 : (Dim.hdrLen dim + k / 8) % 2 ^ 64 = Dim.hdrLen dim + k / 8 := Nat.mod_eq_of_lt (by omega)
  have e2 : k % 8 % 2 ^ 8 = k % 8 := by omega
  rw [e1, e2]
  have hb : bufOf buf (Dim.hdrLen dim + k / 8) = buf[Dim.hdrLen dim + k / 8] := by
    unfold bufOf; rw [List.getD_eq_getElem?_getD, List.getElem?_eq_getElem hin]; rfl
  have hlt := h.bytes _ (List.getElem_mem hin)
  rw [hb, List.getElem?_eq_getElem hin]
  cases on with
  | true =>
    simp only [if_true, ne_eq, Nat.succ_ne_zero, not_false_eq_true]
    rw [setbit_byte (k % 8) (by omega) _ hlt]
    exact ⟨_, rfl, by simp [applyStores]⟩
  | false =>
    simp only [Bool.false_eq_true, if_false, ne_eq, not_true_eq_false]
    rw [clrbit_byte (k % 8) (by omega) _ hlt]
    exact ⟨_, rfl, by simp [applyStores]⟩

/-- **`varintDimensionPairEntryToggleBit`**: one store inside the buffer; the memory it leaves and the returned previous
    value are the model's `toggleBit` -/
theorem dimEntryToggleBit_eq {buf : List Nat} {dim row col k : Nat} (h : CellOK buf dim row col k) :
    ∃ r nb, dimEntryToggleBit (bufOf buf) row col dim = (r, [(Dim.hdrLen dim + k / 8, nb)]) ∧ r ≤ 1 ∧
      Dim.toggleBit buf dim row col = some (applyStores buf [(Dim.hdrLen dim + k / 8, nb)], decide (r = 1)) := by
  have hin := h.inside
  have hk := h.k64
  have hm := meta_eq dim h.wr
  have hl : Dim.hdrLen dim ≤ 16 := by have := h.wr; unfold Dim.hdrLen Dim.colWidthOf; omega
  unfold dimEntryToggleBit Dim.toggleBit Dim.getBit Dim.setBit
  simp only [rdw_nil', total_eq h, hm, h.idx]
  have e1 : (Dim.hdrLen dim + k / 8) % 2 ^ 64 = Dim.hdrLen dim + k / 8 := Nat.mod_eq_of_lt (by omega)
  have e2 : k % 8 % 2 ^ 8 = k % 8 := by omega
  rw [e1, e2]
  have hb : bufOf buf (Dim.hdrLen dim + k / 8) = buf[Dim.hdrLen dim + k / 8] := by
    unfold bufOf; rw [List.getD_eq_getElem?_getD, List.getElem?_eq_getElem hin]; rfl
  have hlt := h.bytes _ (List.getElem_mem hin)
  rw [hb, List.getElem?_eq_getElem hin, getbit_byte (k % 8) (by omega) _ hlt, togglebit_byte (k % 8) (by omega) _ hlt]
  simp only [Option.map_some]
  have h01 : buf[Dim.hdrLen dim + k / 8] / 2 ^ (k % 8) % 2 = 0 ∨ buf[Dim.hdrLen dim + k / 8] / 2 ^ (k % 8) % 2 = 1 := by
    omega
  rcases h01 with c | c
  · refine ⟨_, _, rfl, by simp [c], ?_⟩
    simp [c, applyStores]
  · refine ⟨_, _, rfl, by simp [c], ?_⟩
    simp [c, applyStores]

/-! ### matrix cells behind the header: unsigned entries of 1–8 bytes -/

/-- where the C puts the entry of cell (row, col) of width `w`: byte offset `hdrLen + k * w` -/
theorem dimEntryOffset_eq (buf : List Nat) (hb : ∀ b ∈ buf, b < 256) (dim row col w k : Nat)
    (hlen : Dim.hdrLen dim ≤ buf.length) (hwr : Dim.rowWidthOf dim ≤ 8) (hidx : Dim.cellIndex buf dim row col = some k)
    (hoff : Dim.hdrLen dim + k * w < 2 ^ 64) (hw : 1 ≤ w) :
    dimEntryOffset (bufOf buf) row col w dim = Dim.hdrLen dim + k * w := by
  have hm := meta_eq dim hwr
  have hkw : k ≤ k * w := Nat.le_mul_of_pos_right k hw
  unfold dimEntryOffset
  simp only [hm]
  unfold Dim.cellIndex at hidx
  by_cases c : row = 0
  · rw [if_pos c] at hidx
    simp only [Option.some.injEq] at hidx
    subst hidx
    simp only [c, ne_eq, not_true_eq_false, if_false]
    rw [Nat.mod_eq_of_lt (show col * w < 2 ^ 64 by omega), Nat.mod_eq_of_lt (show Dim.hdrLen dim + col * w < 2 ^ 64 from hoff)]
  · rw [if_neg c] at hidx
    cases hd : Dim.pairDecode buf dim with
    | none => rw [hd] at hidx; simp at hidx
    | some rc =>
      obtain ⟨rows, cols⟩ := rc
      rw [hd] at hidx
      simp only [Option.map_some, Option.some.injEq] at hidx
      have hdec := dimPairDecode_eq (bufOf buf) dim hwr (fun i _ => bufOf_lt buf hb i)
      have hcols := cols_read buf hb dim hlen rows cols hd
      have ec : (dim / 2 ^ 1 % 8 + 1) % 2 ^ 32 = Dim.colWidthOf dim := by unfold Dim.colWidthOf; omega
      have er : dim / 2 ^ 4 = Dim.rowWidthOf dim := by unfold Dim.rowWidthOf; omega
      have hc8 : Dim.colWidthOf dim ≤ 8 := by unfold Dim.colWidthOf; omega
      have hc1 : 1 ≤ Dim.colWidthOf dim := by unfold Dim.colWidthOf; omega
      rw [ec, er, extGet_eq _ _ hc1 hc8 (fun i _ => bufOf_lt buf hb _)] at hcols
      simp only [ne_eq, c, not_false_eq_true, if_true, hdec, Option.getD_some, hcols]
      have h1 : row * cols + col ≤ k * w := by omega
      have h2 : row * cols < 2 ^ 64 := by omega
      have e1 : (row * cols + col) % 2 ^ 64 = k := by rw [hidx]; exact Nat.mod_eq_of_lt (by omega)
      rw [Nat.mod_eq_of_lt h2, e1, Nat.mod_eq_of_lt (show k * w < 2 ^ 64 by omega),
        Nat.mod_eq_of_lt (show Dim.hdrLen dim + k * w < 2 ^ 64 from hoff)]

/-- `varintExternalPutFixedWidth` overwrites whatever the `w` bytes held before -/
theorem extPutFixedWidth_over (v w : Nat) (h1 : 1 ≤ w) (h8 : w ≤ 8) (mid : List Nat) (hl : mid.length = w) :
    applyStores mid (extPutFixedWidth v w) = leBytes w v := by
  have hw : w = 1 ∨ w = 2 ∨ w = 3 ∨ w = 4 ∨ w = 5 ∨ w = 6 ∨ w = 7 ∨ w = 8 := by omega
  rcases hw with rfl | rfl | rfl | rfl | rfl | rfl | rfl | rfl
  · obtain ⟨m0, rfl⟩ : ∃ m0, mid = [m0] := by
      match mid, hl with
      | [m0], _ => exact ⟨m0, rfl⟩
    simp only [extPutFixedWidth, extPutFixedWidth_arm1, le1]
    simp [applyStores]
  · obtain ⟨m0, m1, rfl⟩ : ∃ m0 m1, mid = [m0, m1] := by
      match mid, hl with
      | [m0, m1], _ => exact ⟨m0, m1, rfl⟩
    simp only [extPutFixedWidth, extPutFixedWidth_arm2, le2]
    simp [applyStores]
  · obtain ⟨m0, m1, m2, rfl⟩ : ∃ m0 m1 m2, mid = [m0, m1, m2] := by
      match mid, hl with
      | [m0, m1, m2], _ => exact ⟨m0, m1, m2, rfl⟩
    simp only [extPutFixedWidth, extPutFixedWidth_arm4, le3]
    simp [applyStores]; try omega
  · obtain ⟨m0, m1, m2, m3, rfl⟩ : ∃ m0 m1 m2 m3, mid = [m0, m1, m2, m3] := by
      match mid, hl with
      | [m0, m1, m2, m3], _ => exact ⟨m0, m1, m2, m3, rfl⟩
    simp only [extPutFixedWidth, extPutFixedWidth_arm3, le4]
    simp [applyStores]; try omega
  · obtain ⟨m0, m1, m2, m3, m4, rfl⟩ : ∃ m0 m1 m2 m3 m4, mid = [m0, m1, m2, m3, m4] := by
      match mid, hl with
      | [m0, m1, m2, m3, m4], _ => exact ⟨m0, m1, m2, m3, m4, rfl⟩
    simp only [extPutFixedWidth, extPutFixedWidth_arm7, le5]
    simp [applyStores]; try omega
  · obtain ⟨m0, m1, m2, m3, m4, m5, rfl⟩ : ∃ m0 m1 m2 m3 m4 m5, mid = [m0, m1, m2, m3, m4, m5] := by
      match mid, hl with
      | [m0, m1, m2, m3, m4, m5], _ => exact ⟨m0, m1, m2, m3, m4, m5, rfl⟩
    simp only [extPutFixedWidth, extPutFixedWidth_arm6, le6]
    simp [applyStores]; try omega
  · obtain ⟨m0, m1, m2, m3, m4, m5, m6, rfl⟩ : ∃ m0 m1 m2 m3 m4 m5 m6, mid = [m0, m1, m2, m3, m4, m5, m6] := by
      match mid, hl with
      | [m0, m1, m2, m3, m4, m5, m6], _ => exact ⟨m0, m1, m2, m3, m4, m5, m6, rfl⟩
    simp only [extPutFixedWidth, extPutFixedWidth_arm5, le7]
    simp [applyStores]; try omega
  · obtain ⟨m0, m1, m2, m3, m4, m5, m6, m7, rfl⟩ : ∃ m0 m1 m2 m3 m4 m5 m6 m7, mid = [m0, m1, m2, m3, m4, m5, m6, m7] := by
      match mid, hl with
      | [m0, m1, m2, m3, m4, m5, m6, m7], _ => exact ⟨m0, m1, m2, m3, m4, m5, m6, m7, rfl⟩
    simp only [extPutFixedWidth, extPutFixedWidth_arm8, le8]
    simp [applyStores]; try omega

/-- the same at byte offset `off` of a larger buffer: everything before and after is untouched -/
theorem extPutFixedWidth_at (v w : Nat) (h1 : 1 ≤ w) (h8 : w ≤ 8) (buf : List Nat) (off : Nat)
    (h : off + w ≤ buf.length) :
    applyStores buf (shiftW off (extPutFixedWidth v w)) = buf.take off ++ leBytes w v ++ buf.drop (off + w) := by
  have hsplit : buf = buf.take off ++ ((buf.drop off).take w ++ buf.drop (off + w)) := by
    rw [← List.drop_drop, List.take_append_drop, List.take_append_drop]
  have hlen : (buf.take off).length = off := by simp; omega
  have hmid : ((buf.drop off).take w).length = w := by simp; omega
  have hin : ∀ p ∈ extPutFixedWidth v w, p.1 < ((buf.drop off).take w).length := by
    rw [hmid]
    have := (extPutFixedWidth_eq v w h1 h8).2.2.1
    unfold External.encFixed at this
    simpa using this
  have key := Delta.applyStores_append_right (buf.take off) ((buf.drop off).take w ++ buf.drop (off + w))
    (extPutFixedWidth v w)
  rw [hlen, ← hsplit] at key
  rw [key, Delta.applyStores_append_left _ _ _ hin, extPutFixedWidth_over v w h1 h8 _ hmid, List.append_assoc]

/-- **`varintDimensionPairEntryGetUnsigned`** = the model's `getEntry` -/
theorem dimEntryGetUnsigned_eq (buf : List Nat) (hb : ∀ b ∈ buf, b < 256) (dim row col w k : Nat)
    (hlen : Dim.hdrLen dim ≤ buf.length) (hwr : Dim.rowWidthOf dim ≤ 8) (hidx : Dim.cellIndex buf dim row col = some k)
    (h1 : 1 ≤ w) (h8 : w ≤ 8) (hin : Dim.hdrLen dim + k * w + w ≤ buf.length) (h64 : buf.length < 2 ^ 64) :
    Dim.getEntry buf dim row col w = some (dimEntryGetUnsigned (bufOf buf) row col w dim) := by
  unfold dimEntryGetUnsigned Dim.getEntry Dim.readAt takeExact
  rw [dimEntryOffset_eq buf hb dim row col w k hlen hwr hidx (by omega) h1]
  simp only [hidx]
  rw [extGet_eq _ _ h1 h8 (fun i _ => bufOf_lt buf hb _), range_map_bufOf buf _ _ hin, if_pos (by simp; omega)]
  rfl

/-- **`varintDimensionPairEntrySetUnsigned`**: the stores leave the model's `setEntry` — the entry's `w` bytes replaced,
    every other byte of the buffer (header included) as before -/
theorem dimEntrySetUnsigned_eq (buf : List Nat) (hb : ∀ b ∈ buf, b < 256) (dim row col v w k : Nat)
    (hlen : Dim.hdrLen dim ≤ buf.length) (hwr : Dim.rowWidthOf dim ≤ 8) (hidx : Dim.cellIndex buf dim row col = some k)
    (h1 : 1 ≤ w) (h8 : w ≤ 8) (hin : Dim.hdrLen dim + k * w + w ≤ buf.length) (h64 : buf.length < 2 ^ 64) :
    Dim.setEntry buf dim row col v w = some (applyStores buf (dimEntrySetUnsigned (bufOf buf) row col v w dim)) := by
  have hfun : (fun i => rdw (bufOf buf) [] (0 + i)) = bufOf buf := by funext i; rw [Nat.zero_add]; rfl
  unfold dimEntrySetUnsigned Dim.setEntry Dim.writeAt
  rw [hfun, dimEntryOffset_eq buf hb dim row col w k hlen hwr hidx (by omega) h1]
  simp only [hidx, leBytes_length]
  rw [if_pos hin, extPutFixedWidth_at v w h1 h8 buf _ (by omega)]

end Varint.Bridge.Dim
