import Varint.Gen.CSplit
import Varint.Model.Split
import Varint.Lemmas.Bytes
import Varint.Lemmas.Canon
import Varint.Bridge.Loop
import Varint.Bridge.Tagged
import Varint.Bridge.External
import Varint.Bridge.Split
import Varint.Bridge.Dim
/-
  Bridge: the statement macros of src/varintSplitFull16.h (Length_, Put_, GetLen_, GetLenQuick_, Get_), expanded by clang
  inside the wrapper functions of harness/vw_split.c and translated by tools/c2lean2.py from the CURRENT headers, equal the
  model Varint.Split.S16.* for every 64-bit value / every byte buffer the model reads inside of.
-/
namespace Varint.Bridge.Split16
open Varint Varint.Gen.C Varint.Bridge Varint.Bridge.External Varint.Bridge.Split
open Varint.Bridge.Tagged (bufOf bufOf_lt)

theorem widthL16 : ∀ (f v e : Nat), extLen v ≤ f → e + extLen v < 2 ^ 32 →
    split16Length_loop1 f (v, e) = .done (0, e + extLen v - 1) := by
  intro f
  induction f with
  | zero => intro v e h; have := extLen_pos v; omega
  | succ f ih =>
    intro v e hf he
    unfold split16Length_loop1
    simp only [Nat.reducePow]
    rw [extLen_eq] at hf he ⊢
    by_cases c : v < 256
    · have h0 : v / 256 = 0 := by omega
      simp only [h0, if_pos c, ne_eq, not_true_eq_false, if_false]
      rw [Nat.add_sub_cancel]
    · simp only [if_neg c] at hf he ⊢
      have h0 : v / 256 ≠ 0 := by omega
      rw [if_pos h0]
      have hp := extLen_pos (v / 256)
      rw [Nat.mod_eq_of_lt (by omega)]
      rw [ih (v / 256) (e + 1) (by omega) (by omega)]
      congr 2
      omega

theorem widthP16 : ∀ (f v e : Nat), extLen v ≤ f → e + extLen v < 2 ^ 32 →
    split16Put_loop1 f (v, e) = .done (0, e + extLen v - 1) := by
  intro f
  induction f with
  | zero => intro v e h; have := extLen_pos v; omega
  | succ f ih =>
    intro v e hf he
    unfold split16Put_loop1
    simp only [Nat.reducePow]
    rw [extLen_eq] at hf he ⊢
    by_cases c : v < 256
    · have h0 : v / 256 = 0 := by omega
      simp only [h0, if_pos c, ne_eq, not_true_eq_false, if_false]
      rw [Nat.add_sub_cancel]
    · simp only [if_neg c] at hf he ⊢
      have h0 : v / 256 ≠ 0 := by omega
      rw [if_pos h0]
      have hp := extLen_pos (v / 256)
      rw [Nat.mod_eq_of_lt (by omega)]
      rw [ih (v / 256) (e + 1) (by omega) (by omega)]
      congr 2
      omega

/-- **`varintSplitFull16Length_`** for every 64-bit value, every fuel ≥ 8 -/
theorem split16Length_eq (v fuel : Nat) (hv : v < 2 ^ 64) (hf : 8 ≤ fuel) :
    split16Length fuel v = some (Split.S16.len v) := by
  unfold split16Length Split.S16.len
  simp only []
  by_cases c1 : v ≤ 16383
  · rw [if_pos c1, if_pos c1]
  · rw [if_neg c1, if_neg c1]
    by_cases c2 : v ≤ 4210686
    · rw [if_pos c2, if_pos c2]
    · rw [if_neg c2, if_neg c2]
      by_cases c3 : v ≤ 1077952509
      · rw [if_pos c3, if_pos c3]
      · rw [if_neg c3, if_neg c3]
        have hu : (v + 2 ^ 64 - 1077952509) % 2 ^ 64 = v - 1077952509 := by omega
        simp only [hu]
        have h8 := extLen_le_8 (show v - 1077952509 < 2 ^ 64 by omega)
        have h1 := extLen_pos (v - 1077952509)
        rw [widthL16 fuel (v - 1077952509) 1 (by omega) (by omega)]
        simp only [Split.lenVar, Option.some.injEq]
        by_cases c4 : extLen (v - 1077952509) ≤ 4
        · rw [if_pos (by omega)]
          by_cases c5 : extLen (v - 1077952509) < 4
          · rw [if_pos c5]
          · rw [if_neg c5]; omega
        · rw [if_neg (by omega), if_neg (by omega)]; omega

theorem or192 (x : Nat) (hx : x < 64) : (192 ||| x) % 2 ^ 8 = 192 + x := by
  have := Nat.two_pow_add_eq_or_of_lt (i := 6) (b := x) (by omega) 3
  simp only [Nat.reducePow, Nat.reduceMul] at this
  rw [← this]; omega

/-- **`varintSplitFull16Put_(dst, len, v)`** for every 64-bit value and every fuel ≥ 8 -/
theorem split16Put_eq (v fuel : Nat) (hv : v < 2 ^ 64) (hf : 8 ≤ fuel) :
    ∃ stores, split16Put fuel v = some (Split.S16.len v, stores) ∧ Writes stores (Split.S16.enc v) := by
  unfold split16Put Split.S16.len Split.S16.enc
  simp only []
  by_cases c1 : v ≤ 16383
  · rw [if_pos c1, if_pos c1, if_pos c1]
    refine ⟨_, rfl, ?_⟩
    have e : (0 ||| (v / 2 ^ 8 % 64)) % 2 ^ 8 = v / 256 % 64 := by rw [Nat.zero_or]; omega
    have e2 : (v % 256) % 2 ^ 8 = v % 256 := by omega
    rw [e, e2]
    unfold Writes Split.encLevel
    simp [applyStores, beBytes]
  · rw [if_neg c1, if_neg c1, if_neg c1]
    by_cases c2 : v ≤ 4210686
    · rw [if_pos c2, if_pos c2, if_pos c2]
      refine ⟨_, rfl, ?_⟩
      have hu : (v + 2 ^ 64 - 16383) % 2 ^ 64 = v - 16383 := by omega
      simp only [hu]
      have e1 : (64 ||| ((v - 16383) / 2 ^ 16 % 64)) % 2 ^ 8 = 64 + (v - 16383) / 65536 % 64 := by
        rw [or64 _ (Nat.mod_lt _ (by omega))]
      have e2 : ((v - 16383) / 2 ^ 8 % 256) % 2 ^ 8 = (v - 16383) / 256 % 256 := by omega
      have e3 : ((v - 16383) % 256) % 2 ^ 8 = (v - 16383) % 256 := by omega
      rw [e1, e2, e3]
      unfold Writes Split.encLevel
      simp [applyStores, beBytes]
    · rw [if_neg c2, if_neg c2, if_neg c2]
      by_cases c3 : v ≤ 1077952509
      · rw [if_pos c3, if_pos c3, if_pos c3]
        refine ⟨_, rfl, ?_⟩
        have hu : (v + 2 ^ 64 - 4210686) % 2 ^ 64 = v - 4210686 := by omega
        simp only [hu]
        have e1 : (128 ||| ((v - 4210686) / 2 ^ 24 % 64)) % 2 ^ 8 = 128 + (v - 4210686) / 16777216 % 64 := by
          rw [or128 _ (by omega)]
        have e2 : ((v - 4210686) / 2 ^ 16 % 256) % 2 ^ 8 = (v - 4210686) / 65536 % 256 := by omega
        have e3 : ((v - 4210686) / 2 ^ 8 % 256) % 2 ^ 8 = (v - 4210686) / 256 % 256 := by omega
        have e4 : ((v - 4210686) % 256) % 2 ^ 8 = (v - 4210686) % 256 := by omega
        rw [e1, e2, e3, e4]
        unfold Writes Split.encLevel
        simp [applyStores, beBytes]
      · rw [if_neg c3, if_neg c3, if_neg c3]
        have hu : (v + 2 ^ 64 - 1077952509) % 2 ^ 64 = v - 1077952509 := by omega
        simp only [hu]
        generalize hud : v - 1077952509 = u
        have hu64 : u < 2 ^ 64 := by omega
        have h8 := extLen_le_8 hu64
        have h1 := extLen_pos u
        rw [widthP16 fuel u 1 (by omega) (by omega)]
        simp only [show 1 + extLen u - 1 = extLen u by omega]
        simp only [Split.lenVar, Split.encVar, hud]
        by_cases c4 : extLen u < 4
        · -- padded to four payload bytes
          have c4' : extLen u ≤ 4 := by omega
          simp only [if_pos c4', if_pos c4]
          have ew : ((((5 : Nat) : Int) - (1 : Int)) % (2 ^ 32 : Int)).toNat = 4 := by decide
          simp only [ew]
          rw [or192 4 (by omega)]
          refine ⟨_, rfl, ?_⟩
          rw [if_neg (by omega), if_neg (by omega)]
          have := writes_cons (192 + 4) _ _ (extPutFixedWidth_eq u 4 (by omega) (by omega))
          simpa [External.encFixed] using this
        · simp only [if_neg c4]
          by_cases c5 : extLen u = 4
          · have c5' : extLen u ≤ 4 := by omega
            simp only [if_pos c5']
            have ew : ((((5 : Nat) : Int) - (1 : Int)) % (2 ^ 32 : Int)).toNat = 4 := by decide
            simp only [ew]
            rw [or192 4 (by omega), c5]
            refine ⟨_, rfl, ?_⟩
            rw [if_neg (by omega), if_neg (by omega)]
            have := writes_cons (192 + 4) _ _ (extPutFixedWidth_eq u 4 (by omega) (by omega))
            simpa [External.encFixed] using this
          · have c5' : ¬ extLen u ≤ 4 := by omega
            simp only [if_neg c5']
            have el : ((1 + extLen u) % 2 ^ 32) % 2 ^ 8 = 1 + extLen u := by omega
            simp only [el]
            have ew : ((((1 + extLen u : Nat) : Int) - (1 : Int)) % (2 ^ 32 : Int)).toNat = extLen u := by omega
            simp only [ew]
            rw [or192 (extLen u) (by omega)]
            refine ⟨_, rfl, ?_⟩
            rw [if_neg (by omega), if_neg (by omega)]
            have := writes_cons (192 + extLen u) _ _ (extPutFixedWidth_eq u (extLen u) h1 h8)
            simpa [External.encFixed] using this

/-- **`varintSplitFull16GetLen_`** and **`GetLenQuick_`** on the type byte -/
theorem split16GetLen_eq (p : Nat → Nat) (h0 : p 0 < 256) :
    split16GetLen p = Split.S16.getLen (p 0) ∧ split16GetLenQuick p = Split.S16.getLenQuick (p 0) := by
  unfold split16GetLen split16GetLenQuick Split.S16.getLen Split.S16.getLenQuick
  simp only [and192 (p 0) h0]
  generalize p 0 = b at *
  constructor
  · by_cases c1 : b < 64
    · have e : (((b / 64 * 64 : Nat) : Int) = (0 : Int)) := by omega
      simp only [e, if_true, if_pos c1]
    · have e1 : ¬ (((b / 64 * 64 : Nat) : Int) = (0 : Int)) := by omega
      rw [if_neg e1, if_neg c1]
      by_cases c2 : b < 128
      · have e : (((b / 64 * 64 : Nat) : Int) = (64 : Int)) := by omega
        simp only [e, if_true, if_pos c2]
      · have e2 : ¬ (((b / 64 * 64 : Nat) : Int) = (64 : Int)) := by omega
        rw [if_neg e2, if_neg c2]
        by_cases c3 : b < 192
        · have e : (((b / 64 * 64 : Nat) : Int) = (128 : Int)) := by omega
          simp only [e, if_true, if_pos c3]
        · have e3 : ¬ (((b / 64 * 64 : Nat) : Int) = (128 : Int)) := by omega
          have e4 : (((b / 64 * 64 : Nat) : Int) = (192 : Int)) := by omega
          rw [if_neg e3, if_neg c3, if_pos e4]
          omega
  · by_cases c : 192 ≤ b
    · have e4 : (((b / 64 * 64 : Nat) : Int) = (192 : Int)) := by omega
      rw [if_pos e4, if_pos c]; omega
    · have e4 : ¬ (((b / 64 * 64 : Nat) : Int) = (192 : Int)) := by omega
      rw [if_neg e4, if_neg c]
      have : ((b : Nat) : Int) / 2 ^ 6 = ((b / 64 : Nat) : Int) := by omega
      rw [this]; omega

theorem lvl1 (a b1 : Nat) (ha : a < 64) (h1 : b1 < 256) : (a * 2 ^ 8 % 2 ^ 64) ||| b1 = a * 256 + b1 := by
  rw [Nat.mod_eq_of_lt (show a * 2 ^ 8 < 2 ^ 64 by omega),
    Tagged.or_eq_add (a * 2 ^ 8) b1 8 (Nat.mul_mod_left _ _) (by omega)]

theorem lvl2 (a b1 b2 : Nat) (ha : a < 256) (h1 : b1 < 256) (h2 : b2 < 256) :
    ((a * 2 ^ 16 % 2 ^ 64) ||| (b1 * 2 ^ 8 % 2 ^ 64)) ||| b2 = a * 65536 + b1 * 256 + b2 := by
  rw [Nat.mod_eq_of_lt (show a * 2 ^ 16 < 2 ^ 64 by omega), Nat.mod_eq_of_lt (show b1 * 2 ^ 8 < 2 ^ 64 by omega),
    Tagged.or_eq_add (a * 2 ^ 16) (b1 * 2 ^ 8) 16 (Nat.mul_mod_left _ _) (by omega),
    Tagged.or_eq_add _ b2 8 (by omega) (by omega)]

theorem lvl3 (a b1 b2 b3 : Nat) (ha : a < 256) (h1 : b1 < 256) (h2 : b2 < 256) (h3 : b3 < 256) :
    (((a * 2 ^ 24 % 2 ^ 64) ||| (b1 * 2 ^ 16 % 2 ^ 64)) ||| (b2 * 2 ^ 8 % 2 ^ 64)) ||| b3 =
      a * 16777216 + b1 * 65536 + b2 * 256 + b3 := by
  rw [Nat.mod_eq_of_lt (show a * 2 ^ 24 < 2 ^ 64 by omega), Nat.mod_eq_of_lt (show b1 * 2 ^ 16 < 2 ^ 64 by omega),
    Nat.mod_eq_of_lt (show b2 * 2 ^ 8 < 2 ^ 64 by omega),
    Tagged.or_eq_add (a * 2 ^ 24) (b1 * 2 ^ 16) 24 (Nat.mul_mod_left _ _) (by omega),
    Tagged.or_eq_add _ (b2 * 2 ^ 8) 16 (by omega) (by omega),
    Tagged.or_eq_add _ b3 8 (by omega) (by omega)]

theorem p1 : (256 : Nat) ^ 1 = 256 := by decide
theorem p2 : (256 : Nat) ^ 2 = 65536 := by decide
theorem p3 : (256 : Nat) ^ 3 = 16777216 := by decide

/-- the inlined `varintExternalGetQuickMedium_(p + 1, w, v)`: arms for 3 and 2 bytes, `varintExternalGet` otherwise -/
theorem medium_eq (bs : List Nat) (hb : ∀ b ∈ bs, b < 256) (w : Nat) (h8 : w ≤ 8) (hin : 1 + w ≤ bs.length) :
    (if ((((1 + w : Nat) : Int) - (1 : Int)) = (3 : Int)) then
        ((bufOf bs 3 * 2 ^ 16 % 2 ^ 64) ||| (bufOf bs 2 * 2 ^ 8 % 2 ^ 64)) ||| bufOf bs 1
      else if ((((1 + w : Nat) : Int) - (1 : Int)) = (2 : Int)) then (bufOf bs 2 * 2 ^ 8 % 2 ^ 64) ||| bufOf bs 1
      else extGet (fun i => bufOf bs (1 + i)) w) = ofLe ((bs.drop 1).take w) := by
  have hr := Dim.range_map_bufOf bs 1 w hin
  have b1 := bufOf_lt bs hb 1
  have b2 := bufOf_lt bs hb 2
  have b3 := bufOf_lt bs hb 3
  by_cases w3 : w = 3
  · subst w3
    rw [if_pos (by omega), ← hr, lvl2 _ _ _ b3 b2 b1]
    simp only [List.range, List.range.loop, List.map, ofLe, Nat.add_zero, Nat.reduceAdd]
    omega
  · rw [if_neg (by omega)]
    by_cases w2 : w = 2
    · subst w2
      rw [if_pos (by omega), ← hr]
      simp only [List.range, List.range.loop, List.map, ofLe, Nat.add_zero, Nat.reduceAdd]
      rw [Nat.mod_eq_of_lt (show bufOf bs 2 * 2 ^ 8 < 2 ^ 64 by omega),
        Tagged.or_eq_add (bufOf bs 2 * 2 ^ 8) (bufOf bs 1) 8 (Nat.mul_mod_left _ _) (by omega)]
      omega
    · rw [if_neg (by omega)]
      by_cases w0 : w = 0
      · subst w0
        simp [extGet, extLoadLE, ofLe]
      · rw [extGet_eq _ w (by omega) h8 (fun i _ => bufOf_lt bs hb _), hr]

set_option maxRecDepth 8000 in
/-- **`varintSplitFull16Get_(p, len, v)`** on a buffer holding `bs`: whenever the model reads inside `bs` and the var
    byte announces a width an encoder produces (0..8) the C returns the model's (length, value) -/
theorem split16Get_eq (bs : List Nat) (hb : ∀ b ∈ bs, b < 256) (val n : Nat)
    (hw : ∀ b0 rest, bs = b0 :: rest → 192 ≤ b0 → b0 % 16 ≤ 8)
    (h : Split.S16.dec bs = some (val, n)) :
    split16Get (bufOf bs) = (n, some val) := by
  cases bs with
  | nil => simp [Split.S16.dec] at h
  | cons b0 rest =>
    have h0 : b0 < 256 := hb b0 (by simp)
    have hp0 : bufOf (b0 :: rest) 0 = b0 := rfl
    have q1 := bufOf_lt (b0 :: rest) hb 1
    have q2 := bufOf_lt (b0 :: rest) hb 2
    have q3 := bufOf_lt (b0 :: rest) hb 3
    unfold split16Get
    simp only [hp0, and192 b0 h0]
    unfold Split.S16.dec at h
    simp only [] at h
    have ha : (((((b0 % 64 : Nat) : Int)) % (2 ^ 64 : Int)).toNat) = b0 % 64 := by omega
    simp only [ha]
    by_cases c1 : b0 < 64
    · have e : (((b0 / 64 * 64 : Nat) : Int) = (0 : Int)) := by omega
      rw [if_pos e]
      rw [if_pos c1] at h
      simp only [Split.decLevel] at h
      cases ht : takeExact 1 rest with
      | none => rw [ht] at h; simp at h
      | some pl =>
        rw [ht] at h
        simp only [Option.map_some, Option.some.injEq, Prod.mk.injEq] at h
        obtain ⟨hv, hn⟩ := h
        obtain ⟨hpe, hple, _⟩ := takeExact_some ht
        have hr := Dim.range_map_bufOf (b0 :: rest) 1 1 (by simp; omega)
        simp only [List.range, List.range.loop, List.map, Nat.add_zero, List.drop_succ_cons, List.drop_zero] at hr
        rw [← hpe] at hr
        rw [lvl1 _ _ (by omega) q1]
        refine Prod.ext (by simp only []; omega) ?_
        simp only [Option.some.injEq]
        rw [← hv, ← hr]
        simp only [ofBe, List.length_nil, Nat.pow_zero, p1, Nat.mul_one, Nat.add_zero]
        omega
    · have e1 : ¬ (((b0 / 64 * 64 : Nat) : Int) = (0 : Int)) := by omega
      rw [if_neg e1]
      rw [if_neg c1] at h
      by_cases c2 : b0 < 128
      · have e : (((b0 / 64 * 64 : Nat) : Int) = (64 : Int)) := by omega
        rw [if_pos e]
        rw [if_pos c2] at h
        simp only [Split.decLevel] at h
        cases ht : takeExact 2 rest with
        | none => rw [ht] at h; simp at h
        | some pl =>
          rw [ht] at h
          simp only [Option.map_some, Option.some.injEq, Prod.mk.injEq] at h
          obtain ⟨hv, hn⟩ := h
          obtain ⟨hpe, hple, _⟩ := takeExact_some ht
          have hr := Dim.range_map_bufOf (b0 :: rest) 1 2 (by simp; omega)
          simp only [List.range, List.range.loop, List.map, Nat.add_zero, List.drop_succ_cons, List.drop_zero,
            Nat.reduceAdd] at hr
          rw [← hpe] at hr
          rw [lvl2 _ _ _ (by omega) q1 q2]
          refine Prod.ext (by simp only []; omega) ?_
          simp only [Option.some.injEq]
          rw [← hv, ← hr]
          simp only [ofBe, List.length_cons, List.length_nil, Nat.pow_zero, p1, p2, Nat.mul_one, Nat.add_zero,
            Nat.zero_add]
          rw [show ∀ a b c d : Nat, a + b + c + d = a + (b + c) + d from fun a b c d => by omega]
      · have e2 : ¬ (((b0 / 64 * 64 : Nat) : Int) = (64 : Int)) := by omega
        rw [if_neg e2]
        rw [if_neg c2] at h
        by_cases c3 : b0 < 192
        · have e : (((b0 / 64 * 64 : Nat) : Int) = (128 : Int)) := by omega
          rw [if_pos e]
          rw [if_pos c3] at h
          simp only [Split.decLevel] at h
          cases ht : takeExact 3 rest with
          | none => rw [ht] at h; simp at h
          | some pl =>
            rw [ht] at h
            simp only [Option.map_some, Option.some.injEq, Prod.mk.injEq] at h
            obtain ⟨hv, hn⟩ := h
            obtain ⟨hpe, hple, _⟩ := takeExact_some ht
            have hr := Dim.range_map_bufOf (b0 :: rest) 1 3 (by simp; omega)
            simp only [List.range, List.range.loop, List.map, Nat.add_zero, List.drop_succ_cons, List.drop_zero,
              Nat.reduceAdd] at hr
            rw [← hpe] at hr
            rw [lvl3 _ _ _ _ (by omega) q1 q2 q3]
            refine Prod.ext (by simp only []; omega) ?_
            simp only [Option.some.injEq]
            rw [← hv, ← hr]
            simp only [ofBe, List.length_cons, List.length_nil, Nat.pow_zero, p1, p2, p3, Nat.mul_one, Nat.add_zero,
              Nat.zero_add, Nat.reduceAdd]
            rw [show ∀ a b c d e : Nat, a + b + c + d + e = a + (b + (c + d)) + e from fun a b c d e => by omega]
        · have e3 : ¬ (((b0 / 64 * 64 : Nat) : Int) = (128 : Int)) := by omega
          have e4 : (((b0 / 64 * 64 : Nat) : Int) = (192 : Int)) := by omega
          rw [if_neg e3, if_pos e4]
          rw [if_neg c3] at h
          have hw8 := hw b0 rest rfl (by omega)
          have en : ((1 + ((((b0 % 16 : Nat) : Int)) % (2 ^ 32 : Int)).toNat) % 2 ^ 32) % 2 ^ 8 = 1 + b0 % 16 := by omega
          simp only [en]
          have ew : ((((1 + b0 % 16 : Nat) : Int) - (1 : Int)) % (2 ^ 32 : Int)).toNat = b0 % 16 := by omega
          simp only [ew]
          generalize hwd : b0 % 16 = w at *
          simp only [Split.decVar] at h
          cases ht : takeExact w rest with
          | none => rw [ht] at h; simp at h
          | some pl =>
            rw [ht] at h
            simp only [Option.map_some, Option.some.injEq, Prod.mk.injEq] at h
            obtain ⟨hv, hn⟩ := h
            obtain ⟨hpe, hple, _⟩ := takeExact_some ht
            have hm := medium_eq (b0 :: rest) hb w hw8 (by simp; omega)
            simp only [List.drop_succ_cons, List.drop_zero] at hm
            rw [← hpe] at hm
            rw [hm]
            refine Prod.ext (by simp only []; omega) ?_
            simp only [Option.some.injEq]
            rw [← hv]

end Varint.Bridge.Split16
