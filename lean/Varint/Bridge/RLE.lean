import Varint.Gen.CRLE
import Varint.Model.RLE
import Varint.Lemmas.RLE
import Varint.Bridge.Loop
import Varint.Bridge.Tagged
import Varint.Model.Bounded
import Varint.Lemmas.Bounded
import Varint.Lemmas.Fuel
/-
  Bridge: src/varintRLE.c (varintRLEAnalyze, varintRLEEncode, varintRLEGetRunCount), as translated by
  tools/c2lean2.py from the CURRENT source — loops, pointer walk and calls to the tagged encoder included —
  equals the hand-written model Varint.RLE.* for ALL arrays and every sufficient fuel.
-/
namespace Varint.Bridge.RLE
open Varint Varint.Gen.C Varint.Bridge Varint.RLE

/-! ### run decomposition, read from the front -/

theorem runs_replicate (L cur : Nat) (hL : 1 ≤ L) : runs (List.replicate L cur) = [(L, cur)] := by
  induction L with
  | zero => omega
  | succ L ih =>
    cases L with
    | zero => rfl
    | succ L =>
      rw [List.replicate_succ, runs, ih (by omega)]
      simp

theorem runs_head (x : Nat) (t : List Nat) : ∃ k rest, runs (x :: t) = (k, x) :: rest := by
  induction t generalizing x with
  | nil => exact ⟨1, [], rfl⟩
  | cons y t ih =>
    obtain ⟨k, rest, h⟩ := ih y
    rw [runs, h]
    by_cases c : y = x
    · subst c; exact ⟨k + 1, rest, by simp⟩
    · exact ⟨1, (k, y) :: rest, by simp [c]⟩

theorem runs_replicate_append_ne (L cur x : Nat) (t : List Nat) (hL : 1 ≤ L) (hx : x ≠ cur) :
    runs (List.replicate L cur ++ x :: t) = (L, cur) :: runs (x :: t) := by
  induction L with
  | zero => omega
  | succ L ih =>
    obtain ⟨k, rest, h⟩ := runs_head x t
    cases L with
    | zero =>
      simp only [List.replicate_succ, List.replicate_zero, List.nil_append, List.cons_append]
      rw [runs, h]
      simp [hx]
    | succ L =>
      rw [List.replicate_succ, List.cons_append, runs, ih (by omega)]
      simp

theorem replicate_snoc_cons (L cur : Nat) (t : List Nat) :
    List.replicate L cur ++ cur :: t = List.replicate (L + 1) cur ++ t := by
  rw [List.replicate_succ']
  simp

theorem encRuns_cons (l v : Nat) (rs : List (Nat × Nat)) :
    encRuns ((l, v) :: rs) = Tagged.enc l ++ Tagged.enc v ++ encRuns rs := by
  simp [encRuns]

theorem encRuns_single (l v : Nat) : encRuns [(l, v)] = Tagged.enc l ++ Tagged.enc v := by
  simp [encRuns]

/-- the stores of `varintTaggedPut64(p, x)` are the model's bytes at p[0], p[1], … -/
theorem taggedPut64_stores (x : Nat) (hx : x < 2 ^ 64) :
    taggedPut64 x = ((Tagged.enc x).length, storesFrom 0 (Tagged.enc x)) := by
  obtain ⟨h1, h2, h3⟩ := Bridge.Tagged.taggedPut64_eq x hx
  have hl : (Tagged.enc x).length = Tagged.len x := Tagged.enc_length x
  refine Prod.ext (by rw [h1, hl]) ?_
  exact eq_storesFrom_of_maps _ _ 0 h2 (by rw [h3, hl, List.range_eq_range'])


/-! ### varintRLEEncode -/

theorem bufOf_drop (xs : List Nat) (i x : Nat) (rest : List Nat) (h : xs.drop i = x :: rest) :
    Bridge.Tagged.bufOf xs i = x := by
  unfold Bridge.Tagged.bufOf
  have : (xs.drop i)[0]? = some x := by rw [h]; rfl
  rw [List.getElem?_drop] at this
  rw [List.getD_eq_getElem?_getD]
  simpa using congrArg (·.getD 0) this

theorem drop_succ_of_drop (xs : List Nat) (i x : Nat) (rest : List Nat) (h : xs.drop i = x :: rest) :
    xs.drop (i + 1) = rest := by
  have := congrArg (List.drop 1) h
  simpa [List.drop_drop, Nat.add_comm] using this

/-- the loop of `varintRLEEncode` from index `i` with a pending run of `L` copies of `cur`: it appends the
    encoding of the runs of `replicate L cur ++ xs.drop i` and leaves through the loop condition -/
theorem encode_loop (xs : List Nat) (hx : ∀ x ∈ xs, x < 2 ^ 64) (hn : xs.length + 1 < 2 ^ 64) :
    ∀ (rest : List Nat) (f i L ptr rn cur : Nat) (ws : List (Nat × Nat)),
      xs.drop i = rest → i ≤ xs.length → 1 ≤ L → cur < 2 ^ 64 → rn + L + rest.length ≤ xs.length →
      rest.length + 2 ≤ f →
      ∃ L' cur', rleEncode_loop1 (Bridge.Tagged.bufOf xs) xs.length f (i, L, ptr, rn, cur, ws) =
        .done (xs.length + 1, L', ptr + (encRuns (runs (List.replicate L cur ++ rest))).length,
               rn + (runs (List.replicate L cur ++ rest)).length, cur',
               ws ++ storesFrom ptr (encRuns (runs (List.replicate L cur ++ rest)))) := by
  intro rest
  induction rest with
  | nil =>
    intro f i L ptr rn cur ws hd hi hL hcur hrn hf
    have hil : i = xs.length := by
      have := List.drop_eq_nil_iff.1 hd; omega
    subst hil
    obtain ⟨f, rfl⟩ : ∃ g, f = g + 2 := ⟨f - 2, by simp at hf; omega⟩
    refine ⟨L, cur, ?_⟩
    rw [List.append_nil, runs_replicate L cur hL, encRuns_single]
    unfold rleEncode_loop1
    simp only [Nat.le_refl, if_true, Nat.lt_irrefl, false_and, if_false]
    rw [taggedPut64_stores L (by omega), taggedPut64_stores cur hcur]
    simp only [shiftW_storesFrom, Nat.add_zero]
    unfold rleEncode_loop1
    have h1 : (xs.length + 1) % 2 ^ 64 = xs.length + 1 := Nat.mod_eq_of_lt hn
    have h2 : (rn + 1) % 2 ^ 64 = rn + 1 := Nat.mod_eq_of_lt (by omega)
    simp only [h1, h2, Nat.not_succ_le_self, if_false, List.length_append, List.length_cons, List.length_nil,
      storesFrom_append, List.append_assoc, Nat.add_assoc]
  | cons x rest ih =>
    intro f i L ptr rn cur ws hd hi hL hcur hrn hf
    simp only [List.length_cons] at hrn hf
    obtain ⟨f, rfl⟩ : ∃ g, f = g + 1 := ⟨f - 1, by omega⟩
    have hil : i < xs.length := by
      have : (xs.drop i).length = rest.length + 1 := by rw [hd]; rfl
      rw [List.length_drop] at this; omega
    have hxi : Bridge.Tagged.bufOf xs i = x := bufOf_drop xs i x rest hd
    have hd' : xs.drop (i + 1) = rest := drop_succ_of_drop xs i x rest hd
    have hxlt : x < 2 ^ 64 := hx x (by
      have : x ∈ xs.drop i := by rw [hd]; simp
      exact List.mem_of_mem_drop this)
    have hi1 : (i + 1) % 2 ^ 64 = i + 1 := Nat.mod_eq_of_lt (by omega)
    unfold rleEncode_loop1
    simp only [if_pos (Nat.le_of_lt hil), hil, true_and, hxi, if_true]
    by_cases c : x = cur
    · subst c
      have hL1 : (L + 1) % 2 ^ 64 = L + 1 := Nat.mod_eq_of_lt (by omega)
      simp only [if_true, hi1, hL1]
      obtain ⟨L', cur', h⟩ := ih f (i + 1) (L + 1) ptr rn x ws hd' (by omega) (by omega) hcur (by omega) (by omega)
      refine ⟨L', cur', ?_⟩
      rw [h, replicate_snoc_cons]
    · simp only [if_neg c, hi1]
      rw [taggedPut64_stores L (by omega), taggedPut64_stores cur hcur]
      have h2 : (rn + 1) % 2 ^ 64 = rn + 1 := Nat.mod_eq_of_lt (by omega)
      simp only [shiftW_storesFrom, Nat.add_zero, h2]
      obtain ⟨L', cur', h⟩ := ih f (i + 1) 1 (ptr + (Tagged.enc L).length + (Tagged.enc cur).length) (rn + 1) x
        (ws ++ storesFrom ptr (Tagged.enc L) ++ storesFrom (ptr + (Tagged.enc L).length) (Tagged.enc cur))
        hd' (by omega) (by omega) hxlt (by omega) (by omega)
      refine ⟨L', cur', ?_⟩
      rw [h, runs_replicate_append_ne L cur x rest hL c, encRuns_cons]
      simp only [List.replicate_one, List.singleton_append, List.length_append, List.length_cons,
        storesFrom_append, List.append_assoc, Nat.add_assoc, Nat.add_comm 1]

/-- **`varintRLEEncode(dst, values, count, meta)`** — for every array of 64-bit values (count < 2^60), with or
    without a metadata struct, and every fuel ≥ count + 2: the C returns the length of the model's encoding, stores
    exactly the model's bytes at dst[0], dst[1], … in increasing order (each once), and fills the struct with
    count, the number of maximal runs, the bytes written, and 0 -/
theorem rleEncode_eq (xs : List Nat) (hx : ∀ x ∈ xs, x < 2 ^ 64) (hn : xs.length < 2 ^ 60) (given : Bool)
    (fuel : Nat) (hf : xs.length + 2 ≤ fuel) :
    rleEncode fuel (Bridge.Tagged.bufOf xs) xs.length given =
      some ((RLE.enc xs).length,
            if given then some xs.length else none,
            if given then some (RLE.runCount xs) else none,
            if given then some (RLE.enc xs).length else none,
            if given then some 0 else none,
            storesFrom 0 (RLE.enc xs)) := by
  unfold rleEncode
  cases xs with
  | nil => cases given <;> simp [RLE.enc, RLE.runs, RLE.encRuns, RLE.runCount]
  | cons x0 t =>
    have hne : ¬ ((x0 :: t).length = 0) := by simp
    rw [if_neg hne]
    have h0 : Bridge.Tagged.bufOf (x0 :: t) 0 = x0 := rfl
    obtain ⟨L', cur', h⟩ := encode_loop (x0 :: t) hx (by omega) t fuel 1 1 0 0 x0 [] (by simp) (by simp) (by omega)
      (hx x0 (by simp)) (by simp; omega) (by simp at hf ⊢; omega)
    simp only [h0]
    rw [h]
    have hr : List.replicate 1 x0 ++ t = x0 :: t := by simp
    have hlen : (((((encRuns (runs (x0 :: t))).length : Nat) : Int) - ((0 : Nat) : Int)) % (2 ^ 64 : Int)).toNat
        = (encRuns (runs (x0 :: t))).length := by
      have hb := RLE.enc_le (x0 :: t)
      unfold RLE.enc at hb
      simp only [List.length_cons] at hb hn
      omega
    simp only [hr, List.nil_append, Nat.zero_add, hlen]
    cases given <;> simp [RLE.enc, RLE.runCount]


/-! ### varintRLEAnalyze -/

/-- bytes of a run list: what `varintRLESize` must report -/
def sizeRuns (rs : List (Nat × Nat)) : Nat := (rs.map fun (l, v) => Tagged.len l + Tagged.len v).sum

theorem sizeRuns_cons (l v : Nat) (rs : List (Nat × Nat)) :
    sizeRuns ((l, v) :: rs) = Tagged.len l + Tagged.len v + sizeRuns rs := by
  simp [sizeRuns]

theorem analyze_loop (xs : List Nat) (hx : ∀ x ∈ xs, x < 2 ^ 64) (hn : xs.length < 2 ^ 59) :
    ∀ (rest : List Nat) (f i L es rn cur uq : Nat),
      xs.drop i = rest → i ≤ xs.length → 1 ≤ L → cur < 2 ^ 64 → L + rest.length ≤ xs.length →
      es ≤ 18 * i → rn ≤ i → uq ≤ i → rest.length + 1 ≤ f →
      ∃ L' es' rn' cur' uq', rleAnalyze_loop1 (Bridge.Tagged.bufOf xs) xs.length f (i, L, es, rn, cur, uq) =
          .done (xs.length, L', es', rn', cur', uq') ∧
        L' < 2 ^ 64 ∧ cur' < 2 ^ 64 ∧
        es' + Tagged.len L' + Tagged.len cur' = es + sizeRuns (runs (List.replicate L cur ++ rest)) ∧
        es' ≤ 18 * xs.length ∧
        rn' + 1 = rn + (runs (List.replicate L cur ++ rest)).length ∧
        uq' + 1 = uq + (runs (List.replicate L cur ++ rest)).length := by
  intro rest
  induction rest with
  | nil =>
    intro f i L es rn cur uq hd hi hL hcur hLr hes hrn huq hf
    have hil : i = xs.length := by
      have := List.drop_eq_nil_iff.1 hd; omega
    subst hil
    obtain ⟨f, rfl⟩ : ∃ g, f = g + 1 := ⟨f - 1, by omega⟩
    refine ⟨L, es, rn, cur, uq, ?_, by simp at hLr; omega, hcur, ?_, hes, ?_, ?_⟩
    · unfold rleAnalyze_loop1
      simp only [Nat.lt_irrefl, if_false]
    all_goals rw [List.append_nil, runs_replicate L cur hL]
    · simp [sizeRuns]; omega
    · simp
    · simp
  | cons x rest ih =>
    intro f i L es rn cur uq hd hi hL hcur hLr hes hrn huq hf
    simp only [List.length_cons] at hLr hf
    obtain ⟨f, rfl⟩ : ∃ g, f = g + 1 := ⟨f - 1, by omega⟩
    have hil : i < xs.length := by
      have : (xs.drop i).length = rest.length + 1 := by rw [hd]; rfl
      rw [List.length_drop] at this; omega
    have hxi : Bridge.Tagged.bufOf xs i = x := bufOf_drop xs i x rest hd
    have hd' : xs.drop (i + 1) = rest := drop_succ_of_drop xs i x rest hd
    have hxlt : x < 2 ^ 64 := hx x (by
      have : x ∈ xs.drop i := by rw [hd]; simp
      exact List.mem_of_mem_drop this)
    have hi1 : (i + 1) % 2 ^ 64 = i + 1 := Nat.mod_eq_of_lt (by omega)
    unfold rleAnalyze_loop1
    simp only [if_pos hil, hxi]
    by_cases c : x = cur
    · subst c
      have hL1 : (L + 1) % 2 ^ 64 = L + 1 := Nat.mod_eq_of_lt (by omega)
      simp only [if_true, hi1, hL1]
      obtain ⟨L', es', rn', cur', uq', h, r1, r2, r3, r4, r5, r6⟩ :=
        ih f (i + 1) (L + 1) es rn x uq hd' (by omega) (by omega) hcur (by omega) (by omega) (by omega) (by omega)
          (by omega)
      refine ⟨L', es', rn', cur', uq', h, r1, r2, ?_, r4, ?_, ?_⟩
      all_goals rw [replicate_snoc_cons]
      · exact r3
      · exact r5
      · exact r6
    · have hl1 := Tagged.len_bounds L
      have hl2 := Tagged.len_bounds cur
      have e1 : (es + taggedLen L) % 2 ^ 64 = es + Tagged.len L := by
        rw [Bridge.Tagged.taggedLen_eq L (by omega)]; exact Nat.mod_eq_of_lt (by omega)
      have e2 : (es + Tagged.len L + taggedLen cur) % 2 ^ 64 = es + Tagged.len L + Tagged.len cur := by
        rw [Bridge.Tagged.taggedLen_eq cur hcur]; exact Nat.mod_eq_of_lt (by omega)
      have e3 : (rn + 1) % 2 ^ 64 = rn + 1 := Nat.mod_eq_of_lt (by omega)
      have e4 : (uq + 1) % 2 ^ 64 = uq + 1 := Nat.mod_eq_of_lt (by omega)
      simp only [if_neg c, hi1, e1, e2, e3, e4]
      obtain ⟨L', es', rn', cur', uq', h, r1, r2, r3, r4, r5, r6⟩ :=
        ih f (i + 1) 1 (es + Tagged.len L + Tagged.len cur) (rn + 1) x (uq + 1) hd' (by omega) (by omega) hxlt
          (by omega) (by omega) (by omega) (by omega) (by omega)
      refine ⟨L', es', rn', cur', uq', h, r1, r2, ?_, r4, ?_, ?_⟩
      all_goals rw [runs_replicate_append_ne L cur x rest hL c]
      all_goals simp only [List.replicate_one, List.singleton_append] at r3 r5 r6
      · rw [sizeRuns_cons]; omega
      · simp only [List.length_cons]; omega
      · simp only [List.length_cons]; omega


/-- **`varintRLEAnalyze(values, count, &meta)`** (and so `varintRLESize`, `varintRLEIsBeneficial`) for every array of
    64-bit values with count < 2^59 and every fuel ≥ count + 1: the struct receives count, the number of maximal runs,
    exactly the number of bytes `varintRLEEncode` writes, and the run count again as `uniqueValues`; the return value
    says whether that size is below 8·count -/
theorem rleAnalyze_eq (xs : List Nat) (hx : ∀ x ∈ xs, x < 2 ^ 64) (hn : xs.length < 2 ^ 59)
    (fuel : Nat) (hf : xs.length + 1 ≤ fuel) :
    rleAnalyze fuel (Bridge.Tagged.bufOf xs) xs.length =
      some (if xs ≠ [] ∧ RLE.size xs < 8 * xs.length then 1 else 0,
            some xs.length, some (RLE.runCount xs), some (RLE.size xs), some (RLE.runCount xs)) := by
  unfold rleAnalyze
  cases xs with
  | nil => simp [RLE.size, RLE.runs, RLE.runCount]
  | cons x0 t =>
    have hne : ¬ ((x0 :: t).length = 0) := by simp
    rw [if_neg hne]
    have h0 : Bridge.Tagged.bufOf (x0 :: t) 0 = x0 := rfl
    obtain ⟨L', es', rn', cur', uq', h, r1, r2, r3, r4, r5, r6⟩ :=
      analyze_loop (x0 :: t) hx hn t fuel 1 1 0 1 x0 1 (by simp) (by simp) (by omega) (hx x0 (by simp))
        (by simp; omega) (by omega) (by omega) (by omega) (by simp at hf ⊢; omega)
    simp only [h0]
    rw [h]
    have hr : List.replicate 1 x0 ++ t = x0 :: t := by simp
    rw [hr] at r3 r5 r6
    have hl1 := Tagged.len_bounds L'
    have hl2 := Tagged.len_bounds cur'
    have e1 : (es' + taggedLen L') % 2 ^ 64 = es' + Tagged.len L' := by
      rw [Bridge.Tagged.taggedLen_eq L' r1]; exact Nat.mod_eq_of_lt (by omega)
    have e2 : (es' + Tagged.len L' + taggedLen cur') % 2 ^ 64 = es' + Tagged.len L' + Tagged.len cur' := by
      rw [Bridge.Tagged.taggedLen_eq cur' r2]; exact Nat.mod_eq_of_lt (by omega)
    have hsz : RLE.size (x0 :: t) = sizeRuns (runs (x0 :: t)) := rfl
    have e3 : ((x0 :: t).length * 8) % 2 ^ 64 = 8 * (x0 :: t).length := by
      rw [Nat.mul_comm]; exact Nat.mod_eq_of_lt (by omega)
    simp only [e1, e2, e3, r3, Nat.zero_add, RLE.runCount, hsz]
    have hrn : rn' = (runs (x0 :: t)).length := by omega
    have huq : uq' = (runs (x0 :: t)).length := by omega
    subst hrn
    rw [huq]
    by_cases c : sizeRuns (runs (x0 :: t)) < 8 * (x0 :: t).length
    · simp [c]
    · simp [c]


/-! ### varintRLEGetRunCount (the bounded reader of C14) -/

theorem bufOf_shift (bs : List Nat) (p : Nat) :
    (fun i => Bridge.Tagged.bufOf bs (p + i)) = Bridge.Tagged.bufOf (bs.drop p) := by
  funext i
  unfold Bridge.Tagged.bufOf
  rw [List.getD_eq_getElem?_getD, List.getD_eq_getElem?_getD, List.getElem?_drop]

theorem mem_drop_lt (bs : List Nat) (hb : ∀ b ∈ bs, b < 256) (p : Nat) : ∀ b ∈ bs.drop p, b < 256 :=
  fun b h => hb b (List.mem_of_mem_drop h)

open Varint.Bounded in
/-- the loop of `varintRLEGetRunCount` follows the bounded model from every position -/
theorem runCount_loop (bs : List Nat) (hb : ∀ b ∈ bs, b < 256) (hlen : bs.length < 2 ^ 63) :
    ∀ (mf fuel ptr runs r : Nat), ptr ≤ bs.length → bs.length - ptr < mf → mf ≤ fuel →
      runs + (bs.length - ptr) < 2 ^ 64 →
      runCountAux mf (bs.drop ptr) (bs.length - ptr) = .ok r →
      ∃ p', rleGetRunCount_loop1 (Bridge.Tagged.bufOf bs) bs.length fuel (runs, ptr) = .done (runs + r, p') := by
  intro mf
  induction mf with
  | zero => intro fuel ptr runs r _ h; omega
  | succ mf ih =>
    intro fuel ptr runs r hp hmf hfu hru h
    obtain ⟨fuel, rfl⟩ : ∃ g, fuel = g + 1 := ⟨fuel - 1, by omega⟩
    unfold runCountAux at h
    unfold rleGetRunCount_loop1
    by_cases c0 : bs.length - ptr = 0
    · rw [if_pos c0] at h
      have : ¬ ptr < bs.length := by omega
      rw [if_neg this]
      simp only [R.ok.injEq] at h
      exact ⟨ptr, by rw [← h]; rfl⟩
    · rw [if_neg c0] at h
      have hlt : ptr < bs.length := by omega
      rw [if_pos hlt]
      have e1 : (((((bs.length : Nat) : Int) - ((ptr : Nat) : Int))) % (2 ^ 64 : Int)).toNat = bs.length - ptr := by omega
      have e2 : (if (bs.length - ptr > 2147483647) then (2147483647 : Int) else (sx 32 (bs.length - ptr))) =
          ((min (bs.length - ptr) int32Max : Nat) : Int) := by
        unfold int32Max
        by_cases c : bs.length - ptr > 2147483647
        · rw [if_pos c, Nat.min_eq_right (by omega)]; rfl
        · rw [if_neg c, Nat.min_eq_left (by omega)]
          unfold sx
          have : (bs.length - ptr) % 2 ^ 32 = bs.length - ptr := Nat.mod_eq_of_lt (by omega)
          rw [this, if_pos (by omega)]
      simp only [e1, e2, bufOf_shift]
      have hl : (bs.drop ptr).length = bs.length - ptr := List.length_drop
      have hmin : ((min (bs.length - ptr) int32Max : Nat) : Int) ≤ ((bs.drop ptr).length : Int) := by
        rw [hl]; have := Nat.min_le_left (bs.length - ptr) int32Max; omega
      have hnf := getN_no_fault (bs.drop ptr) _ hmin
      rw [Bridge.Tagged.taggedGet_eq (bs.drop ptr) _ (mem_drop_lt bs hb ptr) hnf]
      cases hg : Tagged.getN (bs.drop ptr) ((min (bs.length - ptr) int32Max : Nat) : Int) with
      | fault => exact absurd hg hnf
      | short =>
        rw [hg] at h
        simp only [R.ok.injEq] at h
        simp only [if_true]
        exact ⟨ptr, by rw [← h]; rfl⟩
      | ok runLen w1 =>
        rw [hg] at h
        simp only [] at h ⊢
        obtain ⟨hw1a, hw1b, hw1c⟩ := getN_ok_bounds _ _ _ _ hg
        have hw1 : ¬ (w1 = 0) := by omega
        rw [if_neg hw1]
        have e3 : sx 32 w1 = (w1 : Int) := by
          unfold sx
          have : w1 % 2 ^ 32 = w1 := Nat.mod_eq_of_lt (by omega)
          rw [this, if_pos (by omega)]
        have e5 : (fun i => Bridge.Tagged.bufOf bs (ptr + w1 + i)) = Bridge.Tagged.bufOf (bs.drop (ptr + w1)) :=
          bufOf_shift bs (ptr + w1)
        simp only [e3, e5]
        rw [List.drop_drop] at h
        have hnf2 : Tagged.getN (bs.drop (ptr + w1)) (((min (bs.length - ptr) int32Max : Nat) : Int) - (w1 : Int)) ≠ .fault := by
          apply getN_no_fault
          simp only [List.length_drop]
          have := Nat.min_le_left (bs.length - ptr) int32Max
          omega
        rw [Bridge.Tagged.taggedGet_eq _ _ (mem_drop_lt bs hb (ptr + w1)) hnf2]
        cases hg2 : Tagged.getN (bs.drop (ptr + w1)) (((min (bs.length - ptr) int32Max : Nat) : Int) - (w1 : Int)) with
        | fault => exact absurd hg2 hnf2
        | short =>
          rw [hg2] at h
          simp only [R.ok.injEq] at h
          simp only [true_or, if_true]
          exact ⟨ptr, by rw [← h]; rfl⟩
        | ok v w2 =>
          rw [hg2] at h
          simp only [] at h ⊢
          obtain ⟨hw2a, hw2b, hw2c⟩ := getN_ok_bounds _ _ _ _ hg2
          by_cases hz : runLen = 0
          · rw [if_pos hz] at h
            simp only [R.ok.injEq] at h
            have : (w2 = 0) ∨ ((some runLen).getD 0 = 0) := Or.inr (by simp [hz])
            rw [if_pos this]
            exact ⟨ptr, by rw [← h]; rfl⟩
          · rw [if_neg hz] at h
            have : ¬ ((w2 = 0) ∨ ((some runLen).getD 0 = 0)) := by simp [hz]; omega
            rw [if_neg this]
            have hmn := Nat.min_le_left (bs.length - ptr) int32Max
            have e6 : (runs + 1) % 2 ^ 64 = runs + 1 := Nat.mod_eq_of_lt (by omega)
            have e7 : (w1 + w2) % 2 ^ 64 = w1 + w2 := Nat.mod_eq_of_lt (by omega)
            simp only [e6, e7]
            have hd : (bs.drop ptr).drop (w1 + w2) = bs.drop (ptr + (w1 + w2)) := by rw [List.drop_drop]
            have hrem : bs.length - ptr - (w1 + w2) = bs.length - (ptr + (w1 + w2)) := by omega
            rw [hd, hrem] at h
            cases hrec : runCountAux mf (bs.drop (ptr + (w1 + w2))) (bs.length - (ptr + (w1 + w2))) with
            | fault => rw [hrec] at h; simp at h
            | err => rw [hrec] at h; simp at h
            | ok r' =>
              rw [hrec] at h
              simp only [R.ok.injEq] at h
              obtain ⟨p', hp'⟩ := ih fuel (ptr + (w1 + w2)) (runs + 1) r' (by omega) (by omega) (by omega) (by omega) hrec
              exact ⟨p', by rw [hp', ← h]; congr 2; omega⟩

open Varint.Bounded in
/-- **`varintRLEGetRunCount(src, encodedSize)`** on ANY bytes (hostile, truncated, corrupt): the C returns what the
    bounded model returns — and that model provably never loads a byte at or beyond `encodedSize`
    (`Props.C14.rle_count_reads_lt_n`) — for every fuel above the input length: it terminates -/
theorem rleGetRunCount_eq (bs : List Nat) (hb : ∀ b ∈ bs, b < 256) (hlen : bs.length < 2 ^ 63) (fuel : Nat)
    (hf : bs.length < fuel) (r : Nat) (h : Bounded.runCount bs = R.ok r) :
    rleGetRunCount fuel (Bridge.Tagged.bufOf bs) bs.length = some r := by
  unfold rleGetRunCount
  simp only []
  have h' : runCountAux (bs.length + 1) (bs.drop 0) (bs.length - 0) = .ok r := by simpa [Bounded.runCount] using h
  obtain ⟨p', hp'⟩ := runCount_loop bs hb hlen (bs.length + 1) fuel 0 0 r (by omega) (by omega) (by omega) (by omega) h'
  rw [hp']
  simp


/-! ### varintRLEEncodeWithHeader -/

/-- **`varintRLEEncodeWithHeader`**: the tagged count, then the body, at consecutive indices; the struct's
    encodedSize is overwritten with the total -/
theorem rleEncodeWithHeader_eq (xs : List Nat) (hx : ∀ x ∈ xs, x < 2 ^ 64) (hn : xs.length < 2 ^ 60) (given : Bool)
    (fuel : Nat) (hf : xs.length + 2 ≤ fuel) :
    rleEncodeWithHeader fuel (Bridge.Tagged.bufOf xs) xs.length given =
      some ((RLE.encH xs).length,
            if given then some (RLE.encH xs).length else none,
            if given then some xs.length else none,
            if given then some (RLE.runCount xs) else none,
            if given then some 0 else none,
            storesFrom 0 (RLE.encH xs)) := by
  unfold rleEncodeWithHeader
  rw [rleEncode_eq xs hx hn given fuel hf, taggedPut64_stores xs.length (by omega)]
  simp only [shiftW_storesFrom, Nat.add_zero]
  have hb := RLE.enc_le xs
  have hl := Tagged.len_bounds xs.length
  have hlen : ((((((Tagged.enc xs.length).length + (RLE.enc xs).length : Nat) : Int) - ((0 : Nat) : Int))) %
      (2 ^ 64 : Int)).toNat = (Tagged.enc xs.length).length + (RLE.enc xs).length := by
    rw [Tagged.enc_length]; omega
  simp only [hlen]
  cases given <;> simp [RLE.encH, storesFrom_append]


/-- **`varintRLESize(values, n)`** (analysis into a local struct, then its `encodedSize`) = the model's size -/
theorem rleSize_eq (xs : List Nat) (hx : ∀ x ∈ xs, x < 2 ^ 64) (hn : xs.length < 2 ^ 59)
    (fuel : Nat) (hf : xs.length + 1 ≤ fuel) :
    rleSize fuel (Bridge.Tagged.bufOf xs) xs.length = some (RLE.size xs) := by
  unfold rleSize
  rw [rleAnalyze_eq xs hx hn fuel hf]
  rfl

/-- **`varintRLEIsBeneficial(values, n)`**: true exactly when the encoding is smaller than the raw 8·n bytes -/
theorem rleIsBeneficial_eq (xs : List Nat) (hx : ∀ x ∈ xs, x < 2 ^ 64) (hn : xs.length < 2 ^ 59)
    (fuel : Nat) (hf : xs.length + 1 ≤ fuel) :
    rleIsBeneficial fuel (Bridge.Tagged.bufOf xs) xs.length =
      some (if xs ≠ [] ∧ RLE.size xs < 8 * xs.length then 1 else 0) := by
  unfold rleIsBeneficial
  rw [rleAnalyze_eq xs hx hn fuel hf]
  simp only []
  split <;> simp

end Varint.Bridge.RLE
