import Varint.Gen.C32
import Varint.Model.Chained
import Varint.Model.Tagged
import Varint.Bridge.Loop
import Varint.Bridge.Tagged
import Varint.Bridge.CSimple
/-
  Bridge: the 32-bit convenience forms — varintTaggedPutVarint32 / varintTaggedGetVarint32 (src/varintTagged.c) and
  varintChainedSimpleEncode32 (unrolled 1–5 bytes) / varintChainedSimpleDecode32Fallback (src/varintChainedSimple.c) —
  translated from the CURRENT source, equal the 64-bit functions on 32-bit values / the model's `enc32`, `dec32`.
-/
namespace Varint.Bridge.W32
open Varint Varint.Gen.C Varint.Bridge

/-- `varintTaggedPutVarint32(p, v)` is `varintTaggedPut64(p, v)` -/
theorem taggedPutVarint32_eq (v : Nat) : taggedPutVarint32 v = taggedPut64 v := by
  unfold taggedPutVarint32; rfl

/-- `varintTaggedGetVarint32` = the 64-bit reader, value cut to 32 bits (nothing read = 0 stored) -/
theorem taggedGetVarint32_eq (z : Nat → Nat) :
    taggedGetVarint32 z = ((taggedGet z 9).1, some (((taggedGet z 9).2).getD 0 % 2 ^ 32)) := by
  unfold taggedGetVarint32; rfl

set_option maxRecDepth 8000 in
theorem or128_byte : ∀ y, y < 256 → y ||| 128 = y % 128 + 128 := by decide

theorem or128 (x : Nat) : (x ||| 128) % 2 ^ 8 = x % 128 + 128 := by
  rw [Nat.or_mod_two_pow]
  have h : (128 : Nat) % 2 ^ 8 = 128 := by decide
  rw [h, or128_byte _ (Nat.mod_lt _ (by omega))]
  omega

/-- **`varintChainedSimpleEncode32(p, v)`** for every 32-bit value: returns the number of bytes and stores the model's
    `enc32 v` at p[0 …] -/
theorem csEncode32_eq (v : Nat) (hv : v < 2 ^ 32) :
    csEncode32 v = ((ChainedSimple.enc32 v).length, storesFrom 0 (ChainedSimple.enc32 v)) := by
  unfold csEncode32 ChainedSimple.enc32
  simp only [or128]
  by_cases c1 : v < 128
  · have e : v % 2 ^ 8 = v := by omega
    simp [c1, e, storesFrom]
  · by_cases c2 : v < 16384
    · have e : v / 2 ^ 7 % 2 ^ 8 = v / 2 ^ 7 := by omega
      simp [c1, c2, e, storesFrom]
    · by_cases c3 : v < 2097152
      · have e : v / 2 ^ 14 % 2 ^ 8 = v / 2 ^ 14 := by omega
        simp [c1, c2, c3, e, storesFrom]
      · by_cases c4 : v < 268435456
        · have e : v / 2 ^ 21 % 2 ^ 8 = v / 2 ^ 21 := by omega
          simp [c1, c2, c3, c4, e, storesFrom]
        · have e : v / 2 ^ 28 % 2 ^ 8 = v / 2 ^ 28 := by omega
          simp [c1, c2, c3, c4, e, storesFrom]

/-- **`varintChainedSimpleDecode32Fallback`** = the 64-bit decoder, value cut to 32 bits = the model's `dec32` -/
theorem csDecode32Fallback_eq (bs : List Nat) (fuel val n : Nat) (hb : ∀ b ∈ bs, b < 256) (hf : 10 ≤ fuel)
    (h : ChainedSimple.dec32 bs = some (val, n)) :
    csDecode32Fallback fuel (Bridge.Tagged.bufOf bs) = some (n, some val) := by
  unfold ChainedSimple.dec32 at h
  cases hd : ChainedSimple.dec bs with
  | none => rw [hd] at h; simp at h
  | some r =>
    obtain ⟨v64, l⟩ := r
    rw [hd] at h
    simp only [Option.map_some, Option.some.injEq, Prod.mk.injEq] at h
    obtain ⟨rfl, rfl⟩ := h
    unfold csDecode32Fallback
    rw [CSimple.csDecode64_eq bs fuel v64 l hb hf hd]
    rfl

end Varint.Bridge.W32
