import Varint.Bridge.Adaptive
import Varint.Lemmas.Adaptive
import Varint.Model.Adaptive
import Varint.Lemmas.Delta
import Varint.Lemmas.FOR
import Varint.Lemmas.Tagged
/-
  C06 — adaptive encoding is lossless whatever it selects.
  Proved here: the header byte, the selector's BITMAP domain (for EVERY outcome of its float
  comparisons), and losslessness of the DELTA, FOR and TAGGED arms for arrays of every length.
  The PFOR, DICT and BITMAP arms are modelled and tied to the code by the correspondence (their
  codecs do not have a round-trip theorem yet): see obligations.json / not_yet_proved.
-/
namespace Varint.Props.C06
open Varint Varint.Adaptive

/-- the first output byte names the encoding, for forced and for automatic selection -/
theorem adaptive_header_tag (t : Nat) (xs : List Nat) :
    (encodeWith t xs).head? = some t ∧ (encode xs).head? = some (select xs) := by
  simp [encodeWith, encode]

/-- the selector returns one of the six encodings -/
theorem adaptive_select_range (φ : FloatPreds) (s : Stats) : selectWith φ s ≤ 5 := by
  unfold selectWith
  repeat' split
  all_goals simp [TAGGED, DICT, BITMAP, DELTA, PFOR_, FOR_]

/-- BITMAP is selected only for ascending input whose unique count equals its length, below 65536,
    with fewer than 10000 elements (so the unique count is exact, not sampled) — whatever the
    floating-point comparisons evaluate to -/
theorem select_bitmap_domain (φ : FloatPreds) (s : Stats) (h : selectWith φ s = BITMAP) :
    s.isSorted = true ∧ s.uniqueCount = s.count ∧ s.fitsInBitmapRange = true ∧ s.count < 10000 := by
  unfold selectWith at h
  split at h
  · simp [TAGGED, BITMAP] at h
  · split at h
    · simp [DICT, BITMAP] at h
    · split at h
      · rename_i hb
        exact ⟨hb.2.1, hb.2.2.1, hb.1, hb.2.2.2.2.1⟩
      · split at h
        · simp [DELTA, BITMAP] at h
        · split at h
          · simp [PFOR_, BITMAP] at h
          · split at h
            · simp [FOR_, BITMAP] at h
            · simp [TAGGED, BITMAP] at h

theorem changes_lt_length : ∀ (xs : List Nat), xs ≠ [] → changes xs + 1 ≤ xs.length
  | [], h => absurd rfl h
  | [_], _ => by simp [changes]
  | a :: b :: rest, _ => by
    have := changes_lt_length (b :: rest) (by simp)
    simp only [changes, List.length_cons] at *
    split <;> omega

/-- ascending with as many neighbour changes as possible = strictly ascending -/
theorem asc_all_changes_strict : ∀ (xs : List Nat), isAsc xs = true → 1 + changes xs = xs.length →
    isStrictAsc xs = true
  | [], _, _ => rfl
  | [_], _, _ => rfl
  | a :: b :: rest, hasc, hch => by
    simp only [isAsc, Bool.and_eq_true, decide_eq_true_eq] at hasc
    have hle := changes_lt_length (b :: rest) (by simp)
    simp only [changes, List.length_cons] at hch hle
    by_cases hab : a = b
    · rw [if_neg (by simpa using hab)] at hch; omega
    · rw [if_pos hab] at hch
      simp only [isStrictAsc, Bool.and_eq_true, decide_eq_true_eq]
      refine ⟨by omega, asc_all_changes_strict (b :: rest) hasc.2 ?_⟩
      simp only [List.length_cons]; omega

/-- stated on the input list itself: whatever the float comparisons say, automatic selection picks BITMAP
    only for a strictly increasing sequence of fewer than 10000 values, all below 65536 — the documented
    domain of the bitmap encoding, on which it is lossless. The uniqueness test cannot be fooled by sampling
    or by a failed allocation: for sorted input the count is exact. -/
theorem select_bitmap_input (φ : FloatPreds) (xs : List Nat) (h : selectWith φ (analyze xs) = BITMAP) :
    isStrictAsc xs = true ∧ (∀ x ∈ xs, x < 65536) ∧ xs.length < 10000 := by
  obtain ⟨hs, hu, hf, hc⟩ := select_bitmap_domain φ _ h
  simp only [analyze] at hs hu hf hc
  have hne : xs ≠ [] := by
    intro he; subst he
    simp [selectWith, analyze, TAGGED, BITMAP] at h
  refine ⟨?_, ?_, hc⟩
  · apply asc_all_changes_strict xs hs
    unfold uniqueOf at hu
    rw [if_neg hne, hs] at hu
    simpa using hu
  · intro x hx
    have := FOR.le_maxL xs x hx
    have hm : FOR.maxL xs < 65536 := by simpa using hf
    omega

theorem decTagged_enc (xs : List Nat) (hx : ∀ x ∈ xs, x < 2 ^ 64) (rest : List Nat) :
    decTagged xs.length (xs.flatMap Tagged.enc ++ rest) = some xs := by
  induction xs with
  | nil => rfl
  | cons x xs ih =>
    rw [List.flatMap_cons, List.append_assoc, List.length_cons, decTagged, Tagged.get_enc x (hx x (by simp))]
    simp only []
    rw [List.drop_left, ih (fun y hy => hx y (by simp [hy]))]
    rfl

/-- forced DELTA / FOR / TAGGED: decoding with the original count returns the original sequence
    (same order, same duplicates, same length), whatever follows the encoded bytes -/
theorem adaptive_forced_roundtrip (xs : List Nat) (g : FOR.Good xs) (rest : List Nat) :
    decode (encodeWith DELTA xs ++ rest) xs.length = some xs ∧
    decode (encodeWith FOR_ xs ++ rest) xs.length = some xs ∧
    decode (encodeWith TAGGED xs ++ rest) xs.length = some xs := by
  refine ⟨?_, ?_, ?_⟩
  · simp only [encodeWith, decode, DELTA, List.cons_append, if_true]
    rw [Delta.decU_encU xs g.lt rest]; rfl
  · simp only [encodeWith, decode, FOR_, DELTA, List.cons_append]
    simp only [show ¬ (1 = 0) by omega, if_false, if_true]
    rw [FOR.dec_enc xs g xs.length (Nat.le_refl _) rest]
  · simp only [encodeWith, decode, TAGGED, DELTA, FOR_, PFOR_, DICT, BITMAP, List.cons_append]
    simp only [show ¬ (5 = 0) by omega, show ¬ (5 = 1) by omega, show ¬ (5 = 2) by omega,
      show ¬ (5 = 3) by omega, show ¬ (5 = 4) by omega, if_false, if_true]
    exact decTagged_enc xs g.lt rest

/-- automatic selection: lossless whenever the analysis picks DELTA, FOR or TAGGED -/
theorem adaptive_roundtrip_partial (xs : List Nat) (g : FOR.Good xs) (rest : List Nat)
    (hsel : select xs = DELTA ∨ select xs = FOR_ ∨ select xs = TAGGED) :
    decode (encode xs ++ rest) xs.length = some xs := by
  obtain ⟨h1, h2, h3⟩ := adaptive_forced_roundtrip xs g rest
  unfold encode
  rcases hsel with h | h | h <;> rw [h] <;> assumption

/-- non-vacuity -/


example : decode (encodeWith TAGGED [7, 2 ^ 64 - 1, 0]) 3 = some [7, 2 ^ 64 - 1, 0] := by decide


/-! ## every arm: `decodeAll` is the model of varintAdaptiveDecode for all six encodings (compared with the C on
    every adaptive op of the correspondence) -/

/-- MAIN: whichever encoding the analysis selects — for EVERY outcome of the selector's floating-point
    comparisons — decoding with the original count returns the original sequence; trailing bytes are
    irrelevant. `hacc`: the dictionary encoder refuses more than 2^20 distinct values (the encoder then
    reports failure); it cannot be triggered up to 2^20 elements (`adaptive_roundtrip_upto_2_20`). -/
theorem adaptive_roundtrip (φ : FloatPreds) (xs : List Nat) (hne : xs ≠ []) (hx : ∀ x ∈ xs, x < 2 ^ 64)
    (hn : xs.length < 2 ^ 32) (hacc : selectWith φ (analyze xs) = DICT → Dict.enc xs ≠ []) (rest : List Nat) :
    decodeAll (encodeWith (selectWith φ (analyze xs)) xs ++ rest) xs.length = some xs :=
  adaptive_roundtrip_sel φ xs hne hx hn hacc rest

theorem adaptive_roundtrip_upto_2_20 (φ : FloatPreds) (xs : List Nat) (hne : xs ≠ []) (hx : ∀ x ∈ xs, x < 2 ^ 64)
    (hn : xs.length ≤ 1048576) (rest : List Nat) :
    decodeAll (encodeWith (selectWith φ (analyze xs)) xs ++ rest) xs.length = some xs :=
  adaptive_roundtrip_small φ xs hne hx hn rest

/-- forcing an encoding inside its documented domain is lossless: PFOR and DICT for any accepted array,
    BITMAP for strictly increasing values below 65536 (any capacity: a smaller one yields the prefix) -/
theorem adaptive_forced_all (xs : List Nat) (hne : xs ≠ []) (hx : ∀ x ∈ xs, x < 2 ^ 64) (hn : xs.length < 2 ^ 32)
    (rest : List Nat) :
    decodeAll (encodeWith PFOR_ xs ++ rest) xs.length = some xs ∧
    (Dict.enc xs ≠ [] → decodeAll (encodeWith DICT xs ++ rest) xs.length = some xs) ∧
    (isStrictAsc xs = true → (∀ x ∈ xs, x < 65536) →
      ∀ cap, decodeAll (encodeWith BITMAP xs ++ rest) cap = some (xs.take cap)) ∧
    decodeAll (encodeWith DELTA xs ++ rest) xs.length = some xs ∧
    decodeAll (encodeWith FOR_ xs ++ rest) xs.length = some xs ∧
    decodeAll (encodeWith TAGGED xs ++ rest) xs.length = some xs :=
  ⟨pfor_forced xs ⟨hne, hn, hx⟩ rest, fun h => dict_forced xs hx hn h rest,
   fun ha hl cap => bitmap_forced_cap xs ha hl rest cap, delta_forced xs hx rest,
   for_forced xs ⟨hne, hx, by omega⟩ rest, tagged_forced TAGGED (by simp [TAGGED]) xs hx (by omega) rest⟩

/-- **on the machine translation of `varintAdaptiveCheckSorted`** (the loop with its early exit, regenerated from
    src/varintAdaptive.c on every run): the answer the selector's `isSorted` / `isReverseSorted` flags are derived from
    is exact for every array — 1 iff non-decreasing, else -1 iff non-increasing, else 0: no neighbour pair is skipped
    (the BITMAP arm, which stores a set, is only sound for input that really is ascending) -/
theorem c_check_sorted_exact (xs : List Nat) (hn : xs.length < 2 ^ 63) (fuel : Nat) (hf : xs.length ≤ fuel) :
    Varint.Gen.C.adaptiveCheckSorted fuel (Varint.Bridge.Tagged.bufOf xs) xs.length =
      some (if (Adaptive.analyze xs).isSorted then 1 else if (Adaptive.analyze xs).isReverseSorted then -1 else 0) := by
  rw [Varint.Bridge.Adaptive.adaptiveCheckSorted_eq xs hn fuel hf]
  unfold Adaptive.analyze
  simp only []
  cases Adaptive.isAsc xs <;> cases Adaptive.isDesc xs <;> rfl

end Varint.Props.C06
