import Varint.Lemmas.Tagged
import Varint.Lemmas.External
import Varint.Lemmas.Chained
import Varint.Lemmas.Split
/-
  C01 — scalar varints round-trip every value with agreeing, bounded lengths.
  Property theorems only; helper lemmas live in Varint/Lemmas.
-/
namespace Varint.Props.C01
open Varint

/-! ## tagged -/

/-- decode (encode v ++ anything) = (v, bytes written) for every 64-bit value -/
theorem tagged_roundtrip (v : Nat) (hv : v < 2 ^ 64) (rest : List Nat) :
    Tagged.get (Tagged.enc v ++ rest) = .ok v (Tagged.enc v).length :=
  Tagged.get_enc v hv rest

/-- bytes written = predicted length = length read from the first byte = quick-macro length,
    and the decoder's length (previous theorem) is the same number -/
theorem tagged_len_agree (v : Nat) (hv : v < 2 ^ 64) :
    (Tagged.enc v).length = Tagged.len v ∧
    Tagged.getLen ((Tagged.enc v).headD 0) = Tagged.len v ∧
    Tagged.lenQuick v = Tagged.len v :=
  ⟨Tagged.enc_length v, Tagged.getLen_head v hv, Tagged.lenQuick_eq v⟩

theorem tagged_len_bounds (v : Nat) : 1 ≤ Tagged.len v ∧ Tagged.len v ≤ 9 := Tagged.len_bounds v

theorem tagged_bytes_lt_256 (v : Nat) (hv : v < 2 ^ 64) : ∀ b ∈ Tagged.enc v, b < 256 := Tagged.enc_lt v hv

/-- legal fixed widths of the tagged family: the minimal width, or any width 4..9 not below it
    (widths 2 and 3 are offset encodings and cannot hold smaller values) -/
def taggedFixedLegal (v w : Nat) : Prop := w = Tagged.len v ∨ (4 ≤ w ∧ w ≤ 9 ∧ Tagged.len v ≤ w)

theorem tagged_fixed_roundtrip (v w : Nat) (hv : v < 2 ^ 64) (hw : taggedFixedLegal v w) (rest : List Nat) :
    Tagged.get (Tagged.encFixed v w ++ rest) = .ok v w := by
  rcases hw with h | ⟨h4, h9, hl⟩
  · subst h
    rw [Tagged.encFixed_len v hv, Tagged.get_enc v hv rest, Tagged.enc_length]
  · exact Tagged.get_encFixed_wide v w hv h4 h9 hl rest

/-- widths 2/3 really are illegal for smaller values: the code does not round-trip there -/
example : Tagged.get (Tagged.encFixed 5 2) ≠ .ok 5 2 := by decide

/-- quick macro forms = function forms -/
theorem tagged_quick_eq (v : Nat) (hv : v < 2 ^ 64) (rest : List Nat) :
    Tagged.getQuick (Tagged.enc v ++ rest) = some v ∧ Tagged.lenQuick v = Tagged.len v :=
  ⟨Tagged.getQuick_enc v hv rest, Tagged.lenQuick_eq v⟩

/-- non-vacuity: a 9-byte value meets the hypotheses and the statement is about real bytes -/
example : Tagged.enc (2 ^ 64 - 1) = [255, 255, 255, 255, 255, 255, 255, 255, 255] := by decide
example : Tagged.get (Tagged.enc 67824 ++ [7]) = .ok 67824 4 := by decide

/-- the 32-bit tagged entry points are the 64-bit ones on a 32-bit value (the harness checks the
    truncating read-back `*pResult = (uint32_t)iRes`) -/
theorem tagged32_roundtrip (v : Nat) (hv : v < 2 ^ 32) (rest : List Nat) :
    Tagged.get (Tagged.enc v ++ rest) = .ok v (Tagged.enc v).length ∧ v % 2 ^ 32 = v :=
  ⟨Tagged.get_enc v (by omega) rest, Nat.mod_eq_of_lt hv⟩

/-! ## external (little and big endian): width is carried outside the bytes -/

theorem ext_roundtrip (v : Nat) (rest : List Nat) :
    External.get (External.enc v ++ rest) (External.enc v).length = some v := by
  rw [External.enc_length]; exact External.get_enc v rest

theorem ext_len_bounds (v : Nat) (hv : v < 2 ^ 64) :
    (External.enc v).length = extLen v ∧ 1 ≤ extLen v ∧ extLen v ≤ 8 :=
  ⟨External.enc_length v, External.len_bounds v hv⟩

theorem ext_bytes_lt_256 (v : Nat) : ∀ b ∈ External.enc v, b < 256 := External.enc_lt v

/-- every fixed width not below the minimal width round-trips; the minimal one is the plain encoding -/
theorem ext_fixed_roundtrip (v w : Nat) (hw : extLen v ≤ w) (rest : List Nat) :
    External.get (External.encFixed v w ++ rest) w = some v ∧ (External.encFixed v w).length = w ∧
    External.encFixed v (extLen v) = External.enc v :=
  ⟨External.get_encFixed v w hw rest, by simp [External.encFixed], rfl⟩

theorem extbe_roundtrip (v : Nat) (rest : List Nat) :
    ExternalBE.get (ExternalBE.enc v ++ rest) (ExternalBE.enc v).length = some v := by
  rw [ExternalBE.enc_length]; exact ExternalBE.get_enc v rest

theorem extbe_len_bounds (v : Nat) (hv : v < 2 ^ 64) :
    (ExternalBE.enc v).length = extLen v ∧ 1 ≤ extLen v ∧ extLen v ≤ 8 :=
  ⟨ExternalBE.enc_length v, External.len_bounds v hv⟩

theorem extbe_bytes_lt_256 (v : Nat) : ∀ b ∈ ExternalBE.enc v, b < 256 := ExternalBE.enc_lt v

theorem extbe_fixed_roundtrip (v w : Nat) (hw : extLen v ≤ w) (rest : List Nat) :
    ExternalBE.get (ExternalBE.encFixed v w ++ rest) w = some v ∧ (ExternalBE.encFixed v w).length = w :=
  ⟨ExternalBE.get_encFixed v w hw rest, by simp [ExternalBE.encFixed]⟩

/-- signed-storage helpers: every value representable (sign + magnitude) in the 24/40/48/56-bit field
    is restored, and the prepared value fits the field -/
theorem signed_roundtrip (w : Nat) (hw : w = 3 ∨ w = 5 ∨ w = 6 ∨ w = 7) (s : Int)
    (hlo : -(2 ^ (8 * w - 1) : Int) < s) (hhi : s < (2 ^ (8 * w - 1) : Int)) :
    External.restoreSigned w (External.prepareSigned w s) = s ∧ External.prepareSigned w s < 256 ^ w :=
  External.restore_prepare w (by omega) s hlo hhi

example : External.restoreSigned 5 (External.prepareSigned 5 (-5)) = -5 := by decide

/-! ## chained (sqlite3) and chained-simple (LEB128, 9-byte cap) -/

theorem chained_roundtrip (v : Nat) (hv : v < 2 ^ 64) (rest : List Nat) :
    Chained.dec (Chained.enc v ++ rest) = some (v, (Chained.enc v).length) := Chained.dec_enc v hv rest

theorem chained_len_agree (v : Nat) (hv : v < 2 ^ 64) :
    (Chained.enc v).length = Chained.len v ∧ 1 ≤ Chained.len v ∧ Chained.len v ≤ 9 :=
  ⟨Chained.enc_length v hv, Chained.len_bounds v⟩

theorem chained_bytes_lt_256 (v : Nat) : ∀ b ∈ Chained.enc v, b < 256 := Chained.enc_lt v

/-- 32-bit reader: exact for 32-bit values (it saturates above, which the property excludes) -/
theorem chained32_roundtrip (v : Nat) (hv : v < 2 ^ 32) (rest : List Nat) :
    Chained.dec32 (Chained.enc v ++ rest) = some (v, (Chained.enc v).length) := by
  unfold Chained.dec32
  rw [Chained.dec_enc v (by omega) rest]
  have : ¬ v ≥ 2 ^ 32 := by omega
  simp [this]

theorem csimple_roundtrip (v : Nat) (hv : v < 2 ^ 64) (rest : List Nat) :
    ChainedSimple.dec (ChainedSimple.enc v ++ rest) = some (v, (ChainedSimple.enc v).length) :=
  ChainedSimple.dec_enc v hv rest

theorem csimple_len_agree (v : Nat) :
    (ChainedSimple.enc v).length = ChainedSimple.len v ∧ 1 ≤ ChainedSimple.len v ∧ ChainedSimple.len v ≤ 9 :=
  ⟨ChainedSimple.enc_length v, ChainedSimple.len_bounds v⟩

theorem csimple_bytes_lt_256 (v : Nat) : ∀ b ∈ ChainedSimple.enc v, b < 256 := ChainedSimple.enc_lt v

/-- the unrolled 32-bit encoder writes the same bytes; the 32-bit decoder truncates a value that fits -/
theorem csimple32_roundtrip (v : Nat) (hv : v < 2 ^ 32) (rest : List Nat) :
    ChainedSimple.enc32 v = ChainedSimple.enc v ∧
    ChainedSimple.dec32 (ChainedSimple.enc32 v ++ rest) = some (v, (ChainedSimple.enc32 v).length) := by
  refine ⟨ChainedSimple.enc32_eq v hv, ?_⟩
  unfold ChainedSimple.dec32
  rw [ChainedSimple.enc32_eq v hv, ChainedSimple.dec_enc v (by omega) rest]
  simp [Nat.mod_eq_of_lt hv]

/-! ## the four split families (forward and reversed layouts) -/

theorem split_roundtrip (v : Nat) (hv : v < 2 ^ 64) (rest : List Nat) :
    Split.S.dec (Split.S.enc v ++ rest) = some (v, (Split.S.enc v).length) := Split.S.dec_enc v hv rest
theorem split_len_agree (v : Nat) (hv : v < 2 ^ 64) :
    (Split.S.enc v).length = Split.S.len v ∧ Split.S.getLen ((Split.S.enc v).headD 0) = Split.S.len v ∧
    Split.S.getLenQuick ((Split.S.enc v).headD 0) = Split.S.len v ∧ 1 ≤ Split.S.len v ∧ Split.S.len v ≤ 9 :=
  ⟨Split.S.enc_length v, (Split.S.getLen_head v hv).1, (Split.S.getLen_head v hv).2, Split.S.len_bounds v hv⟩
theorem split_bytes_lt_256 (v : Nat) (hv : v < 2 ^ 64) : ∀ b ∈ Split.S.enc v, b < 256 := Split.S.enc_lt v hv
/-- reversed layout (type byte last, payload at lower addresses), with anything before it -/
theorem split_rev_roundtrip (v : Nat) (hv : v < 2 ^ 64) (pre : List Nat) :
    Split.S.decRev (pre ++ Split.S.encRev v) = some (v, Split.S.len v) ∧ (Split.S.encRev v).length = Split.S.len v :=
  ⟨Split.S.decRev_encRev v hv pre, Split.S.encRev_length v⟩

theorem sfull_roundtrip (v : Nat) (hv : v < 2 ^ 64) (rest : List Nat) :
    Split.F.dec (Split.F.enc v ++ rest) = some (v, (Split.F.enc v).length) := Split.F.dec_enc v hv rest
theorem sfull_len_agree (v : Nat) (hv : v < 2 ^ 64) :
    (Split.F.enc v).length = Split.F.len v ∧ Split.F.getLen ((Split.F.enc v).headD 0) = Split.F.len v ∧
    Split.F.getLenQuick ((Split.F.enc v).headD 0) = Split.F.len v ∧ 1 ≤ Split.F.len v ∧ Split.F.len v ≤ 9 :=
  ⟨Split.F.enc_length v, (Split.F.getLen_head v hv).1, (Split.F.getLen_head v hv).2, Split.F.len_bounds v hv⟩
theorem sfull_bytes_lt_256 (v : Nat) (hv : v < 2 ^ 64) : ∀ b ∈ Split.F.enc v, b < 256 := Split.F.enc_lt v hv
theorem sfull_rev_roundtrip (v : Nat) (hv : v < 2 ^ 64) (pre : List Nat) :
    Split.F.decRev (pre ++ Split.F.encRev v) = some (v, Split.F.len v) ∧ (Split.F.encRev v).length = Split.F.len v :=
  ⟨Split.F.decRev_encRev v hv pre, Split.F.encRev_length v⟩

/-- no-zero family: every non-zero value -/
theorem snz_roundtrip (v : Nat) (hv : v < 2 ^ 64) (hz : 1 ≤ v) (rest : List Nat) :
    Split.NZ.dec (Split.NZ.enc v ++ rest) = some (v, (Split.NZ.enc v).length) := Split.NZ.dec_enc v hv hz rest
theorem snz_len_agree (v : Nat) (hv : v < 2 ^ 64) (hz : 1 ≤ v) :
    (Split.NZ.enc v).length = Split.NZ.len v ∧ Split.NZ.getLen ((Split.NZ.enc v).headD 0) = Split.NZ.len v ∧
    Split.NZ.getLenQuick ((Split.NZ.enc v).headD 0) = Split.NZ.len v ∧ 1 ≤ Split.NZ.len v ∧ Split.NZ.len v ≤ 9 :=
  ⟨Split.NZ.enc_length v, (Split.NZ.getLen_head v hv hz).1, (Split.NZ.getLen_head v hv hz).2, Split.NZ.len_bounds v hv⟩
theorem snz_bytes_lt_256 (v : Nat) (hv : v < 2 ^ 64) : ∀ b ∈ Split.NZ.enc v, b < 256 := Split.NZ.enc_lt v hv
theorem snz_rev_roundtrip (v : Nat) (hv : v < 2 ^ 64) (hz : 1 ≤ v) (pre : List Nat) :
    Split.NZ.decRev (pre ++ Split.NZ.encRev v) = some (v, Split.NZ.len v) ∧ (Split.NZ.encRev v).length = Split.NZ.len v :=
  ⟨Split.NZ.decRev_encRev v hv hz pre, Split.NZ.encRev_length v⟩

/-- split-full-16: 2 to 9 bytes -/
theorem s16_roundtrip (v : Nat) (hv : v < 2 ^ 64) (rest : List Nat) :
    Split.S16.dec (Split.S16.enc v ++ rest) = some (v, (Split.S16.enc v).length) := Split.S16.dec_enc v hv rest
theorem s16_len_agree (v : Nat) (hv : v < 2 ^ 64) :
    (Split.S16.enc v).length = Split.S16.len v ∧ Split.S16.getLen ((Split.S16.enc v).headD 0) = Split.S16.len v ∧
    Split.S16.getLenQuick ((Split.S16.enc v).headD 0) = Split.S16.len v ∧ 2 ≤ Split.S16.len v ∧ Split.S16.len v ≤ 9 :=
  ⟨Split.S16.enc_length v, (Split.S16.getLen_head v hv).1, (Split.S16.getLen_head v hv).2, Split.S16.len_bounds v hv⟩
theorem s16_bytes_lt_256 (v : Nat) (hv : v < 2 ^ 64) : ∀ b ∈ Split.S16.enc v, b < 256 := Split.S16.enc_lt v hv

/-- non-vacuity: concrete values from every level of every family -/
example : Split.S.dec (Split.S.enc 16447 ++ [9]) = some (16447, 2) := by decide
example : Split.F.enc 4210750 = [194, 1, 0] := by decide
example : Split.NZ.dec (Split.NZ.enc 1) = some (1, 1) := by decide
example : Split.S16.enc 1077952510 = [196, 1, 0, 0, 0] := by decide
example : Chained.enc (2 ^ 56) = [128, 192, 128, 128, 128, 128, 128, 128, 0] := by decide

end Varint.Props.C01
