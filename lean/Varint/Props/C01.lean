import Varint.Lemmas.Tagged
/-
  C01 — scalar varints round-trip every value with agreeing, bounded lengths.
  Property theorems only; helper lemmas live in Varint/Lemmas.
-/
namespace Varint.Props.C01
open Varint

/-! ## tagged -/

/-- decode (encode v ++ anything) = (v, bytes written) for every 64-bit value -/
theorem tagged_roundtrip (v : Nat) (hv : v < 2 ^ 64) (rest : List Nat) :
    Tagged.get (Tagged.enc v ++ rest) = .ok v (Tagged.enc v).length :=
  Tagged.get_enc v hv rest

/-- bytes written = predicted length = length read from the first byte = quick-macro length,
    and the decoder's length (previous theorem) is the same number -/
theorem tagged_len_agree (v : Nat) (hv : v < 2 ^ 64) :
    (Tagged.enc v).length = Tagged.len v ∧
    Tagged.getLen ((Tagged.enc v).headD 0) = Tagged.len v ∧
    Tagged.lenQuick v = Tagged.len v :=
  ⟨Tagged.enc_length v, Tagged.getLen_head v hv, Tagged.lenQuick_eq v⟩

theorem tagged_len_bounds (v : Nat) : 1 ≤ Tagged.len v ∧ Tagged.len v ≤ 9 := Tagged.len_bounds v

theorem tagged_bytes_lt_256 (v : Nat) (hv : v < 2 ^ 64) : ∀ b ∈ Tagged.enc v, b < 256 := Tagged.enc_lt v hv

/-- legal fixed widths of the tagged family: the minimal width, or any width 4..9 not below it
    (widths 2 and 3 are offset encodings and cannot hold smaller values) -/
def taggedFixedLegal (v w : Nat) : Prop := w = Tagged.len v ∨ (4 ≤ w ∧ w ≤ 9 ∧ Tagged.len v ≤ w)

theorem tagged_fixed_roundtrip (v w : Nat) (hv : v < 2 ^ 64) (hw : taggedFixedLegal v w) (rest : List Nat) :
    Tagged.get (Tagged.encFixed v w ++ rest) = .ok v w := by
  rcases hw with h | ⟨h4, h9, hl⟩
  · subst h
    rw [Tagged.encFixed_len v hv, Tagged.get_enc v hv rest, Tagged.enc_length]
  · exact Tagged.get_encFixed_wide v w hv h4 h9 hl rest

/-- widths 2/3 really are illegal for smaller values: the code does not round-trip there -/
example : Tagged.get (Tagged.encFixed 5 2) ≠ .ok 5 2 := by decide

/-- quick macro forms = function forms -/
theorem tagged_quick_eq (v : Nat) (hv : v < 2 ^ 64) (rest : List Nat) :
    Tagged.getQuick (Tagged.enc v ++ rest) = some v ∧ Tagged.lenQuick v = Tagged.len v :=
  ⟨Tagged.getQuick_enc v hv rest, Tagged.lenQuick_eq v⟩

/-- non-vacuity: a 9-byte value meets the hypotheses and the statement is about real bytes -/
example : Tagged.enc (2 ^ 64 - 1) = [255, 255, 255, 255, 255, 255, 255, 255, 255] := by decide
example : Tagged.get (Tagged.enc 67824 ++ [7]) = .ok 67824 4 := by decide

end Varint.Props.C01
