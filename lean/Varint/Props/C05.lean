import Varint.Bridge.Tagged
import Varint.Bridge.TaggedQ
import Varint.Lemmas.Lex
/-
  C05 — tagged varints sort bytewise (memcmp) in numeric order; prefix-free, so tuples sort too.
  `lexCmp` is the model of memcmp over the common length followed by the length comparison.
-/
namespace Varint.Props.C05
open Varint

/-- for all pairs of 64-bit values the byte order of the encodings is the numeric order,
    and equal values have identical bytes -/
theorem tagged_lex_eq_compare (a b : Nat) (ha : a < 2 ^ 64) (hb : b < 2 ^ 64) :
    lexCmp (Tagged.enc a) (Tagged.enc b) = compare a b := by
  rcases Nat.lt_trichotomy a b with h | h | h
  · have := Tagged.enc_lt_of_lt hb h [] []
    simp only [List.append_nil] at this
    rw [this, Nat.compare_eq_lt.mpr h]
  · subst h; rw [lexCmp_self, Nat.compare_eq_eq.mpr rfl]
  · have := Tagged.enc_lt_of_lt ha h [] []
    simp only [List.append_nil] at this
    rw [(lexCmp_swap _ _).mp this, Nat.compare_eq_gt.mpr h]

/-- prefix-freeness: the order is decided inside the common prefix, whatever follows each encoding;
    in particular no encoding is a proper prefix of another value's encoding -/
theorem tagged_prefix_free (a b : Nat) (ha : a < 2 ^ 64) (hb : b < 2 ^ 64) (A B : List Nat)
    (h : Tagged.enc a ++ A = Tagged.enc b ++ B) : a = b := by
  rcases Nat.lt_trichotomy a b with hlt | heq | hgt
  · have h1 := Tagged.enc_lt_of_lt hb hlt A B
    rw [h, lexCmp_self] at h1; cases h1
  · exact heq
  · have h1 := Tagged.enc_lt_of_lt ha hgt B A
    rw [h, lexCmp_self] at h1; cases h1

/-- composite keys: concatenated tagged varints of two tuples compare as the tuples compare
    (lexicographically by value, a proper prefix tuple first), for tuples of any arity -/
theorem tagged_tuple_order (as bs : List Nat) (ha : ∀ a ∈ as, a < 2 ^ 64) (hb : ∀ b ∈ bs, b < 2 ^ 64) :
    lexCmp (as.flatMap Tagged.enc) (bs.flatMap Tagged.enc) = lexCmp as bs := by
  induction as generalizing bs with
  | nil =>
    cases bs with
    | nil => rfl
    | cons b bs =>
      simp only [List.flatMap_nil, List.flatMap_cons]
      cases he : Tagged.enc b with
      | nil => exact absurd he (Tagged.enc_ne_nil b)
      | cons x xs => simp [lexCmp]
  | cons a as ih =>
    cases bs with
    | nil =>
      simp only [List.flatMap_nil, List.flatMap_cons]
      cases he : Tagged.enc a with
      | nil => exact absurd he (Tagged.enc_ne_nil a)
      | cons x xs => simp [lexCmp]
    | cons b bs =>
      have ha0 := ha a (by simp)
      have hb0 := hb b (by simp)
      simp only [List.flatMap_cons]
      rcases Nat.lt_trichotomy a b with h | h | h
      · rw [Tagged.enc_lt_of_lt hb0 h, lexCmp_cons_lt h]
      · subst h
        rw [lexCmp_append_same, lexCmp_cons_same]
        exact ih bs (fun x hx => ha x (by simp [hx])) (fun x hx => hb x (by simp [hx]))
      · rw [(lexCmp_swap _ _).mp (Tagged.enc_lt_of_lt ha0 h _ _), lexCmp_cons_gt h]

/-- non-vacuity: adjacent values across a length boundary, and a pair differing in one payload byte -/
example : lexCmp (Tagged.enc 240) (Tagged.enc 241) = .lt := by decide
example : lexCmp (Tagged.enc 0x1ffffffff) (Tagged.enc 0x200000000) = .lt := by decide
example : lexCmp ([5, 67824].flatMap Tagged.enc) ([5, 67823].flatMap Tagged.enc) = .gt := by decide


/-- the same for the bytes the C stores (translation regenerated from src/varintTagged.c on every run):
    memcmp order of two varintTaggedPut64 outputs = numeric order -/
theorem c_tagged_lex_eq_compare (a b : Nat) (ha : a < 2 ^ 64) (hb : b < 2 ^ 64) :
    lexCmp ((Varint.Gen.C.taggedPut64 a).2.map Prod.snd) ((Varint.Gen.C.taggedPut64 b).2.map Prod.snd) = compare a b := by
  rw [(Varint.Bridge.Tagged.taggedPut64_eq a ha).2.1, (Varint.Bridge.Tagged.taggedPut64_eq b hb).2.1]
  exact tagged_lex_eq_compare a b ha hb

/-- **keys built with the public inline encoder** (`varintTaggedLenQuick` + `varintTaggedPut64FixedWidthQuick_`, both
    expanded from the CURRENT header with an argument of low operator precedence, `lo | hi`) are byte for byte the keys
    `varintTaggedPut64` builds — so they sort numerically as well (`c_tagged_lex_eq_compare`). A macro parameter used
    without parentheses breaks `taggedPutFixedQuick_eq`. -/
theorem c_tagged_quick_keys (lo hi : Nat) (h : lo ||| hi < 2 ^ 64) :
    Varint.Gen.C.taggedLenQuick (lo ||| hi) = Tagged.len (lo ||| hi) ∧
    (Varint.Gen.C.taggedPutFixedQuick lo hi (Varint.Gen.C.taggedLenQuick (lo ||| hi))).map Prod.snd =
      Tagged.enc (lo ||| hi) ∧
    (Varint.Gen.C.taggedPutFixedQuick lo hi (Varint.Gen.C.taggedLenQuick (lo ||| hi))).map Prod.fst =
      List.range (Tagged.len (lo ||| hi)) := by
  have hl := Varint.Bridge.TaggedQ.taggedLenQuick_eq (lo ||| hi) h
  have hf := Varint.Bridge.Tagged.taggedPut64FixedWidth_eq (lo ||| hi) (Tagged.len (lo ||| hi)) h
  rw [hl, Varint.Bridge.TaggedQ.taggedPutFixedQuick_eq, Tagged.encFixed_len _ h] at *
  refine ⟨rfl, hf.1, ?_⟩
  rw [hf.2.2, Tagged.enc_length]

end Varint.Props.C05
