import Varint.Lemmas.Delta
import Varint.Lemmas.RLE
import Varint.Lemmas.FOR
/-
  C03 — encoders never write more than their advertised size.
  The model's encoders return exactly the bytes written, so "extent ≤ bound" is a statement about
  list lengths; the harness checks the same against a canary placed at the advertised size.
-/
namespace Varint.Props.C03
open Varint

theorem deltaU_extent_le_max (xs : List Nat) (hx : ∀ x ∈ xs, x < 2 ^ 64) :
    (Delta.encU xs).length ≤ Delta.maxSize xs.length := Delta.encU_length_le xs hx

theorem delta_extent_le_max (xs : List Nat) (hx : ∀ x ∈ xs, x < 2 ^ 64) :
    (Delta.encS xs).length ≤ Delta.maxSize xs.length := Delta.encS_length_le xs hx

/-- run-length: the size predictor is exact and both formats stay inside varintRLEMaxSize -/
theorem rle_size_exact (xs : List Nat) : (RLE.enc xs).length = RLE.size xs := RLE.enc_length xs

theorem rle_extent_le_max (xs : List Nat) :
    (RLE.enc xs).length ≤ RLE.maxSize xs.length ∧ (RLE.encH xs).length ≤ RLE.maxSize xs.length := by
  have h := RLE.enc_le xs
  have hl := Tagged.len_bounds xs.length
  unfold RLE.maxSize RLE.encH
  rw [List.length_append, Tagged.enc_length]
  omega

/-- frame-of-reference: the size function is exact -/
theorem for_size_exact (xs : List Nat) :
    (FOR.enc xs).length = (FOR.analyze xs).encodedSize ∧
    (FOR.analyze xs).encodedSize = FOR.size (FOR.analyze xs).minValue xs.length (FOR.analyze xs).offsetWidth := by
  exact ⟨FOR.enc_length xs, rfl⟩

example : (RLE.encH [2 ^ 64 - 1]).length = 11 ∧ RLE.maxSize 1 = 19 := by decide

end Varint.Props.C03
