import Varint.Bridge.Elias
import Varint.Bridge.PFOR
import Varint.Bridge.Group
import Varint.Bridge.Delta
import Varint.Bridge.RLE
import Varint.Lemmas.Adaptive
import Varint.Bridge.Sizes
import Varint.Lemmas.FloatDec
import Varint.Lemmas.BP128
import Varint.Lemmas.Dict
import Varint.Lemmas.Elias
import Varint.Lemmas.PFOR
import Varint.Lemmas.Group
import Varint.Lemmas.Delta
import Varint.Lemmas.RLE
import Varint.Lemmas.FOR
/-
  C03 — encoders never write more than their advertised size.
  The model's encoders return exactly the bytes written, so "extent ≤ bound" is a statement about
  list lengths; the harness checks the same against a canary placed at the advertised size.
-/
namespace Varint.Props.C03
open Varint

theorem deltaU_extent_le_max (xs : List Nat) (hx : ∀ x ∈ xs, x < 2 ^ 64) :
    (Delta.encU xs).length ≤ Delta.maxSize xs.length := Delta.encU_length_le xs hx

theorem delta_extent_le_max (xs : List Nat) (hx : ∀ x ∈ xs, x < 2 ^ 64) :
    (Delta.encS xs).length ≤ Delta.maxSize xs.length := Delta.encS_length_le xs hx

/-- run-length: the size predictor is exact and both formats stay inside varintRLEMaxSize -/
theorem rle_size_exact (xs : List Nat) : (RLE.enc xs).length = RLE.size xs := RLE.enc_length xs

theorem rle_extent_le_max (xs : List Nat) :
    (RLE.enc xs).length ≤ RLE.maxSize xs.length ∧ (RLE.encH xs).length ≤ RLE.maxSize xs.length := by
  have h := RLE.enc_le xs
  have hl := Tagged.len_bounds xs.length
  unfold RLE.maxSize RLE.encH
  rw [List.length_append, Tagged.enc_length]
  omega

/-- frame-of-reference: the size function is exact -/
theorem for_size_exact (xs : List Nat) :
    (FOR.enc xs).length = (FOR.analyze xs).encodedSize ∧
    (FOR.analyze xs).encodedSize = FOR.size (FOR.analyze xs).minValue xs.length (FOR.analyze xs).offsetWidth := by
  exact ⟨FOR.enc_length xs, rfl⟩


/-- group: the size predictor is exact, and bounded by 1 + 16 + 8·fields -/
theorem group_size_exact (xs : List Nat) (h : Group.Ok xs) :
    (Group.enc xs).length = Group.size xs ∧ Group.size xs ≤ 1 + 16 + 8 * xs.length :=
  ⟨Group.enc_length xs h, Group.size_le xs h⟩


/-- PFOR: the size predictor is an upper bound of the bytes written (exact without exceptions) -/
theorem pfor_extent_le_size (xs : List Nat) (g : PFOR.Good xs) (t : Nat) :
    (PFOR.enc xs t).length ≤ PFOR.size (PFOR.compute xs t) ∧
    ((PFOR.compute xs t).exceptionCount = 0 → (PFOR.enc xs t).length = PFOR.size (PFOR.compute xs t)) :=
  ⟨PFOR.enc_length_le_size xs g t, PFOR.enc_length_eq_size_of_no_exc xs t⟩


/-- Elias: the bytes written stay inside varintEliasGammaMaxBytes / DeltaMaxBytes; code lengths are the
    documented 2⌊log2 v⌋+1 and ≤ 127 / ≤ 76 bits -/
theorem elias_extent_le_max (xs : List Nat) (h : Elias.Pos64 xs) :
    (Elias.encGamma xs).length ≤ Elias.gammaMaxBytes xs.length ∧
    (Elias.encDelta xs).length ≤ Elias.deltaMaxBytes xs.length :=
  ⟨Elias.encGamma_length_le xs h, Elias.encDelta_length_le xs h⟩

theorem elias_code_lengths (v : Nat) (h1 : 1 ≤ v) (h64 : v < 2 ^ 64) :
    (Elias.gamma v).length = Elias.gammaBits v ∧ (Elias.delta v).length = Elias.deltaBits v ∧
    Elias.gammaBits v ≤ 127 ∧ Elias.deltaBits v ≤ 76 :=
  ⟨Elias.gamma_length v, Elias.delta_length v, Elias.gammaBits_le v h1 h64, Elias.deltaBits_le v h1 h64⟩


/-- dictionary: the size predictor is exact (and 0 exactly when the encoder refuses) -/
theorem dict_size_exact (xs : List Nat) :
    (Dict.enc xs ≠ [] → (Dict.enc xs).length = Dict.size xs) ∧ (Dict.size xs = 0 ↔ Dict.enc xs = []) :=
  ⟨Dict.enc_length xs, Dict.size_eq_zero_iff xs⟩


/-- BP128: all four encoders stay inside varintBP128MaxBytes -/
theorem bp128_extent_le_max (xs : List Nat) (h : ∀ x ∈ xs, x < 2 ^ 64) :
    (BP128.enc32 xs).length ≤ BP128.maxBytes xs.length ∧ (BP128.enc64 xs).length ≤ BP128.maxBytes xs.length ∧
    (BP128.encD 32 xs).length ≤ BP128.maxBytes xs.length ∧ (BP128.encD 64 xs).length ≤ BP128.maxBytes xs.length :=
  ⟨BP128.enc32_length_le64 xs h, BP128.enc64_length_le xs h, BP128.encD32_length_le xs, BP128.encD64_length_le xs⟩


/-- float: the encoder stays inside varintFloatMaxEncodedSize — every precision byte, mode and array -/
theorem float_extent_le_max (p mode : Nat) (ds : List Nat) :
    (Float.enc p mode ds).length ≤ Float.maxSize ds.length p :=
  Float.enc_length_le p mode ds


/-! ## the advertised sizes are the C's own functions: `Varint.Gen.C.*` is regenerated from the current
    headers by tools/c2lean.py on every run; below 2^56 elements (no size_t wrap) they are the model's
    formulas, so every bound above is a bound by what the C function returns. -/

theorem c_sizing_functions (n : Nat) (h : n < 2 ^ 56) :
    Varint.Gen.C.rleMaxSize n = RLE.maxSize n ∧
    Varint.Gen.C.bp128MaxBytes n = BP128.maxBytes n ∧
    Varint.Gen.C.eliasGammaMaxBytes n = Elias.gammaMaxBytes n ∧
    Varint.Gen.C.eliasDeltaMaxBytes n = Elias.deltaMaxBytes n ∧
    Varint.Gen.C.deltaMaxEncodedSize n = Delta.maxSize n ∧
    Varint.Gen.C.adaptiveMaxSize n = Adaptive.maxSize n ∧
    (∀ p, Varint.Gen.C.floatMaxEncodedSize n p = Float.maxSize n p) ∧
    (n < 256 → Varint.Gen.C.groupBitmapSize n = Group.bitmapSize n) :=
  ⟨Varint.Bridge.Sizes.rleMaxSize_eq n (by omega), Varint.Bridge.Sizes.bp128MaxBytes_eq n (by omega),
   (Varint.Bridge.Sizes.eliasMaxBytes_eq n h).1, (Varint.Bridge.Sizes.eliasMaxBytes_eq n h).2,
   Varint.Bridge.Sizes.deltaMaxEncodedSize_eq n (by omega), Varint.Bridge.Sizes.adaptiveMaxSize_eq n (by omega),
   fun p => Varint.Bridge.Sizes.floatMaxEncodedSize_eq n p h, fun h8 => Varint.Bridge.Sizes.groupBitmapSize_eq n h8⟩

/-- varintFORSize of the C (fields of the metadata struct as arguments) is the model's size formula -/
theorem c_for_size (mn cnt w : Nat) (hmn : mn < 2 ^ 64) (hc : cnt < 2 ^ 56) (hw : w ≤ 8) :
    Varint.Gen.C.forSize mn cnt w = FOR.size mn cnt w :=
  Varint.Bridge.Sizes.forSize_eq mn cnt w hmn hc hw

/-- run-length stated against the C's function: the encoder's output never exceeds varintRLEMaxSize(count) -/
theorem c_rle_extent_le_max (xs : List Nat) (h : xs.length < 2 ^ 56) :
    (RLE.enc xs).length ≤ Varint.Gen.C.rleMaxSize xs.length ∧ (RLE.encH xs).length ≤ Varint.Gen.C.rleMaxSize xs.length := by
  rw [Varint.Bridge.Sizes.rleMaxSize_eq _ (by omega)]
  exact rle_extent_le_max xs


/-- **on the machine translation of src/varintRLE.c (loops included, regenerated every run)**: the predictor
    `varintRLESize` (= the encodedSize `varintRLEAnalyze` reports) is EXACTLY what `varintRLEEncode` returns, the
    encoder stores only bytes 0 … size-1 of the destination (each once, in increasing order), and that size is within
    the C's own `varintRLEMaxSize(count)`: a destination of exactly the predicted size is never overflowed.
    For every array of 64-bit values below 2^56 elements and every fuel ≥ count + 2 (so: the loops terminate). -/
theorem c_rle_encoder_within_predicted_size (xs : List Nat) (hx : ∀ x ∈ xs, x < 2 ^ 64) (hn : xs.length < 2 ^ 56)
    (given : Bool) (fuel : Nat) (hf : xs.length + 2 ≤ fuel) :
    ∃ n stores size m1 m2 m3 m4 b mc mr mu,
      Varint.Gen.C.rleEncode fuel (Varint.Bridge.Tagged.bufOf xs) xs.length given = some (n, m1, m2, m3, m4, stores) ∧
      Varint.Gen.C.rleAnalyze fuel (Varint.Bridge.Tagged.bufOf xs) xs.length = some (b, mc, mr, some size, mu) ∧
      n = size ∧ stores.map Prod.fst = List.range' 0 size ∧ size ≤ Varint.Gen.C.rleMaxSize xs.length := by
  refine ⟨_, _, RLE.size xs, _, _, _, _, _, _, _, _,
    Varint.Bridge.RLE.rleEncode_eq xs hx (by omega) given fuel hf,
    Varint.Bridge.RLE.rleAnalyze_eq xs hx (by omega) fuel (by omega), RLE.enc_length xs, ?_, ?_⟩
  · rw [Varint.Bridge.storesFrom_fst, RLE.enc_length]
  · rw [← RLE.enc_length]; exact (c_rle_extent_le_max xs hn).1

/-- **on the machine translation of `varintDeltaEncodeUnsigned`**: the encoder stores only below the length it
    returns, and that length is within the C's own `varintDeltaMaxEncodedSize(count)` -/
theorem c_delta_unsigned_within_max (xs : List Nat) (hx : ∀ x ∈ xs, x < 2 ^ 64) (hn : xs.length < 2 ^ 56) (fuel : Nat)
    (hf : xs.length + 9 ≤ fuel) :
    ∃ n stores, Varint.Gen.C.deltaEncodeUnsigned fuel (Varint.Bridge.Tagged.bufOf xs) xs.length = some (n, stores) ∧
      (∀ p ∈ stores, p.1 < n) ∧ n ≤ Varint.Gen.C.deltaMaxEncodedSize xs.length := by
  obtain ⟨stores, h1, h2⟩ := Varint.Bridge.Delta.deltaEncodeUnsigned_eq xs hx (by omega) fuel hf
  refine ⟨_, stores, h1, h2.2.2.1, ?_⟩
  rw [Varint.Bridge.Sizes.deltaMaxEncodedSize_eq _ (by omega)]
  exact Delta.encU_length_le xs hx

/-- adaptive: whatever is selected (every outcome of the float comparisons) fits varintAdaptiveMaxSize(count) -/
theorem adaptive_extent_le_max (φ : Adaptive.FloatPreds) (xs : List Nat) (hne : xs ≠ []) (hx : ∀ x ∈ xs, x < 2 ^ 64)
    (hn : xs.length < 2 ^ 32) :
    (Adaptive.encodeWith (Adaptive.selectWith φ (Adaptive.analyze xs)) xs).length ≤ Adaptive.maxSize xs.length :=
  Adaptive.adaptive_size_sel φ xs hne hx hn

example : (RLE.encH [2 ^ 64 - 1]).length = 11 ∧ RLE.maxSize 1 = 19 := by decide


/-- **the group size predictor on the translated C** (`varintGroupSize`, machine-translated with its nested width loop):
    for 1..64 fields of 64-bit values it returns exactly the number of bytes of the encoding, which is at most
    1 + 16 + 8·n; for 0 or more than 64 fields it returns 0. Every fuel ≥ n + 9. -/
theorem c_group_size_exact (xs : List Nat) (hx : ∀ x ∈ xs, x < 2 ^ 64) (h256 : xs.length < 256) (fuel : Nat)
    (hf : xs.length + 9 ≤ fuel) :
    Varint.Gen.C.groupSize fuel (Varint.Bridge.Tagged.bufOf xs) xs.length = some (Group.size xs) ∧
    (Group.Ok xs → Group.size xs = (Group.enc xs).length ∧ Group.size xs ≤ 1 + 16 + 8 * xs.length) ∧
    ((xs.length = 0 ∨ xs.length > 64) → Group.size xs = 0) := by
  refine ⟨Varint.Bridge.Group.groupSize_eq xs hx h256 fuel hf, ?_, ?_⟩
  · intro h
    obtain ⟨a, b⟩ := group_size_exact xs h
    exact ⟨a.symm, b⟩
  · intro h
    unfold Group.size
    rw [if_pos h]


/-- **the PFOR size predictor on the translated C** (`varintPFORSize`, its per-exception loop machine-translated): for
    the analysis of any good array it returns the model's advertised size, which bounds the bytes the encoder writes (and
    is exact when there are no exceptions); `varintPFORCalculateMarker` returns the model's marker for every width. -/
theorem c_pfor_size_bounds (xs : List Nat) (g : PFOR.Good xs) (t : Nat) (fuel : Nat) (hf : xs.length < fuel) :
    Varint.Gen.C.pforSize fuel (PFOR.compute xs t).min (PFOR.compute xs t).count (PFOR.compute xs t).width
        (PFOR.compute xs t).exceptionCount = some (PFOR.size (PFOR.compute xs t)) ∧
    (PFOR.enc xs t).length ≤ PFOR.size (PFOR.compute xs t) ∧
    Varint.Gen.C.pforMarker (PFOR.compute xs t).width = (PFOR.compute xs t).marker := by
  have f := PFOR.compute_facts xs g t
  have hlen : xs.length < 2 ^ 32 := g.2.1
  have hmin : (PFOR.compute xs t).min < 2 ^ 64 := g.2.2 _ f.min_mem
  refine ⟨?_, (pfor_extent_le_size xs g t).1, ?_⟩
  · exact Varint.Bridge.PFOR.pforSize_eq _ hmin (by rw [f.count_eq]; exact hlen) f.width_le
      (by have := f.exc_le; omega) fuel (by have := f.exc_le; omega)
  · rw [Varint.Bridge.PFOR.pforMarker_eq _ (by have := f.width_le; omega), f.marker_eq]


/-- **the Elias code-length functions on the translated C** (`floorLog2`'s shift loop, `varintEliasGammaBits`,
    `varintEliasDeltaBits`): for every value 1 ≤ v < 2^64 they return exactly the number of bits of the model's gamma /
    delta code, at most 127 / 76 — the per-value constants behind `varintEliasGammaMaxBytes` / `DeltaMaxBytes`. Fuel ≥ 65. -/
theorem c_elias_code_lengths (v : Nat) (h1 : 1 ≤ v) (h64 : v < 2 ^ 64) (fuel : Nat) (hf : 65 ≤ fuel) :
    Varint.Gen.C.eliasGammaBits fuel v = some (Elias.gamma v).length ∧
    Varint.Gen.C.eliasDeltaBits fuel v = some (Elias.delta v).length ∧
    (Elias.gamma v).length ≤ 127 ∧ (Elias.delta v).length ≤ 76 := by
  obtain ⟨a, b, c, d⟩ := elias_code_lengths v h1 h64
  obtain ⟨g1, g2⟩ := Varint.Bridge.Elias.eliasBits_eq v fuel h64 hf
  rw [a, b]
  exact ⟨g1, g2, c, d⟩


/-- **`varintRLESize` / `varintRLEIsBeneficial` on the translated C**: the advertised size is exactly the number of bytes
    of the encoding (the same number `varintRLEEncode` returns and stores, see `c_rle_encoder_within_predicted_size`), and
    the "beneficial" answer is true exactly when that is below the raw 8·n bytes -/
theorem c_rle_size_exact (xs : List Nat) (hx : ∀ x ∈ xs, x < 2 ^ 64) (hn : xs.length < 2 ^ 56) (fuel : Nat)
    (hf : xs.length + 1 ≤ fuel) :
    Varint.Gen.C.rleSize fuel (Varint.Bridge.Tagged.bufOf xs) xs.length = some (RLE.enc xs).length ∧
    Varint.Gen.C.rleIsBeneficial fuel (Varint.Bridge.Tagged.bufOf xs) xs.length =
      some (if xs ≠ [] ∧ (RLE.enc xs).length < 8 * xs.length then 1 else 0) := by
  have hl : (RLE.enc xs).length = RLE.size xs := RLE.enc_length xs
  rw [hl]
  exact ⟨Varint.Bridge.RLE.rleSize_eq xs hx (by omega) fuel hf,
    Varint.Bridge.RLE.rleIsBeneficial_eq xs hx (by omega) fuel hf⟩

end Varint.Props.C03
