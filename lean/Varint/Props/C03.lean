import Varint.Lemmas.Dict
import Varint.Lemmas.Elias
import Varint.Lemmas.PFOR
import Varint.Lemmas.Group
import Varint.Lemmas.Delta
import Varint.Lemmas.RLE
import Varint.Lemmas.FOR
/-
  C03 — encoders never write more than their advertised size.
  The model's encoders return exactly the bytes written, so "extent ≤ bound" is a statement about
  list lengths; the harness checks the same against a canary placed at the advertised size.
-/
namespace Varint.Props.C03
open Varint

theorem deltaU_extent_le_max (xs : List Nat) (hx : ∀ x ∈ xs, x < 2 ^ 64) :
    (Delta.encU xs).length ≤ Delta.maxSize xs.length := Delta.encU_length_le xs hx

theorem delta_extent_le_max (xs : List Nat) (hx : ∀ x ∈ xs, x < 2 ^ 64) :
    (Delta.encS xs).length ≤ Delta.maxSize xs.length := Delta.encS_length_le xs hx

/-- run-length: the size predictor is exact and both formats stay inside varintRLEMaxSize -/
theorem rle_size_exact (xs : List Nat) : (RLE.enc xs).length = RLE.size xs := RLE.enc_length xs

theorem rle_extent_le_max (xs : List Nat) :
    (RLE.enc xs).length ≤ RLE.maxSize xs.length ∧ (RLE.encH xs).length ≤ RLE.maxSize xs.length := by
  have h := RLE.enc_le xs
  have hl := Tagged.len_bounds xs.length
  unfold RLE.maxSize RLE.encH
  rw [List.length_append, Tagged.enc_length]
  omega

/-- frame-of-reference: the size function is exact -/
theorem for_size_exact (xs : List Nat) :
    (FOR.enc xs).length = (FOR.analyze xs).encodedSize ∧
    (FOR.analyze xs).encodedSize = FOR.size (FOR.analyze xs).minValue xs.length (FOR.analyze xs).offsetWidth := by
  exact ⟨FOR.enc_length xs, rfl⟩


/-- group: the size predictor is exact, and bounded by 1 + 16 + 8·fields -/
theorem group_size_exact (xs : List Nat) (h : Group.Ok xs) :
    (Group.enc xs).length = Group.size xs ∧ Group.size xs ≤ 1 + 16 + 8 * xs.length :=
  ⟨Group.enc_length xs h, Group.size_le xs h⟩


/-- PFOR: the size predictor is an upper bound of the bytes written (exact without exceptions) -/
theorem pfor_extent_le_size (xs : List Nat) (g : PFOR.Good xs) (t : Nat) :
    (PFOR.enc xs t).length ≤ PFOR.size (PFOR.compute xs t) ∧
    ((PFOR.compute xs t).exceptionCount = 0 → (PFOR.enc xs t).length = PFOR.size (PFOR.compute xs t)) :=
  ⟨PFOR.enc_length_le_size xs g t, PFOR.enc_length_eq_size_of_no_exc xs t⟩


/-- Elias: the bytes written stay inside varintEliasGammaMaxBytes / DeltaMaxBytes; code lengths are the
    documented 2⌊log2 v⌋+1 and ≤ 127 / ≤ 76 bits -/
theorem elias_extent_le_max (xs : List Nat) (h : Elias.Pos64 xs) :
    (Elias.encGamma xs).length ≤ Elias.gammaMaxBytes xs.length ∧
    (Elias.encDelta xs).length ≤ Elias.deltaMaxBytes xs.length :=
  ⟨Elias.encGamma_length_le xs h, Elias.encDelta_length_le xs h⟩

theorem elias_code_lengths (v : Nat) (h1 : 1 ≤ v) (h64 : v < 2 ^ 64) :
    (Elias.gamma v).length = Elias.gammaBits v ∧ (Elias.delta v).length = Elias.deltaBits v ∧
    Elias.gammaBits v ≤ 127 ∧ Elias.deltaBits v ≤ 76 :=
  ⟨Elias.gamma_length v, Elias.delta_length v, Elias.gammaBits_le v h1 h64, Elias.deltaBits_le v h1 h64⟩


/-- dictionary: the size predictor is exact (and 0 exactly when the encoder refuses) -/
theorem dict_size_exact (xs : List Nat) :
    (Dict.enc xs ≠ [] → (Dict.enc xs).length = Dict.size xs) ∧ (Dict.size xs = 0 ↔ Dict.enc xs = []) :=
  ⟨Dict.enc_length xs, Dict.size_eq_zero_iff xs⟩

example : (RLE.encH [2 ^ 64 - 1]).length = 11 ∧ RLE.maxSize 1 = 19 := by decide

end Varint.Props.C03
