import Varint.Bridge.RLEDec
import Varint.Bridge.FORDec
import Varint.Bridge.Group
import Varint.Lemmas.Adaptive
import Varint.Lemmas.BP128
import Varint.Lemmas.Dict
import Varint.Lemmas.RLEH
import Varint.Lemmas.Group
import Varint.Lemmas.FOR
import Varint.Lemmas.RLE
import Varint.Props.C14
/-
  C13 — decoders never write beyond the caller's output capacity.
  A model decoder returns the list of values it stores (in order, from index 0), so "modifies at most
  `cap` elements" is `length ≤ cap` — for EVERY byte string, not only for valid encodings.
-/
namespace Varint.Props.C13
open Varint

theorem readOffsets_length (n mn w : Nat) (bs vs : List Nat) (h : FOR.readOffsets n mn w bs = some vs) :
    vs.length = n := by
  induction n generalizing bs vs with
  | zero => rw [FOR.readOffsets] at h; cases h; rfl
  | succ n ih =>
    rw [FOR.readOffsets] at h
    cases ht : takeExact w bs with
    | none => rw [ht] at h; cases h
    | some p =>
      rw [ht] at h
      simp only [] at h
      cases hr : FOR.readOffsets n mn w (bs.drop w) with
      | none => rw [hr] at h; cases h
      | some vs' => rw [hr] at h; cases h; rw [List.length_cons, ih _ _ hr]

/-- frame-of-reference, any bytes: either the documented failure or at most `cap` values -/
theorem for_trace_lt_cap (bs : List Nat) (cap : Nat) (vs : List Nat)
    (h : FOR.dec bs cap = some (some vs)) : vs.length ≤ cap := by
  unfold FOR.dec at h
  cases hh : FOR.readHdr bs with
  | none => rw [hh] at h; cases h
  | some hd =>
    rw [hh] at h
    simp only [] at h
    by_cases hc : hd.count > cap
    · rw [if_pos hc] at h; cases h
    · rw [if_neg hc] at h
      by_cases hw : hd.width < 1 ∨ hd.width > 8
      · rw [if_pos hw] at h
        by_cases h0 : hd.count = 0
        · rw [if_pos h0] at h; cases h; simp
        · rw [if_neg h0] at h; cases h
      · rw [if_neg hw] at h
        cases hr : FOR.readOffsets hd.count hd.minValue hd.width
            (bs.drop (Tagged.len hd.minValue + 1 + Tagged.len hd.count)) with
        | none => rw [hr] at h; cases h
        | some vs' =>
          rw [hr] at h
          cases h
          rw [readOffsets_length _ _ _ _ _ hr]
          omega

theorem for_prefix_or_fail (xs : List Nat) (g : FOR.Good xs) (cap : Nat) (rest : List Nat) :
    FOR.dec (FOR.enc xs ++ rest) cap = (if cap < xs.length then some none else some (some xs)) := by
  split
  · exact FOR.dec_enc_small xs g cap ‹_› rest
  · exact FOR.dec_enc xs g cap (by omega) rest

theorem rle_decAux_length (fuel room : Nat) (bs vs : List Nat) (h : RLE.decAux fuel room bs = some vs) :
    vs.length ≤ room := by
  induction fuel generalizing room bs vs with
  | zero => rw [RLE.decAux] at h; cases h; simp
  | succ f ih =>
    rw [RLE.decAux] at h
    by_cases hr0 : room = 0
    · rw [if_pos hr0] at h; cases h; simp
    · rw [if_neg hr0] at h
      cases hg : RLE.getRun bs with
      | none => rw [hg] at h; cases h
      | some t =>
        obtain ⟨l, v, rest⟩ := t
        rw [hg] at h
        simp only [] at h
        by_cases hl0 : l = 0
        · rw [if_pos hl0] at h; cases h; simp
        · rw [if_neg hl0] at h
          by_cases hge : l ≥ room
          · rw [if_pos hge] at h; cases h; simp
          · rw [if_neg hge] at h
            cases hr : RLE.decAux f (room - l) rest with
            | none => rw [hr] at h; cases h
            | some vs' =>
              rw [hr] at h
              cases h
              have := ih _ _ _ hr
              rw [List.length_append, List.length_replicate]
              omega

/-- run-length (headerless), any bytes: at most `cap` values are stored -/
theorem rle_trace_lt_cap (bs : List Nat) (cap : Nat) (vs : List Nat) (h : RLE.dec bs cap = some vs) :
    vs.length ≤ cap := rle_decAux_length _ _ _ _ h


/-- **on the machine translation of `varintRLEDecode`** (outer loop over runs + inner fill loop, regenerated from
    src/varintRLE.c on every run): for ANY readable byte string — run lengths above the capacity, equal to the room
    left, up to 2^64-1 (where `decoded + runLength` wraps in size_t: defect D40, repaired) — and every capacity below
    2^63 the C stores only at indices 0 … n-1 with n ≤ maxCount, each once and in order, and returns n.
    A smaller capacity than the data yields the correct prefix. -/
theorem c_rle_decode_within_capacity (bs : List Nat) (hb : ∀ b ∈ bs, b < 256) (cap : Nat) (hcap : cap < 2 ^ 63)
    (vs : List Nat) (h : RLE.dec bs cap = some vs) (fuel : Nat) (hf : 2 * cap + 2 ≤ fuel) :
    ∃ n stores, Varint.Gen.C.rleDecode fuel (Varint.Bridge.Tagged.bufOf bs) cap = some (n, stores) ∧ n ≤ cap ∧
      stores.map Prod.fst = List.range' 0 n ∧ stores.map Prod.snd = vs := by
  refine ⟨vs.length, Varint.Bridge.storesFrom 0 vs, Varint.Bridge.RLEDec.rleDecode_eq bs hb cap hcap vs h fuel hf,
    rle_trace_lt_cap bs cap vs h, Varint.Bridge.storesFrom_fst 0 vs, Varint.Bridge.storesFrom_snd 0 vs⟩

theorem c_rle_decode_prefix (xs : List Nat) (hx : ∀ x ∈ xs, x < 2 ^ 64) (cap : Nat) (hcap : cap ≤ xs.length)
    (hn : xs.length < 2 ^ 63) (rest : List Nat) (hr : ∀ b ∈ rest, b < 256) (fuel : Nat) (hf : 2 * cap + 2 ≤ fuel) :
    Varint.Gen.C.rleDecode fuel (Varint.Bridge.Tagged.bufOf (RLE.enc xs ++ rest)) cap =
      some (cap, Varint.Bridge.storesFrom 0 (xs.take cap)) := by
  have h := RLE.dec_enc_prefix xs hx (by omega) cap hcap rest
  have hb : ∀ b ∈ RLE.enc xs ++ rest, b < 256 := by
    intro b hbm
    rcases List.mem_append.1 hbm with h1 | h1
    · exact Varint.Bridge.RLEDec.enc_lt xs hx (by omega) b h1
    · exact hr b h1
  rw [Varint.Bridge.RLEDec.rleDecode_eq _ hb cap (by omega) _ h fuel hf]
  simp [List.length_take, Nat.min_eq_left hcap]

/-- group, any bytes: at most `maxFields` (and never more than 64) values are stored -/
theorem group_trace_lt_cap (bs : List Nat) (cap : Nat) (vs : List Nat) (n : Nat)
    (h : Group.dec bs cap = some (some (vs, n))) : vs.length ≤ cap ∧ vs.length ≤ 64 :=
  Group.dec_length_le_cap bs cap vs n h

/-- group: a capacity below the field count is the documented failure -/
theorem group_small_cap_fails (xs : List Nat) (h : Group.Ok xs) (cap : Nat) (hcap : cap < xs.length) (rest : List Nat) :
    Group.dec (Group.enc xs ++ rest) cap = some none :=
  Group.dec_enc_small xs h cap hcap rest

/-- run-length with header, any bytes: at most `cap` values -/
theorem rleh_trace_lt_cap (bs : List Nat) (cap : Nat) (vs : List Nat)
    (h : RLE.decH bs cap = some (some vs)) : vs.length ≤ cap :=
  RLE.decH_length_le_cap bs cap vs h

/-- run-length with header: a count above the capacity is the documented failure;
    headerless: a smaller capacity yields the correct prefix -/
theorem rle_prefix_or_fail (xs : List Nat) (hx : ∀ x ∈ xs, x < 2 ^ 64) (hn : xs.length < 2 ^ 64) (cap : Nat) (rest : List Nat) :
    (cap < xs.length → RLE.decH (RLE.encH xs ++ rest) cap = some none) ∧
    (cap ≤ xs.length → RLE.dec (RLE.enc xs ++ rest) cap = some (xs.take cap)) :=
  ⟨fun hc => RLE.decH_encH_small xs hn cap hc rest, fun hc => RLE.dec_enc_prefix xs hx hn cap hc rest⟩


/-- dictionary DecodeInto on the codec-level model, any bytes: at most `maxValues`; and a capacity below
    the stored count is the documented failure -/
theorem dict_dec_trace_lt_cap (bs : List Nat) (c : Nat) (vs : List Nat) (h : Dict.dec bs (some c) = some vs) :
    vs.length ≤ c := Dict.dec_length_le_cap bs c vs h

theorem dict_small_cap_fails (xs : List Nat) (hx : ∀ x ∈ xs, x < 2 ^ 64) (hn : xs.length < 2 ^ 64)
    (h : Dict.enc xs ≠ []) (rest : List Nat) (cap : Nat) (hc : cap < xs.length) :
    Dict.dec (Dict.enc xs ++ rest) (some cap) = none :=
  Dict.dec_enc_small_cap xs hx hn h rest cap hc


/-- BP128, all four decoders, any bytes: at most `maxCount` values are stored -/
theorem bp128_trace_lt_cap (bs : List Nat) (cap : Nat) (vs : List Nat) :
    (BP128.dec32 bs cap = some vs → vs.length ≤ cap) ∧ (BP128.dec64 bs cap = some vs → vs.length ≤ cap) ∧
    (BP128.decD32 bs cap = some vs → vs.length ≤ cap) ∧ (BP128.decD64 bs cap = some vs → vs.length ≤ cap) :=
  ⟨BP128.dec32_cap bs cap vs, BP128.dec64_cap bs cap vs, BP128.decD32_cap bs cap vs, BP128.decD64_cap bs cap vs⟩


/-- adaptive decoder, all six arms, ANY bytes: at most `maxCount` values are stored -/
theorem adaptive_trace_lt_cap (bs : List Nat) (cap : Nat) (vs : List Nat)
    (h : Adaptive.decodeAll bs cap = some vs) : vs.length ≤ cap :=
  Adaptive.decodeAll_length_le_cap bs cap vs h

/-- dictionary (DecodeInto), any bytes: at most `maxValues` values are stored (shared with C14) -/
theorem dict_trace_lt_cap (bs : List Nat) (c : Nat) (vs : List Nat)
    (h : (Bounded.dictDec bs (some c)).1 = .ok vs) : vs.length ≤ c :=
  Varint.Props.C14.dict_out_le_cap bs c vs h

/-- Elias gamma / delta array decoders, any bytes and any declared bit count: at most `maxCount` values -/
theorem elias_trace_lt_cap (bytes : List Nat) (srcBits cap : Nat) (vs : List Nat) :
    (Elias.decGamma bytes srcBits cap = some vs → vs.length ≤ cap) ∧
    (Elias.decDelta bytes srcBits cap = some vs → vs.length ≤ cap) :=
  Varint.Props.C14.elias_out_le_cap bytes srcBits cap vs


/-- **`varintFORDecode` on the translated C never writes beyond the caller's capacity**: for ANY byte buffer whose
    header the model can read and any capacity, either the declared count exceeds the capacity and the C returns 0 without
    a single store, or it stores exactly values[0 … n-1] with n = the declared count ≤ maxCount — every store index is below
    maxCount -/
theorem c_for_decode_bounded (bs : List Nat) (hb : ∀ b ∈ bs, b < 256) (cap fuel : Nat) (h : FOR.Hdr)
    (hh : FOR.readHdr bs = some h) (hf : h.count < fuel) :
    (FOR.dec bs cap = some none → Varint.Gen.C.forDecode fuel (Varint.Bridge.Tagged.bufOf bs) cap = some (0, [])) ∧
    (∀ vs, FOR.dec bs cap = some (some vs) →
      ∃ st, Varint.Gen.C.forDecode fuel (Varint.Bridge.Tagged.bufOf bs) cap = some (vs.length, st) ∧
        st = Varint.Bridge.storesFrom 0 vs ∧ ∀ p ∈ st, p.1 < cap) := by
  obtain ⟨h1, h2⟩ := Varint.Bridge.FORDec.forDecode_eq bs hb cap fuel h hh hf
  refine ⟨h1, ?_⟩
  intro vs hd
  obtain ⟨e, _, hle⟩ := h2 vs hd
  refine ⟨_, e, rfl, ?_⟩
  intro p hp
  have hfst : p.1 ∈ (Varint.Bridge.storesFrom 0 vs).map Prod.fst := List.mem_map_of_mem hp
  rw [Varint.Bridge.storesFrom_fst] at hfst
  have := List.mem_range'_1.mp hfst
  omega


/-- **`varintGroupDecode` on the translated C never writes beyond `maxFields`**: for ANY byte buffer the model reads
    inside of and any capacity, either the field count is 0, above 64 or above the capacity and the C returns 0 without a
    single store (not even `*fieldCount`), or it stores exactly values[0 … n-1] with n ≤ maxFields -/
theorem c_group_decode_bounded (bs : List Nat) (hb : ∀ b ∈ bs, b < 256) (h64 : bs.length < 2 ^ 64) (cap fuel : Nat)
    (hf : 64 < fuel) :
    (Group.dec bs cap = some none →
      Varint.Gen.C.groupDecode fuel (Varint.Bridge.Tagged.bufOf bs) cap = some (0, none, [])) ∧
    (∀ vs consumed, Group.dec bs cap = some (some (vs, consumed)) →
      ∃ st, Varint.Gen.C.groupDecode fuel (Varint.Bridge.Tagged.bufOf bs) cap = some (consumed, some vs.length, st) ∧
        st = Varint.Bridge.storesFrom 0 vs ∧ ∀ p ∈ st, p.1 < cap) := by
  obtain ⟨h1, h2⟩ := Varint.Bridge.Group.groupDecode_eq bs hb h64 cap fuel hf
  refine ⟨h1, ?_⟩
  intro vs consumed hd
  obtain ⟨e, hle⟩ := h2 vs consumed hd
  refine ⟨_, e, rfl, ?_⟩
  intro p hp
  have hfst : p.1 ∈ (Varint.Bridge.storesFrom 0 vs).map Prod.fst := List.mem_map_of_mem hp
  rw [Varint.Bridge.storesFrom_fst] at hfst
  have := List.mem_range'_1.mp hfst
  omega


/-- **`varintFORDecodeBlock` on the translated C never writes beyond `blockSize` elements**: for ANY byte buffer whose
    header and requested slice the model can read, the stores are exactly values[0 … n-1] with n ≤ blockSize -/
theorem c_for_block_bounded (bs : List Nat) (hb : ∀ b ∈ bs, b < 256) (start bsz fuel : Nat) (h : FOR.Hdr)
    (hh : FOR.readHdr bs = some h) (hsum : start + bsz < 2 ^ 64) (hsw : start * h.width < 2 ^ 64) (hf : bsz < fuel)
    (vs : List Nat) (hd : FOR.decBlock bs start bsz = some vs) :
    ∃ st, Varint.Gen.C.forDecodeBlock fuel (Varint.Bridge.Tagged.bufOf bs) start bsz = some (vs.length, st) ∧
      st = Varint.Bridge.storesFrom 0 vs ∧ ∀ p ∈ st, p.1 < bsz := by
  obtain ⟨e, hle⟩ := Varint.Bridge.FORDec.forDecodeBlock_eq bs hb start bsz fuel h hh hsum hsw hf vs hd
  refine ⟨_, e, rfl, ?_⟩
  intro p hp
  have hfst : p.1 ∈ (Varint.Bridge.storesFrom 0 vs).map Prod.fst := List.mem_map_of_mem hp
  rw [Varint.Bridge.storesFrom_fst] at hfst
  have := List.mem_range'_1.mp hfst
  omega

end Varint.Props.C13
