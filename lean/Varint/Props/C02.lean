import Varint.Lemmas.Delta
import Varint.Lemmas.RLE
import Varint.Lemmas.FOR
/-
  C02 — integer-array codecs are lossless, including random access.
  Every statement is for arrays of every length; `++ rest` says the decoder needs only the bytes the
  encoder reported (whatever follows them is irrelevant).
-/
namespace Varint.Props.C02
open Varint

/-- all elements are 64-bit values -/
def U64s (xs : List Nat) : Prop := ∀ x ∈ xs, x < 2 ^ 64

/-- unsigned delta: decode(count) ∘ encode = id, consuming exactly the bytes written -/
theorem deltaU_roundtrip (xs : List Nat) (hx : U64s xs) (rest : List Nat) :
    Delta.decU xs.length (Delta.encU xs ++ rest) = some (xs, (Delta.encU xs).length) :=
  Delta.decU_encU xs hx rest

/-- signed delta on two's-complement patterns (the C computes the same wrapped differences whenever
    they are representable, which is the documented domain) -/
theorem delta_roundtrip (xs : List Nat) (hx : U64s xs) (rest : List Nat) :
    Delta.decS xs.length (Delta.encS xs ++ rest) = some (xs, (Delta.encS xs).length) :=
  Delta.decS_encS xs hx rest

/-- zig-zag is a bijection on 64-bit patterns -/
theorem zigzag_roundtrip (x : Nat) (hx : x < 2 ^ 64) : Delta.unzz (Delta.zz x) = x ∧ Delta.zz x < 2 ^ 64 :=
  ⟨Delta.unzz_zz x hx, Delta.zz_lt x hx⟩

/-- frame-of-reference, plain/batch decoder (the batch entry points run the same scalar code in the
    pinned build), any capacity ≥ count -/
theorem for_roundtrip (xs : List Nat) (g : FOR.Good xs) (cap : Nat) (hcap : xs.length ≤ cap) (rest : List Nat) :
    FOR.dec (FOR.enc xs ++ rest) cap = some (some xs) :=
  FOR.dec_enc xs g cap hcap rest

/-- random access returns the element the full decoder returns -/
theorem for_getAt (xs : List Nat) (g : FOR.Good xs) (i : Nat) (hi : i < xs.length) (rest : List Nat) :
    FOR.getAt (FOR.enc xs ++ rest) i = some (xs.getD i 0) :=
  FOR.getAt_enc xs g i hi rest

/-- run-length (headerless): decoding with the original count -/
theorem rle_roundtrip (xs : List Nat) (hx : U64s xs) (hn : xs.length < 2 ^ 64) (rest : List Nat) :
    RLE.dec (RLE.enc xs ++ rest) xs.length = some xs :=
  RLE.dec_enc xs hx hn rest

/-- non-vacuity -/
example : FOR.Good [100, 200, 300] := ⟨by decide, by decide, by decide⟩
example : FOR.dec (FOR.enc [100, 200, 300, 100]) 4 = some (some [100, 200, 300, 100]) := by decide
example : (Delta.decU 3 (Delta.encU [5, 2 ^ 64 - 1, 0])).map (·.1) = some [5, 2 ^ 64 - 1, 0] := by decide
example : RLE.dec (RLE.enc [5, 5, 7, 7, 7, 9]) 6 = some [5, 5, 7, 7, 7, 9] := by decide

end Varint.Props.C02
