import Varint.Bridge.BP
import Varint.Bridge.Delta
import Varint.Bridge.RLEDec
import Varint.Bridge.FORDec
import Varint.Bridge.Group
import Varint.Bridge.RLE
import Varint.Bridge.Sizes
import Varint.Lemmas.BP128
import Varint.Lemmas.Dict
import Varint.Lemmas.Elias
import Varint.Lemmas.PFOR
import Varint.Lemmas.RLEH
import Varint.Lemmas.Group
import Varint.Lemmas.Delta
import Varint.Lemmas.RLE
import Varint.Lemmas.FOR
/-
  C02 — integer-array codecs are lossless, including random access.
  Every statement is for arrays of every length; `++ rest` says the decoder needs only the bytes the
  encoder reported (whatever follows them is irrelevant).
-/
namespace Varint.Props.C02
open Varint

/-- all elements are 64-bit values -/
def U64s (xs : List Nat) : Prop := ∀ x ∈ xs, x < 2 ^ 64

/-- unsigned delta: decode(count) ∘ encode = id, consuming exactly the bytes written -/
theorem deltaU_roundtrip (xs : List Nat) (hx : U64s xs) (rest : List Nat) :
    Delta.decU xs.length (Delta.encU xs ++ rest) = some (xs, (Delta.encU xs).length) :=
  Delta.decU_encU xs hx rest

/-- signed delta on two's-complement patterns (the C computes the same wrapped differences whenever
    they are representable, which is the documented domain) -/
theorem delta_roundtrip (xs : List Nat) (hx : U64s xs) (rest : List Nat) :
    Delta.decS xs.length (Delta.encS xs ++ rest) = some (xs, (Delta.encS xs).length) :=
  Delta.decS_encS xs hx rest

/-- zig-zag is a bijection on 64-bit patterns -/
theorem zigzag_roundtrip (x : Nat) (hx : x < 2 ^ 64) : Delta.unzz (Delta.zz x) = x ∧ Delta.zz x < 2 ^ 64 :=
  ⟨Delta.unzz_zz x hx, Delta.zz_lt x hx⟩

/-- frame-of-reference, plain/batch decoder (the batch entry points run the same scalar code in the
    pinned build), any capacity ≥ count -/
theorem for_roundtrip (xs : List Nat) (g : FOR.Good xs) (cap : Nat) (hcap : xs.length ≤ cap) (rest : List Nat) :
    FOR.dec (FOR.enc xs ++ rest) cap = some (some xs) :=
  FOR.dec_enc xs g cap hcap rest

/-- random access returns the element the full decoder returns -/
theorem for_getAt (xs : List Nat) (g : FOR.Good xs) (i : Nat) (hi : i < xs.length) (rest : List Nat) :
    FOR.getAt (FOR.enc xs ++ rest) i = some (xs.getD i 0) :=
  FOR.getAt_enc xs g i hi rest

/-- the block reader (`varintFORDecodeBlock`) returns exactly the requested slice: elements start … start+blockSize-1,
    cut at the end of the array, nothing when start is past the end -/
theorem for_block_roundtrip (xs : List Nat) (g : FOR.Good xs) (start blockSize : Nat) (rest : List Nat) :
    FOR.decBlock (FOR.enc xs ++ rest) start blockSize = some ((xs.drop start).take blockSize) :=
  FOR.decBlock_enc xs g start blockSize rest

/-- run-length (headerless): decoding with the original count -/
theorem rle_roundtrip (xs : List Nat) (hx : U64s xs) (hn : xs.length < 2 ^ 64) (rest : List Nat) :
    RLE.dec (RLE.enc xs ++ rest) xs.length = some xs :=
  RLE.dec_enc xs hx hn rest


/-- **on the machine translation of `varintRLEEncode`**: the bytes the C stores (in order, each once) are an encoding
    that the decoder given the original count turns back into the array, whatever follows them in memory -/
theorem c_rle_encode_roundtrip (xs : List Nat) (hx : U64s xs) (hn : xs.length < 2 ^ 60) (given : Bool) (fuel : Nat)
    (hf : xs.length + 2 ≤ fuel) (rest : List Nat) :
    ∃ n m1 m2 m3 m4 stores,
      Varint.Gen.C.rleEncode fuel (Varint.Bridge.Tagged.bufOf xs) xs.length given = some (n, m1, m2, m3, m4, stores) ∧
      stores.map Prod.fst = List.range' 0 n ∧
      RLE.dec (stores.map Prod.snd ++ rest) xs.length = some xs := by
  refine ⟨_, _, _, _, _, _, Varint.Bridge.RLE.rleEncode_eq xs hx hn given fuel hf, ?_, ?_⟩
  · rw [Varint.Bridge.storesFrom_fst]
  · rw [Varint.Bridge.storesFrom_snd]; exact RLE.dec_enc xs hx (by omega) rest

/-- **both directions on the machine translation**: the bytes `varintRLEEncode` stores, handed to `varintRLEDecode`
    with the original count (whatever bytes follow them), make the decoder store exactly the original array at
    values[0 … count-1] and return count. Encoder loop, decoder loops and the tagged reader/writer are all the
    translated C; no hand-written model of the codec's control flow is involved in the statement. -/
theorem c_rle_codec_roundtrip (xs : List Nat) (hx : U64s xs) (hn : xs.length < 2 ^ 60) (given : Bool)
    (rest : List Nat) (hr : ∀ b ∈ rest, b < 256) (fuel : Nat) (hf : 2 * xs.length + 2 ≤ fuel) :
    ∃ n m1 m2 m3 m4 stores,
      Varint.Gen.C.rleEncode fuel (Varint.Bridge.Tagged.bufOf xs) xs.length given = some (n, m1, m2, m3, m4, stores) ∧
      Varint.Gen.C.rleDecode fuel (Varint.Bridge.Tagged.bufOf (stores.map Prod.snd ++ rest)) xs.length =
        some (xs.length, Varint.Bridge.storesFrom 0 xs) := by
  refine ⟨_, _, _, _, _, _, Varint.Bridge.RLE.rleEncode_eq xs hx hn given fuel (by omega), ?_⟩
  rw [Varint.Bridge.storesFrom_snd]
  have hb : ∀ b ∈ RLE.enc xs ++ rest, b < 256 := by
    intro b hbm
    rcases List.mem_append.1 hbm with h1 | h1
    · exact Varint.Bridge.RLEDec.enc_lt xs hx (by omega) b h1
    · exact hr b h1
  exact Varint.Bridge.RLEDec.rleDecode_eq _ hb xs.length (by omega) xs (RLE.dec_enc xs hx (by omega) rest) fuel hf

/-- **unsigned delta, both directions on the machine translation of src/varintDelta.c** (width loops, external
    put/get through the byte views, zig-zag, pointer walk — all regenerated from the current source): for EVERY array of
    64-bit values (every difference wraps, nothing is excluded) `varintDeltaEncodeUnsigned` leaves the model's bytes at
    output[0 … n-1] — each index below n stored once, none beyond — and returns n; `varintDeltaDecodeUnsigned` on that
    memory, whatever follows it, stores the original values at output[0], output[1], … and returns n -/
theorem c_delta_unsigned_roundtrip (xs : List Nat) (hx : U64s xs) (hn : xs.length < 2 ^ 58) (rest : List Nat)
    (hr : ∀ b ∈ rest, b < 256) (hrl : rest.length < 2 ^ 62) (fuel : Nat) (hf : xs.length + 9 ≤ fuel) :
    ∃ n stores,
      Varint.Gen.C.deltaEncodeUnsigned fuel (Varint.Bridge.Tagged.bufOf xs) xs.length = some (n, stores) ∧
      Varint.Bridge.External.Writes stores (Delta.encU xs) ∧ n = (Delta.encU xs).length ∧
      Varint.Gen.C.deltaDecodeUnsigned fuel (Varint.Bridge.Tagged.bufOf (Delta.encU xs ++ rest)) xs.length =
        some (n, Varint.Bridge.storesFrom 0 xs) := by
  obtain ⟨stores, h1, h2⟩ := Varint.Bridge.Delta.deltaEncodeUnsigned_eq xs hx (by omega) fuel hf
  refine ⟨_, stores, h1, h2, rfl, ?_⟩
  have hb : ∀ b ∈ Delta.encU xs ++ rest, b < 256 := by
    intro b hbm
    rcases List.mem_append.1 hbm with h | h
    · exact Varint.Bridge.Delta.encU_lt xs hx b h
    · exact hr b h
  have hle := Delta.encU_length_le xs hx
  have hm : Delta.maxSize xs.length ≤ 9 * xs.length + 9 := by unfold Delta.maxSize; split <;> omega
  exact Varint.Bridge.Delta.deltaDecodeUnsigned_eq _ hb (by rw [List.length_append]; omega) xs.length (by omega) xs _
    (Delta.decU_encU xs hx rest) fuel (by omega)

/-- **signed delta, both directions on the machine translation**: for every array of int64 values (given as their
    64-bit patterns) whose neighbouring differences are representable in int64 — the signed codec's documented domain;
    outside it the C's `values[i] - prev` is undefined — `varintDeltaEncode` leaves the model's bytes (each index below
    n once, none beyond) and `varintDeltaDecode` of them stores the original patterns and returns n -/
theorem c_delta_signed_roundtrip (xs : List Nat) (hx : U64s xs) (hn : xs.length < 2 ^ 58)
    (hok : ∀ b t, xs = b :: t → Varint.Bridge.Delta.DiffsOK b t) (rest : List Nat)
    (hr : ∀ b ∈ rest, b < 256) (hrl : rest.length < 2 ^ 62) (fuel : Nat) (hf : xs.length + 9 ≤ fuel) :
    ∃ n stores,
      Varint.Gen.C.deltaEncode fuel (Varint.Bridge.Tagged.bufOf xs) xs.length = some (n, stores) ∧
      Varint.Bridge.External.Writes stores (Delta.encS xs) ∧ n = (Delta.encS xs).length ∧
      Varint.Gen.C.deltaDecode fuel (Varint.Bridge.Tagged.bufOf (Delta.encS xs ++ rest)) xs.length =
        some (n, Varint.Bridge.storesFrom 0 xs) := by
  obtain ⟨stores, h1, h2⟩ := Varint.Bridge.Delta.deltaEncode_eq xs hx (by omega) hok fuel hf
  refine ⟨_, stores, h1, h2, rfl, ?_⟩
  have hb : ∀ b ∈ Delta.encS xs ++ rest, b < 256 := by
    intro b hbm
    rcases List.mem_append.1 hbm with h | h
    · exact Varint.Bridge.Delta.encS_lt xs hx b h
    · exact hr b h
  have hle := Delta.encS_length_le xs hx
  have hm : Delta.maxSize xs.length ≤ 9 * xs.length + 9 := by unfold Delta.maxSize; split <;> omega
  exact Varint.Bridge.Delta.deltaDecode_eq _ hb (by rw [List.length_append]; omega) xs.length (by omega) xs _
    (Delta.decS_encS xs hx rest) fuel (by omega)

/-- non-vacuity of the representability premise: an array with negative and positive steps -/
example : Varint.Bridge.Delta.DiffsOK 5 [2 ^ 64 - 3, 7, 2 ^ 62] := by
  simp only [Varint.Bridge.Delta.DiffsOK, toI64]; decide

/-! ## group varint (1–64 fields) -/

/-- group: decode(encode) returns the fields and the number of bytes consumed = bytes written;
    whatever follows the encoding is irrelevant -/
theorem group_roundtrip (xs : List Nat) (h : Group.Ok xs) (cap : Nat) (hcap : xs.length ≤ cap) (rest : List Nat) :
    Group.dec (Group.enc xs ++ rest) cap = some (some (xs, (Group.enc xs).length)) :=
  Group.dec_enc xs h cap hcap rest

/-- group random access returns the field the full decoder returns, and stays inside the encoding -/
theorem group_getField (xs : List Nat) (h : Group.Ok xs) (i : Nat) (hi : i < xs.length) (rest : List Nat) :
    ∃ n, Group.getField (Group.enc xs ++ rest) i = some (some (xs.getD i 0, n)) ∧ n ≤ (Group.enc xs).length :=
  Group.getField_enc xs h i hi rest

/-! ## run-length with count header, random access -/

theorem rleh_roundtrip (xs : List Nat) (hx : U64s xs) (hn : xs.length < 2 ^ 64) (cap : Nat)
    (hcap : xs.length ≤ cap) (rest : List Nat) :
    RLE.decH (RLE.encH xs ++ rest) cap = some (some xs) :=
  RLE.decH_encH xs hx hn cap hcap rest

theorem rle_getAt (xs : List Nat) (hx : U64s xs) (hn : xs.length < 2 ^ 64) (i : Nat) (hi : i < xs.length)
    (rest : List Nat) : RLE.getAt (RLE.enc xs ++ rest) i = some (xs.getD i 0) :=
  RLE.getAt_enc xs hx hn i hi rest


/-! ## patched frame-of-reference, at EVERY threshold percentage -/

theorem pfor_roundtrip (xs : List Nat) (g : PFOR.Good xs) (t : Nat) (rest : List Nat) :
    PFOR.dec (PFOR.enc xs t ++ rest) = some xs :=
  PFOR.dec_enc xs g t rest


/-! ## Elias gamma / delta (values ≥ 1): for EVERY declared bit count between the exact number of code
    bits and the whole last byte (the zero padding decodes as "no more values") and for every capacity
    (a smaller capacity yields the correct prefix) -/

theorem elias_gamma_roundtrip (xs : List Nat) (h : Elias.Pos64 xs) (srcBits cap : Nat)
    (hlo : (xs.flatMap Elias.gamma).length ≤ srcBits) (hhi : srcBits ≤ 8 * (Elias.encGamma xs).length) :
    Elias.decGamma (Elias.encGamma xs) srcBits cap = some (xs.take cap) :=
  Elias.decGamma_enc_gen xs h srcBits cap hlo hhi

theorem elias_delta_roundtrip (xs : List Nat) (h : Elias.Pos64 xs) (srcBits cap : Nat)
    (hlo : (xs.flatMap Elias.delta).length ≤ srcBits) (hhi : srcBits ≤ 8 * (Elias.encDelta xs).length) :
    Elias.decDelta (Elias.encDelta xs) srcBits cap = some (xs.take cap) :=
  Elias.decDelta_enc_gen xs h srcBits cap hlo hhi

/-- the byte-granular call with room for everything returns the whole array -/
theorem elias_roundtrip_bytes (xs : List Nat) (h : Elias.Pos64 xs) (cap : Nat) (hcap : xs.length ≤ cap) :
    Elias.decGamma (Elias.encGamma xs) (8 * (Elias.encGamma xs).length) cap = some xs ∧
    Elias.decDelta (Elias.encDelta xs) (8 * (Elias.encDelta xs).length) cap = some xs :=
  ⟨Elias.decGamma_enc_bytes xs h cap hcap, Elias.decDelta_enc_bytes xs h cap hcap⟩


/-! ## dictionary (both decoders): for every array the encoder ACCEPTS (`enc xs ≠ []`, which is exactly
    "non-empty and at most 2^20 distinct values") -/

theorem dict_accepts_iff (xs : List Nat) : Dict.enc xs ≠ [] ↔ xs ≠ [] ∧ (Dict.build xs).length ≤ Dict.maxDict :=
  Dict.enc_ne_nil_iff xs

/-- `varintDictDecode` (allocating) and `varintDictDecodeInto` with room for everything -/
theorem dict_roundtrip (xs : List Nat) (hx : U64s xs) (hn : xs.length < 2 ^ 64) (h : Dict.enc xs ≠ []) (rest : List Nat) :
    Dict.dec (Dict.enc xs ++ rest) none = some xs ∧
    ∀ cap, xs.length ≤ cap → Dict.dec (Dict.enc xs ++ rest) (some cap) = some xs :=
  ⟨Dict.dec_enc xs hx hn h rest, fun cap hc => Dict.dec_enc_cap xs hx hn h rest cap hc⟩

/-- the dictionary is the sorted duplicate-free set of the input values and every value is found in it -/
theorem dict_build_spec (xs : List Nat) :
    List.Pairwise (· < ·) (Dict.build xs) ∧ (∀ x, x ∈ Dict.build xs ↔ x ∈ xs) ∧
    (Dict.build xs).length ≤ xs.length ∧
    ∀ x ∈ xs, ∃ i, Dict.find (Dict.build xs) x = some i ∧ i < (Dict.build xs).length ∧ (Dict.build xs)[i]? = some x :=
  ⟨Dict.build_pairwise xs, Dict.mem_build xs, Dict.build_length_le xs,
   fun x hx => Dict.find_mem _ (Dict.build_pairwise xs) x ((Dict.mem_build xs x).mpr hx)⟩


/-! ## 128-block bit packing (scalar paths). The 32-bit and the delta forms carry no element count, so the
    decoder is given the original count (or any capacity when the stream ends with a partial block);
    the 64-bit form carries the count and accepts any capacity (smaller ⇒ the correct prefix). -/

theorem bp128_32_roundtrip (xs : List Nat) (h : ∀ x ∈ xs, x < 2 ^ 32) (rest : List Nat) :
    BP128.dec32 (BP128.enc32 xs ++ rest) xs.length = some xs ∧
    ∀ cap, xs.length ≤ cap → xs.length % 128 ≠ 0 → BP128.dec32 (BP128.enc32 xs ++ rest) cap = some xs :=
  ⟨BP128.dec32_enc32 xs h rest, fun cap hc hp => BP128.dec32_enc32_cap xs h cap hc hp rest⟩

theorem bp128_64_roundtrip (xs : List Nat) (hne : xs ≠ []) (h : U64s xs) (hn : xs.length < 2 ^ 64) (cap : Nat)
    (rest : List Nat) : BP128.dec64 (BP128.enc64 xs ++ rest) cap = some (xs.take cap) :=
  BP128.dec64_enc64_take xs hne h hn cap rest

theorem bp128_delta32_roundtrip (xs : List Nat) (hne : xs ≠ []) (h : ∀ x ∈ xs, x < 2 ^ 32) (rest : List Nat) :
    BP128.decD32 (BP128.encD 32 xs ++ rest) xs.length = some xs :=
  BP128.decD32_encD xs hne h rest

theorem bp128_delta64_roundtrip (xs : List Nat) (hne : xs ≠ []) (h : U64s xs) (rest : List Nat) :
    BP128.decD64 (BP128.encD 64 xs ++ rest) xs.length = some xs ∧
    ∀ cap, cap ≤ xs.length → BP128.decD64 (BP128.encD 64 xs ++ rest) cap = some (xs.take cap) :=
  ⟨BP128.decD64_encD xs hne h rest, fun cap hc => BP128.decD64_encD_prefix xs hne h cap hc rest⟩

/-- the block bit width is the width of the block's maximum: every value fits, and it is 0 exactly for an
    all-zero block -/
theorem bp128_bitwidth (xs : List Nat) :
    (∀ x ∈ xs, x < 2 ^ BP128.bitWidth xs) ∧ (BP128.bitWidth xs = 0 ↔ ∀ x ∈ xs, x = 0) ∧
    ((∀ x ∈ xs, x < 2 ^ 64) → BP128.bitWidth xs ≤ 64) :=
  ⟨BP128.lt_pow_bitWidth xs, BP128.bitWidth_eq_zero xs, BP128.bitWidth_le_64 xs⟩


/-- zig-zag of the C ITSELF (shift/xor form, regenerated from varintDelta.h on every run): equal to the
    model's map on every 64-bit pattern, hence a bijection with the decoder as inverse -/
theorem c_zigzag_roundtrip (x : Nat) (hx : x < 2 ^ 64) :
    Varint.Gen.C.deltaZigZag (toI64 x) = Delta.zz x ∧
    Varint.Gen.C.deltaZigZagDecode (Varint.Gen.C.deltaZigZag (toI64 x)) = toI64 x := by
  have h1 := Varint.Bridge.Sizes.deltaZigZag_eq x hx
  refine ⟨h1, ?_⟩
  rw [h1, Varint.Bridge.Sizes.deltaZigZagDecode_eq _ (Delta.zz_lt x hx), Delta.unzz_zz x hx]

/-- non-vacuity -/
example : FOR.Good [100, 200, 300] := ⟨by decide, by decide, by decide⟩
example : FOR.dec (FOR.enc [100, 200, 300, 100]) 4 = some (some [100, 200, 300, 100]) := by decide
example : (Delta.decU 3 (Delta.encU [5, 2 ^ 64 - 1, 0])).map (·.1) = some [5, 2 ^ 64 - 1, 0] := by decide
example : RLE.dec (RLE.enc [5, 5, 7, 7, 7, 9]) 6 = some [5, 5, 7, 7, 7, 9] := by decide


/-- **frame-of-reference decode on the translated C** (`varintFORDecode`, `varintFORGetAt`, machine-translated from
    src/varintFOR.c): from the bytes the model's encoder produces for any non-empty array of 64-bit values — followed
    by anything — the decoder returns the count and stores exactly the original values at values[0 … n-1] for every
    capacity ≥ n, and random access returns element i for every i < n. Every fuel above the count; n < 2^61 (the C
    computes `index * offsetWidth` in 64 bits). -/
theorem c_for_decode_roundtrip (xs : List Nat) (g : FOR.Good xs) (cap : Nat) (hcap : xs.length ≤ cap) (rest : List Nat)
    (hrest : ∀ b ∈ rest, b < 256) (fuel : Nat) (hf : xs.length < fuel) (h61 : xs.length < 2 ^ 61) :
    Varint.Gen.C.forDecode fuel (Varint.Bridge.Tagged.bufOf (FOR.enc xs ++ rest)) cap =
      some (xs.length, Varint.Bridge.storesFrom 0 xs) ∧
    (∀ i, i < xs.length →
      Varint.Gen.C.forGetAt (Varint.Bridge.Tagged.bufOf (FOR.enc xs ++ rest)) i = xs.getD i 0) := by
  have hb : ∀ b ∈ FOR.enc xs ++ rest, b < 256 := by
    intro b hb
    rcases List.mem_append.mp hb with hb | hb
    · exact Varint.Bridge.FORDec.enc_lt xs g b hb
    · exact hrest b hb
  have hh := FOR.readHdr_enc xs g rest
  obtain ⟨_, _, hw1, hw8, _⟩ := FOR.analyze_facts xs g
  constructor
  · exact ((Varint.Bridge.FORDec.forDecode_eq _ hb cap fuel _ hh hf).2 xs (for_roundtrip xs g cap hcap rest)).1
  · intro i hi
    refine Varint.Bridge.FORDec.forGetAt_eq _ hb i _ _ hh ?_ (for_getAt xs g i hi rest)
    have hlen := g.len
    have : i * (FOR.analyze xs).offsetWidth ≤ i * 8 := Nat.mul_le_mul_left i hw8
    simp only []
    omega


/-- **group decode on the translated C** (`varintGroupDecode`: the loop that fills the local `widths[]` array and the
    loop that reads it back, machine-translated from src/varintGroup.c): from the bytes the model's encoder produces for
    any 1..64 fields of 64-bit values — followed by anything — it stores the field count, exactly the original values at
    values[0 … n-1] and returns the encoded length, for every capacity ≥ n. Every fuel above 64. -/
theorem c_group_decode_roundtrip (xs : List Nat) (h : Group.Ok xs) (cap : Nat) (hcap : xs.length ≤ cap) (rest : List Nat)
    (hrest : ∀ b ∈ rest, b < 256) (h64 : (Group.enc xs ++ rest).length < 2 ^ 64) (fuel : Nat) (hf : 64 < fuel) :
    Varint.Gen.C.groupDecode fuel (Varint.Bridge.Tagged.bufOf (Group.enc xs ++ rest)) cap =
      some ((Group.enc xs).length, some xs.length, Varint.Bridge.storesFrom 0 xs) := by
  have hb : ∀ b ∈ Group.enc xs ++ rest, b < 256 := by
    intro b hb
    rcases List.mem_append.mp hb with hb | hb
    · exact Group.enc_lt xs h b hb
    · exact hrest b hb
  exact ((Varint.Bridge.Group.groupDecode_eq _ hb h64 cap fuel hf).2 xs _ (group_roundtrip xs h cap hcap rest)).1


/-- **group random access on the translated C** (`varintGroupGetField`): on the encoding of 1..64 fields it stores
    field `i` for every i < n and returns an offset inside the encoding -/
theorem c_group_getfield (xs : List Nat) (h : Group.Ok xs) (i : Nat) (hi : i < xs.length) (rest : List Nat)
    (hrest : ∀ b ∈ rest, b < 256) (h64 : (Group.enc xs ++ rest).length < 2 ^ 64) (fuel : Nat) (hf : 64 < fuel) :
    ∃ n, Varint.Gen.C.groupGetField fuel (Varint.Bridge.Tagged.bufOf (Group.enc xs ++ rest)) i =
      some (n, some (xs.getD i 0)) ∧ n ≤ (Group.enc xs).length := by
  have hb : ∀ b ∈ Group.enc xs ++ rest, b < 256 := by
    intro b hb
    rcases List.mem_append.mp hb with hb | hb
    · exact Group.enc_lt xs h b hb
    · exact hrest b hb
  obtain ⟨n, hg, hn⟩ := group_getField xs h i hi rest
  exact ⟨n, (Varint.Bridge.Group.groupGetField_eq _ hb h64 i (by have := h.2.1; omega) fuel hf).2 _ _ hg, hn⟩


/-- **the BP128 block width on the translated C** (`varintBP128MaxBitWidth64` = maximum scan + `varintBP128BitsNeeded64`'s
    shift loop): for every block of 64-bit values it returns the model's `bitWidth`, i.e. the least width every value of
    the block fits in — the premise of the model's lossless packing. Every fuel ≥ n + 66. -/
theorem c_bp128_block_width (xs : List Nat) (hx : ∀ x ∈ xs, x < 2 ^ 64) (hn : xs.length < 2 ^ 63) (fuel : Nat)
    (hf : xs.length + 66 ≤ fuel) :
    Varint.Gen.C.bpMaxBitWidth64 fuel (Varint.Bridge.Tagged.bufOf xs) xs.length = some (BP128.bitWidth xs) ∧
    (∀ x ∈ xs, x < 2 ^ BP128.bitWidth xs) ∧ BP128.bitWidth xs ≤ 64 ∧
    ∀ v, v < 2 ^ 64 → Varint.Gen.C.bpBitsNeeded64 fuel v = some (Bits.bitsNeeded v) :=
  ⟨Varint.Bridge.BP.bpMaxBitWidth64_eq xs hx hn fuel hf, BP128.lt_pow_bitWidth xs, BP128.bitWidth_le_64 xs hx,
   fun v hv => Varint.Bridge.BP.bpBitsNeeded64_eq v fuel hv (by omega)⟩


/-- **the FOR block reader and the batch decoder on the translated C** (`varintFORDecodeBlock`, `varintFORBatchDecode`): on
    the encoding of a good array the block reader stores exactly the requested slice (elements start … start+blockSize-1,
    cut at the end; nothing when start is past the end) and the batch decoder does what `varintFORDecode` does -/
theorem c_for_block_roundtrip (xs : List Nat) (g : FOR.Good xs) (start bsz : Nat) (rest : List Nat)
    (hrest : ∀ b ∈ rest, b < 256) (h61 : xs.length < 2 ^ 61) (hsum : start + bsz < 2 ^ 64) (hst : start < 2 ^ 61)
    (fuel : Nat) (hf : bsz < fuel) (hf2 : xs.length < fuel) :
    Varint.Gen.C.forDecodeBlock fuel (Varint.Bridge.Tagged.bufOf (FOR.enc xs ++ rest)) start bsz =
      some (((xs.drop start).take bsz).length, Varint.Bridge.storesFrom 0 ((xs.drop start).take bsz)) ∧
    (∀ cap, xs.length ≤ cap →
      Varint.Gen.C.forBatchDecode fuel (Varint.Bridge.Tagged.bufOf (FOR.enc xs ++ rest)) cap =
        some (xs.length, Varint.Bridge.storesFrom 0 xs)) := by
  have hb : ∀ b ∈ FOR.enc xs ++ rest, b < 256 := by
    intro b hb
    rcases List.mem_append.mp hb with hb | hb
    · exact Varint.Bridge.FORDec.enc_lt xs g b hb
    · exact hrest b hb
  have hh := FOR.readHdr_enc xs g rest
  obtain ⟨_, _, hw1, hw8, _⟩ := FOR.analyze_facts xs g
  constructor
  · refine (Varint.Bridge.FORDec.forDecodeBlock_eq _ hb start bsz fuel _ hh hsum ?_ hf _
      (for_block_roundtrip xs g start bsz rest)).1
    have : start * (FOR.analyze xs).offsetWidth ≤ start * 8 := Nat.mul_le_mul_left start hw8
    simp only []
    omega
  · intro cap hcap
    have hd := (c_for_decode_roundtrip xs g cap hcap rest hrest fuel hf2 h61).1
    exact Varint.Bridge.FORDec.forBatchDecode_eq _ hb cap fuel _ hh _ hd (by intro hgt; simp only [] at hgt; omega)

end Varint.Props.C02
