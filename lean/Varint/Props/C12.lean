import Varint.Lemmas.Add
import Varint.Bridge.TaggedAdd
import Varint.Bridge.External
import Varint.Lemmas.Tagged
import Varint.Lemmas.External
/-
  C12 — in-place add stores the exact sum and never outgrows a no-grow slot.
  `add stored origLen amount force = (returned width, bytes written by the call | none)`.
  `stored` is the value decoded from the slot, `origLen` the width the slot currently has
  (for tagged: the length its first byte announces, which may be a padded fixed width).
-/
namespace Varint.Props.C12
open Varint

def overflows (stored : Nat) (amount : Int) : Prop :=
  toI64 stored + amount < -(2 ^ 63 : Int) ∨ toI64 stored + amount > (2 ^ 63 : Int) - 1

instance (stored : Nat) (amount : Int) : Decidable (overflows stored amount) := by
  unfold overflows; exact inferInstance

/-- the 64-bit pattern of old+amount -/
def newVal (stored : Nat) (amount : Int) : Nat := toU64 (toI64 stored + amount)

theorem newVal_lt (stored : Nat) (amount : Int) : newVal stored amount < 2 ^ 64 := toU64_lt _

theorem newVal_exact (stored : Nat) (amount : Int) (h : ¬ overflows stored amount) :
    toI64 (newVal stored amount) = toI64 stored + amount := by
  unfold overflows at h
  exact toI64_toU64 _ (by omega) (by omega)

private theorem tagged_add_eq (stored origLen : Nat) (amount : Int) (force : Bool) :
    Tagged.add stored origLen amount force =
      if overflows stored amount then (0, none)
      else if Tagged.len (newVal stored amount) > origLen ∧ (!force) = true then (Tagged.len (newVal stored amount), none)
      else (Tagged.len (newVal stored amount), some (Tagged.enc (newVal stored amount))) := rfl

private theorem ext_add_eq (stored origLen : Nat) (amount : Int) (force : Bool) :
    External.add stored origLen amount force =
      if overflows stored amount then (0, none)
      else if extLen (newVal stored amount) > origLen ∧ (!force) = true then (extLen (newVal stored amount), none)
      else (extLen (newVal stored amount), some (External.enc (newVal stored amount))) := rfl

/-! ## tagged -/

/-- signed 64-bit overflow: failure (width 0) and the bytes are untouched -/
theorem tagged_add_overflow_unchanged (stored origLen : Nat) (amount : Int) (force : Bool)
    (h : overflows stored amount) : Tagged.add stored origLen amount force = (0, none) := by
  rw [tagged_add_eq, if_pos h]

/-- grow form, or no-grow form whose result fits: exactly old+amount is stored (as int64),
    the returned width is the width of what is now stored, it decodes back, and is at most 9 -/
theorem tagged_add_exact_sum (stored origLen : Nat) (amount : Int) (force : Bool)
    (h : ¬ overflows stored amount)
    (hfit : force = true ∨ Tagged.len (newVal stored amount) ≤ origLen) (rest : List Nat) :
    Tagged.add stored origLen amount force
      = (Tagged.len (newVal stored amount), some (Tagged.enc (newVal stored amount))) ∧
    toI64 (newVal stored amount) = toI64 stored + amount ∧
    Tagged.get (Tagged.enc (newVal stored amount) ++ rest)
      = .ok (newVal stored amount) (Tagged.len (newVal stored amount)) ∧
    (Tagged.enc (newVal stored amount)).length = Tagged.len (newVal stored amount) ∧
    Tagged.len (newVal stored amount) ≤ 9 := by
  refine ⟨?_, newVal_exact _ _ h, ?_, Tagged.enc_length _, (Tagged.len_bounds _).2⟩
  · have hcond : ¬ (Tagged.len (newVal stored amount) > origLen ∧ (!force) = true) := by
      rcases hfit with hf | hf
      · simp [hf]
      · intro hc; have := hc.1; omega
    rw [tagged_add_eq, if_neg h, if_neg hcond]
  · rw [Tagged.get_enc _ (newVal_lt _ _) rest, Tagged.enc_length]

/-- no-grow form whose result does not fit: nothing is written, the width required is returned -/
theorem tagged_add_nogrow_unchanged (stored origLen : Nat) (amount : Int)
    (h : ¬ overflows stored amount) (hbig : origLen < Tagged.len (newVal stored amount)) :
    Tagged.add stored origLen amount false = (Tagged.len (newVal stored amount), none) := by
  have hcond : Tagged.len (newVal stored amount) > origLen ∧ (!false) = true := ⟨hbig, rfl⟩
  rw [tagged_add_eq, if_neg h, if_pos hcond]

/-- in no case does the no-grow form write a byte at index ≥ the current width -/
theorem tagged_add_nogrow_no_write_beyond (stored origLen : Nat) (amount : Int) (bs : List Nat)
    (h : (Tagged.add stored origLen amount false).2 = some bs) : bs.length ≤ origLen := by
  rw [tagged_add_eq] at h
  split at h
  · simp at h
  · split at h
    · simp at h
    · rename_i hc
      simp only [Option.some.injEq] at h
      rw [← h, Tagged.enc_length]
      simp at hc
      omega

/-- the grow form extends to at most the family's maximum length -/
theorem tagged_add_grow_le_max (stored origLen : Nat) (amount : Int) (bs : List Nat)
    (h : (Tagged.add stored origLen amount true).2 = some bs) : bs.length ≤ 9 := by
  rw [tagged_add_eq] at h
  split at h
  · simp at h
  · split at h
    · simp at h
    · simp only [Option.some.injEq] at h
      rw [← h, Tagged.enc_length]
      exact (Tagged.len_bounds _).2

/-! ## the same on the machine translation of `varintTaggedAddNoGrow` / `varintTaggedAddGrow`

`Gen.C.taggedAdd*` is regenerated from src/varintTagged.c on every run (slot read, `__builtin_saddll_overflow`,
re-encode in place); `Bridge.TaggedAdd` proves it equal to the model for every slot content and every amount. -/

/-- the slot holds a tagged varint: value `stored`, announced width `origLen` -/
def Slot (bs : List Nat) (stored origLen : Nat) : Prop :=
  (∀ b ∈ bs, b < 256) ∧ Tagged.get bs = .ok stored origLen ∧ stored < 2 ^ 64

/-- C12 in full on the translated C. For every slot and every int64 amount:
    (1) signed overflow ⇒ both forms return 0 and store nothing;
    (2) otherwise the no-grow form stores nothing at an index ≥ the slot's width — when the sum needs more bytes it
        stores nothing at all and returns the width required;
    (3) whenever bytes are stored they are, at indices 0,1,…, the encoding of exactly old+amount (as int64), and the
        return value is their number;
    (4) the grow form stores at most 9 bytes. -/
theorem c_tagged_add (bs : List Nat) (stored origLen : Nat) (hslot : Slot bs stored origLen) (amount : Int)
    (ha1 : -(2 ^ 63 : Int) ≤ amount) (ha2 : amount < (2 ^ 63 : Int)) :
    let ng := Varint.Gen.C.taggedAddNoGrow (Varint.Bridge.Tagged.bufOf bs) amount
    let g := Varint.Gen.C.taggedAddGrow (Varint.Bridge.Tagged.bufOf bs) amount
    (overflows stored amount → ng = (0, []) ∧ g = (0, [])) ∧
    (∀ p ∈ ng.2, p.1 < origLen) ∧
    (¬ overflows stored amount → origLen < Tagged.len (newVal stored amount) →
        ng = (Tagged.len (newVal stored amount), [])) ∧
    (¬ overflows stored amount →
        g = (Tagged.len (newVal stored amount), Varint.Bridge.storesFrom 0 (Tagged.enc (newVal stored amount))) ∧
        toI64 (newVal stored amount) = toI64 stored + amount ∧
        (Tagged.len (newVal stored amount) ≤ origLen → ng = g)) ∧
    g.2.length ≤ 9 := by
  obtain ⟨hb, hget, hs⟩ := hslot
  simp only []
  rw [Varint.Bridge.TaggedAdd.taggedAddNoGrow_eq bs hb stored origLen hget hs amount ha1 ha2,
    Varint.Bridge.TaggedAdd.taggedAddGrow_eq bs hb stored origLen hget hs amount ha1 ha2]
  refine ⟨?_, ?_, ?_, ?_, ?_⟩
  · intro h
    rw [tagged_add_overflow_unchanged _ _ _ _ h, tagged_add_overflow_unchanged _ _ _ _ h]
    exact ⟨rfl, rfl⟩
  · intro p hp
    cases h2 : (Tagged.add stored origLen amount false).2 with
    | none => rw [h2] at hp; simp [Varint.Bridge.TaggedAdd.storesOf] at hp
    | some w =>
      rw [h2] at hp
      have hl := tagged_add_nogrow_no_write_beyond stored origLen amount w h2
      simp only [Varint.Bridge.TaggedAdd.storesOf] at hp
      have hf : p.1 ∈ (Varint.Bridge.storesFrom 0 w).map Prod.fst := List.mem_map_of_mem hp
      rw [Varint.Bridge.storesFrom_fst, List.mem_range'] at hf
      obtain ⟨i, hi, he⟩ := hf
      omega
  · intro h hbig
    rw [tagged_add_nogrow_unchanged _ _ _ h hbig]; rfl
  · intro h
    have hg := (tagged_add_exact_sum stored origLen amount true h (Or.inl rfl) []).1
    refine ⟨by rw [hg]; rfl, newVal_exact _ _ h, ?_⟩
    intro hfit
    have hn := (tagged_add_exact_sum stored origLen amount false h (Or.inr hfit) []).1
    rw [hn, hg]
  · cases h2 : (Tagged.add stored origLen amount true).2 with
    | none => simp [Varint.Bridge.TaggedAdd.storesOf]
    | some w =>
      have := tagged_add_grow_le_max stored origLen amount w h2
      simp only [Varint.Bridge.TaggedAdd.storesOf, Varint.Bridge.storesFrom_length]
      exact this

/-- **on the machine translation of `varintExternalAdd_`** (`AddNoGrow` = force 0, `AddGrow` = force 1): for every slot
    of 1..8 bytes, every int64 amount and every fuel ≥ 8 the C returns the model's width and its memory effect is the
    model's — nothing (overflow, or no-grow with a result that does not fit), or the minimal little-endian bytes of
    exactly old+amount, each stored once and none at or beyond their number. The model-level theorems below
    (`ext_add_*`) then give the property's clauses. -/
theorem c_ext_add (p : Nat → Nat) (w : Nat) (h1 : 1 ≤ w) (h8 : w ≤ 8) (hb : ∀ i, i < w → p i < 256) (amount : Int)
    (force : Nat) (fuel : Nat) (hf : 8 ≤ fuel) :
    ∃ stores, Varint.Gen.C.extAdd fuel p w amount force =
        some ((External.add (ofLe ((List.range w).map p)) w amount (decide (force ≠ 0))).1, stores) ∧
      Varint.Bridge.External.AddWrites stores
        (External.add (ofLe ((List.range w).map p)) w amount (decide (force ≠ 0))).2 :=
  Varint.Bridge.External.extAdd_eq p w h1 h8 hb amount force fuel hf

/-- non-vacuity: a 2-byte slot holding 300, +5 fits, +70000 does not (no-grow leaves it alone, grow extends to 4) -/
example : Slot [241, 60, 0, 0] 300 2 := by
  refine ⟨by decide, by decide, by decide⟩

/-! ## external -/

theorem ext_add_overflow_unchanged (stored origLen : Nat) (amount : Int) (force : Bool)
    (h : overflows stored amount) : External.add stored origLen amount force = (0, none) := by
  rw [ext_add_eq, if_pos h]

theorem ext_add_exact_sum (stored origLen : Nat) (amount : Int) (force : Bool)
    (h : ¬ overflows stored amount)
    (hfit : force = true ∨ extLen (newVal stored amount) ≤ origLen) (rest : List Nat) :
    External.add stored origLen amount force
      = (extLen (newVal stored amount), some (External.enc (newVal stored amount))) ∧
    toI64 (newVal stored amount) = toI64 stored + amount ∧
    External.get (External.enc (newVal stored amount) ++ rest) (extLen (newVal stored amount))
      = some (newVal stored amount) ∧
    (External.enc (newVal stored amount)).length = extLen (newVal stored amount) ∧
    extLen (newVal stored amount) ≤ 8 := by
  refine ⟨?_, newVal_exact _ _ h, External.get_enc _ rest, External.enc_length _,
    extLen_le_8 (newVal_lt _ _)⟩
  have hcond : ¬ (extLen (newVal stored amount) > origLen ∧ (!force) = true) := by
    rcases hfit with hf | hf
    · simp [hf]
    · intro hc; have := hc.1; omega
  rw [ext_add_eq, if_neg h, if_neg hcond]

theorem ext_add_nogrow_unchanged (stored origLen : Nat) (amount : Int)
    (h : ¬ overflows stored amount) (hbig : origLen < extLen (newVal stored amount)) :
    External.add stored origLen amount false = (extLen (newVal stored amount), none) := by
  have hcond : extLen (newVal stored amount) > origLen ∧ (!false) = true := ⟨hbig, rfl⟩
  rw [ext_add_eq, if_neg h, if_pos hcond]

theorem ext_add_nogrow_no_write_beyond (stored origLen : Nat) (amount : Int) (bs : List Nat)
    (h : (External.add stored origLen amount false).2 = some bs) : bs.length ≤ origLen := by
  rw [ext_add_eq] at h
  split at h
  · simp at h
  · split at h
    · simp at h
    · rename_i hc
      simp only [Option.some.injEq] at h
      rw [← h, External.enc_length]
      simp at hc
      omega

theorem ext_add_grow_le_max (stored origLen : Nat) (amount : Int) (bs : List Nat)
    (h : (External.add stored origLen amount true).2 = some bs) : bs.length ≤ 8 := by
  rw [ext_add_eq] at h
  split at h
  · simp at h
  · split at h
    · simp at h
    · simp only [Option.some.injEq] at h
      rw [← h, External.enc_length]
      exact extLen_le_8 (newVal_lt _ _)

/-- non-vacuity / the D1 witness on the repaired code: 0xff in a 1-byte no-grow slot, +1 -/
example : External.add 0xff 1 1 false = (2, none) := by decide
example : External.add 0xff 1 1 true = (2, some [0, 1]) := by decide
example : Tagged.add 240 1 1 false = (2, none) := by decide
example : overflows (2 ^ 63 - 1) 1 := by decide

end Varint.Props.C12
