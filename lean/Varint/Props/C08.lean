import Varint.Lemmas.BitmapIter
import Varint.Lemmas.Bitmap
/-
  C08 — the bitmap behaves as a set of 16-bit integers under any history.
  Abstract state: `mem s v := s.bits.testBit v`. The mathematical set is a predicate `Nat → Bool`.
-/
namespace Varint.Props.C08
open Varint Varint.Bitmap

/-- operations of a history (values are 16-bit) -/
inductive Op where
  | add (v : Nat)
  | remove (v : Nat)
  | clear
  | addMany (vs : List Nat)
  | removeRange (mn mx : Nat)

def Op.ok : Op → Prop
  | .add v => v < 65536
  | .remove v => v < 65536
  | .clear => True
  | .addMany vs => ∀ v ∈ vs, v < 65536
  | .removeRange _ mx => mx ≤ 65536

/-- the implementation model's step: new state and the call's change report (if it has one) -/
def step (s : St) : Op → St × Option Bool
  | .add v => ((add s v).1, some (add s v).2)
  | .remove v => ((remove s v).1, some (remove s v).2)
  | .clear => (clear s, none)
  | .addMany vs => (addMany s vs, none)
  | .removeRange mn mx => (removeRange s mn mx, none)

/-- the same operation on a mathematical set -/
def specStep (m : Nat → Bool) : Op → (Nat → Bool) × Option Bool
  | .add v => (fun w => m w || decide (v = w), some (!m v))
  | .remove v => (fun w => m w && !decide (v = w), some (m v))
  | .clear => (fun _ => false, none)
  | .addMany vs => (fun w => m w || decide (w ∈ vs), none)
  | .removeRange mn mx => (fun w => m w && !decide (mn ≤ w ∧ w < mx), none)

def mem (s : St) : Nat → Bool := fun w => s.bits.testBit w

theorem bitmap_inv_init : Inv init ∧ mem init = fun _ => false := by
  refine ⟨inv_init, ?_⟩
  funext w; simp [mem, init]

theorem removeRange_fold (n mn : Nat) (s : St) (hmx : mn + n ≤ 65536) (hi : Inv s) :
    (∀ w, (((List.range n).map (· + mn)).foldl (fun st v => (remove st v).1) s).bits.testBit w
        = (s.bits.testBit w && !decide (mn ≤ w ∧ w < mn + n))) ∧
    Inv (((List.range n).map (· + mn)).foldl (fun st v => (remove st v).1) s) := by
  induction n with
  | zero =>
    refine ⟨fun w => ?_, hi⟩
    have : ¬ (mn ≤ w ∧ w < mn + 0) := by omega
    simp only [List.range_zero, List.map_nil, List.foldl_nil, this, decide_false, Bool.not_false, Bool.and_true]
  | succ n ih =>
    -- peel the LAST element: range (n+1) = range n ++ [n]
    rw [List.range_succ, List.map_append, List.foldl_append]
    obtain ⟨h1, h2⟩ := ih (by omega)
    simp only [List.map_cons, List.map_nil, List.foldl_cons, List.foldl_nil]
    obtain ⟨r1, _, r3⟩ := remove_spec _ (n + mn) (by omega) h2
    refine ⟨?_, r3⟩
    intro w
    rw [r1 w, h1 w]
    by_cases hw : n + mn = w
    · subst hw
      have : mn ≤ n + mn ∧ n + mn < mn + (n + 1) := by omega
      simp [this]
    · by_cases hin : mn ≤ w ∧ w < mn + n
      · have : mn ≤ w ∧ w < mn + (n + 1) := by omega
        simp [hw, hin, this]
      · have : ¬ (mn ≤ w ∧ w < mn + (n + 1)) := by omega
        simp [hw, hin, this]

theorem removeRange_spec (n mn : Nat) (s : St) (hmx : mn + n ≤ 65536) (hi : Inv s) :
    (∀ w, (removeRange s mn (mn + n)).bits.testBit w = (s.bits.testBit w && !decide (mn ≤ w ∧ w < mn + n))) ∧
    Inv (removeRange s mn (mn + n)) := by
  unfold removeRange
  have e : mn + n - mn = n := by omega
  rw [e]
  exact removeRange_fold n mn s hmx hi

/-- one step refines the set, reports the change truthfully and keeps the invariant -/
theorem bitmap_step_refines (s : St) (op : Op) (hok : op.ok) (hi : Inv s) :
    mem (step s op).1 = (specStep (mem s) op).1 ∧ (step s op).2 = (specStep (mem s) op).2 ∧ Inv (step s op).1 := by
  cases op with
  | add v =>
    obtain ⟨h1, h2, h3⟩ := add_spec s v hok hi
    exact ⟨funext h1, by simp [step, specStep, h2, mem], h3⟩
  | remove v =>
    obtain ⟨h1, h2, h3⟩ := remove_spec s v hok hi
    exact ⟨funext h1, by simp [step, specStep, h2, mem], h3⟩
  | clear =>
    refine ⟨by funext w; simp [step, specStep, mem, clear], rfl, ?_⟩
    have : ∀ n, countBelow 0 n = 0 := by
      intro n; induction n with
      | zero => rfl
      | succ n ih => simp [countBelow, ih]
    exact ⟨by simp [step, clear, popCount, this], fun w _ => by simp [step, clear]⟩
  | addMany vs =>
    obtain ⟨h1, h2⟩ := addMany_spec vs s hok hi
    exact ⟨funext h1, rfl, h2⟩
  | removeRange mn mx =>
    by_cases hle : mn ≤ mx
    · obtain ⟨n, rfl⟩ : ∃ n, mx = mn + n := ⟨mx - mn, by omega⟩
      obtain ⟨h1, h2⟩ := removeRange_spec n mn s hok hi
      exact ⟨funext h1, rfl, h2⟩
    · have e : mx - mn = 0 := by omega
      refine ⟨?_, rfl, ?_⟩
      · funext w
        have : ¬ (mn ≤ w ∧ w < mx) := by omega
        simp only [step, specStep, mem, removeRange, e, List.range_zero, List.map_nil, List.foldl_nil, this,
          decide_false, Bool.not_false, Bool.and_true]
      · simpa [step, removeRange, e] using hi

/-- histories -/
def run (s : St) : List Op → St × List (Option Bool)
  | [] => (s, [])
  | op :: ops => let r := step s op; let rest := run r.1 ops; (rest.1, r.2 :: rest.2)

def specRun (m : Nat → Bool) : List Op → (Nat → Bool) × List (Option Bool)
  | [] => (m, [])
  | op :: ops => let r := specStep m op; let rest := specRun r.1 ops; (rest.1, r.2 :: rest.2)

/-- starting from the empty bitmap, after ANY finite history the membership answers, every change
    report along the way, and the cardinality counter equal those of the mathematical set -/
theorem bitmap_history_refines (ops : List Op) (hok : ∀ op ∈ ops, op.ok) :
    mem (run init ops).1 = (specRun (fun _ => false) ops).1 ∧
    (run init ops).2 = (specRun (fun _ => false) ops).2 ∧
    (run init ops).1.card = popCount (run init ops).1.bits ∧
    isEmpty (run init ops).1 = decide (popCount (run init ops).1.bits = 0) := by
  have key : ∀ (ops : List Op) (s : St) (m : Nat → Bool), (∀ op ∈ ops, op.ok) → Inv s → mem s = m →
      mem (run s ops).1 = (specRun m ops).1 ∧ (run s ops).2 = (specRun m ops).2 ∧ Inv (run s ops).1 := by
    intro ops
    induction ops with
    | nil => intro s m _ hi hm; exact ⟨hm, rfl, hi⟩
    | cons op ops ih =>
      intro s m hok hi hm
      obtain ⟨h1, h2, h3⟩ := bitmap_step_refines s op (hok op (by simp)) hi
      subst hm
      obtain ⟨r1, r2, r3⟩ := ih (step s op).1 _ (fun o ho => hok o (by simp [ho])) h3 h1
      exact ⟨r1, by simp only [run, specRun, r2, h2], r3⟩
  obtain ⟨k1, k2, k3⟩ := key ops init _ hok inv_init bitmap_inv_init.2
  refine ⟨k1, k2, k3.card_eq, ?_⟩
  simp only [isEmpty, k3.card_eq]
  cases h : popCount (run init ops).1.bits <;> simp

/-- which container currently holds the data is not observable: membership, counter and change
    reports of add/remove are the same for every container type -/
theorem bitmap_container_unobservable (s : St) (t : Ty) (v : Nat) :
    ((add { s with ty := t } v).1.bits = (add s v).1.bits ∧ (add { s with ty := t } v).1.card = (add s v).1.card ∧
      (add { s with ty := t } v).2 = (add s v).2) ∧
    ((remove { s with ty := t } v).1.bits = (remove s v).1.bits ∧
      (remove { s with ty := t } v).1.card = (remove s v).1.card ∧
      (remove { s with ty := t } v).2 = (remove s v).2) :=
  ⟨add_ty_irrelevant s t v, remove_ty_irrelevant s t v⟩

/-- iteration and conversion to an array yield exactly the members (each 16-bit value whose bit is set) -/
theorem bitmap_members_spec (s : St) (x : Nat) : x ∈ members s ↔ x < 65536 ∧ s.bits.testBit x = true :=
  mem_members s x

/-- **set algebra.** Built the way the C builds them (Clone/Create + Add of the iterated members), the four
    operations are union, intersection, symmetric difference and difference of the member sets, and their
    results satisfy the invariant (counter = number of members) -/
theorem bitmap_or_spec (a b : St) (ha : Inv a) (hb : Inv b) :
    (∀ w, (Bitmap.or a b).bits.testBit w = (a.bits.testBit w || b.bits.testBit w)) ∧ Inv (Bitmap.or a b) := by
  unfold Bitmap.or
  obtain ⟨h1, h2⟩ := addMany_spec (members b) a (members_lt b) ha
  refine ⟨fun w => ?_, h2⟩
  rw [h1 w, bits_of_members b hb.small w]

theorem bitmap_and_spec (a b : St) (ha : Inv a) :
    (∀ w, (Bitmap.and a b).bits.testBit w = (a.bits.testBit w && b.bits.testBit w)) ∧ Inv (Bitmap.and a b) := by
  unfold Bitmap.and
  obtain ⟨h1, h2⟩ := addMany_spec (members ⟨.array, 0, a.bits &&& b.bits⟩) init (members_lt _) inv_init
  refine ⟨fun w => ?_, h2⟩
  rw [h1 w, bits_of_members ⟨.array, 0, a.bits &&& b.bits⟩ (fun v hv => by simp only []; rw [Nat.testBit_and, ha.small v hv]; rfl) w]
  simp only [Nat.testBit_and]
  simp [init]

theorem bitmap_xor_spec (a b : St) (ha : Inv a) (hb : Inv b) :
    (∀ w, (Bitmap.xor a b).bits.testBit w = (a.bits.testBit w ^^ b.bits.testBit w)) ∧ Inv (Bitmap.xor a b) := by
  unfold Bitmap.xor
  obtain ⟨h1, h2⟩ := addMany_spec (members ⟨.array, 0, a.bits ^^^ b.bits⟩) init (members_lt _) inv_init
  refine ⟨fun w => ?_, h2⟩
  rw [h1 w, bits_of_members ⟨.array, 0, a.bits ^^^ b.bits⟩ (fun v hv => by
    simp only []; rw [Nat.testBit_xor, ha.small v hv, hb.small v hv]; rfl) w]
  simp only [Nat.testBit_xor]
  simp [init]

theorem bitmap_andnot_spec (a b : St) (ha : Inv a) :
    (∀ w, (Bitmap.andNot a b).bits.testBit w = (a.bits.testBit w && !b.bits.testBit w)) ∧
      Inv (Bitmap.andNot a b) := by
  unfold Bitmap.andNot Bitmap.andNot.clearAll
  obtain ⟨h1, h2⟩ := addMany_spec (members ⟨.array, 0, a.bits ^^^ (a.bits &&& b.bits)⟩) init (members_lt _) inv_init
  refine ⟨fun w => ?_, h2⟩
  rw [h1 w, bits_of_members ⟨.array, 0, a.bits ^^^ (a.bits &&& b.bits)⟩ (fun v hv => by
    simp only []; rw [Nat.testBit_xor, Nat.testBit_and, ha.small v hv]; rfl) w]
  simp only [Nat.testBit_xor, Nat.testBit_and]
  simp only [init, Nat.zero_testBit, Bool.false_or]
  cases a.bits.testBit w <;> cases b.bits.testBit w <;> rfl


/-! ## iteration order, export size, add-range, serialisation -/

/-- iteration / array export is strictly ascending (hence duplicate free) — for EVERY state -/
theorem bitmap_iteration_ascending (s : St) : List.Pairwise (· < ·) (members s) ∧ (members s).Nodup :=
  ⟨members_sorted s, members_nodup s⟩

/-- the exported array has exactly `cardinality` entries -/
theorem bitmap_export_length (s : St) (hi : Inv s) : (members s).length = s.card :=
  members_length s hi

/-- add-range (half-open), both the element-wise path and the single-run fast path on an empty bitmap -/
theorem bitmap_addRange_spec (s : St) (mn mx : Nat) (hmx : mx ≤ 65536) (hi : Inv s) :
    Inv (addRange s mn mx) ∧
    ∀ w, (addRange s mn mx).bits.testBit w = (s.bits.testBit w || (decide (mn ≤ w) && decide (w < mx))) :=
  addRange_spec s mn mx hmx hi

/-- serialise then deserialise (the decoder of C14's model, `Bounded.bitmapDec`, mapped back to a state)
    restores type, counter and member set — array and bitmap containers, and the single run that the
    add-range fast path creates (its length is a uint16_t in the C, so < 65536) -/
theorem bitmap_serialise_roundtrip (s : St) (hi : Inv s) (hty : s.ty ≠ .runs) : decodeSt (encode s) = some s :=
  decode_encode s hi hty

theorem bitmap_serialise_roundtrip_run (s : St) (mn mx : Nat) (hi : Inv s) (hc : s.card = 0)
    (hbig : mx - mn > arrayMax) (hmx : mx ≤ 65536) (hnf : mx - mn < 65536) :
    decodeSt (encode (addRange s mn mx)) = some (addRange s mn mx) :=
  decode_encode_addRange_fast s mn mx hi hc hbig hmx hnf

/-- non-vacuity: a short history through the model -/
example : (run init [.add 7, .add 7, .remove 7, .remove 8]).2 = [some true, some false, some true, some false] := by
  decide

end Varint.Props.C08
