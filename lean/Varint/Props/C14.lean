import Varint.Bridge.DictH
import Varint.Bridge.RLE
import Varint.Bridge.Tagged
import Varint.Lemmas.Fuel
import Varint.Lemmas.Bounded
/- C14 — length-taking decoders stay inside their declared input.
   Memory model: the declared input is the list `bs` (byte count = `bs.length`; for the Elias decoders
   the bit source `declared bytes srcBits`, defined on exactly `srcBits` bits); loading anything at or
   beyond the declared size is the outcome `fault` / `none`. The theorems hold for EVERY byte list. -/
namespace Varint.Props.C14
open Varint Varint.Bounded Varint.Tagged

/-- bounded tagged reader: no load at index ≥ n, whatever the bytes -/
theorem tagged_reads_lt_n (bs : List Nat) (n : Int) (h : n ≤ bs.length) : getN bs n ≠ .fault :=
  getN_no_fault bs n h

/-- … and it never claims more bytes than it was given -/
theorem tagged_len_le_n (bs : List Nat) (n : Int) (v l : Nat) (h : getN bs n = .ok v l) : (l : Int) ≤ n :=
  (getN_ok_le bs n v l h).1

/-- "A tagged varint cut short of its announced length is reported as length 0" (and only then) -/
theorem tagged_short_is_zero (b0 : Nat) (rest : List Nat) (n : Int) (h : n ≤ (b0 :: rest).length)
    (hb : b0 ≤ 255) : getN (b0 :: rest) n = .short ↔ n < 1 ∨ n < (getLen b0 : Int) :=
  getN_short_iff b0 rest n h hb

/-- both dictionary decoders: no load at or beyond `bufferLen` -/
theorem dict_reads_lt_n (bs : List Nat) (cap : Option Nat) : (dictDec bs cap).1 ≠ .fault := by
  unfold dictDec dictDecAux
  split
  · simp
  · have h0 := tgetB_no_fault bs
    split
    · contradiction
    · simp
    · rename_i dsz w hg
      split
      · simp
      · split
        · simp
        · have hl : (bs.drop w).length = bs.length - w := List.length_drop
          rw [← hl]
          have h1 := readEntries_no_fault dsz (bs.drop w)
          split
          · contradiction
          · simp
          · rename_i d r1 rem1 hre
            obtain ⟨hr1, _⟩ := readEntries_rem _ _ _ _ _ hre
            subst hr1
            have h2 := tgetB_no_fault r1
            split
            · contradiction
            · simp
            · rename_i cnt w2 _
              split
              · simp
              · split
                · simp
                · split
                  · simp
                  · rename_i hc
                    simp only []
                    apply decIdx_no_fault
                    have hp := indexWidth_pos dsz
                    have hc' : cnt ≤ (r1.length - w2) / Dict.indexWidth dsz := by omega
                    have := (Nat.le_div_iff_mul_le hp).mp hc'
                    simp only [List.length_drop]
                    exact this

/-- every allocation request is bounded by a constant or by the input size: no hostile count reaches malloc -/
theorem dict_alloc_bounded (bs : List Nat) (cap : Option Nat) :
    ∀ a ∈ (dictDec bs cap).2, a ≤ 8 * Dict.maxDict ∨ a ≤ 8 * bs.length := by
  intro a ha
  unfold dictDec dictDecAux at ha
  split at ha
  · simp at ha
  · split at ha
    · simp at ha
    · simp at ha
    · rename_i dsz w hg
      have hw := tgetB_ok_le _ _ _ hg
      split at ha
      · simp at ha
      · split at ha
        · simp at ha
        · rename_i hd
          have hdsz : 8 * dsz ≤ 8 * Dict.maxDict := by omega
          have hl : (bs.drop w).length = bs.length - w := List.length_drop
          rw [← hl] at ha
          split at ha
          · simp at ha; omega
          · simp at ha; omega
          · rename_i d r1 rem1 hre
            obtain ⟨hr1, h5⟩ := readEntries_rem _ _ _ _ _ hre
            subst hr1
            split at ha
            · simp at ha; omega
            · simp at ha; omega
            · rename_i cnt w2 hg2
              split at ha
              · simp at ha; omega
              · split at ha
                · simp at ha; omega
                · split at ha
                  · simp at ha; omega
                  · rename_i hc
                    have hp := indexWidth_pos dsz
                    have h3 : cnt ≤ r1.length - w2 := by
                      have : (r1.length - w2) / Dict.indexWidth dsz ≤ r1.length - w2 := Nat.div_le_self _ _
                      omega
                    unfold allocsOf at ha
                    split at ha <;> simp at ha <;> omega

/-- `varintDictDecodeInto` stores at most `maxValues` elements -/
theorem dict_out_le_cap (bs : List Nat) (c : Nat) (vs : List Nat) (h : (dictDec bs (some c)).1 = .ok vs) :
    vs.length ≤ c := by
  unfold dictDec dictDecAux at h
  split at h
  · simp at h
  · split at h
    · simp at h
    · simp at h
    · split at h
      · simp at h
      · split at h
        · simp at h
        · split at h
          · simp at h
          · simp at h
          · split at h
            · simp at h
            · simp at h
            · rename_i cnt w2 _
              split at h
              · simp at h
              · split at h
                · simp at h
                · rename_i hoc
                  split at h
                  · simp at h
                  · simp only [] at h
                    rw [decIdx_length _ _ _ _ _ _ h]
                    simp [overCap] at hoc
                    omega

theorem le32_no_fault (bs : List Nat) (h : 4 ≤ bs.length) : le32 bs ≠ .fault := by
  unfold le32
  obtain ⟨p, hp, _⟩ := takeExact_isSome h
  rw [hp]
  simp

/-- the bitmap deserialiser: no load at or beyond `len` -/
theorem bitmap_reads_lt_n (bs : List Nat) : (bitmapDec bs).1 ≠ .fault := by
  unfold bitmapDec
  split
  · simp
  · rename_i hlen
    match bs with
    | [] => simp at hlen
    | ty :: r0 =>
      simp only [List.length_cons] at hlen
      simp only []
      have h4 := le32_no_fault r0 (by omega)
      split
      · contradiction
      · simp
      · rename_i card _
        split
        · split
          · simp
          · rename_i hc
            have hk : 2 * card ≤ (r0.drop 4).length := by omega
            obtain ⟨p, hp, _⟩ := takeExact_isSome hk
            rw [hp]; simp
        · split
          · split
            · simp
            · rename_i hc
              have hk : bitmapBytes ≤ (r0.drop 4).length := by omega
              obtain ⟨p, hp, _⟩ := takeExact_isSome hk
              rw [hp]; simp
          · split
            · split
              · simp
              · rename_i hc
                have h5 := le32_no_fault (r0.drop 4) (by omega)
                split
                · contradiction
                · simp
                · rename_i nr _
                  split
                  · simp
                  · rename_i hn
                    have hk : 4 * nr ≤ (r0.drop 8).length := by omega
                    obtain ⟨p, hp, _⟩ := takeExact_isSome hk
                    rw [hp]; simp
            · simp

/-- its allocation requests are bounded by a constant or by the input size: the untrusted 32-bit
    cardinality / run count never reaches malloc unchecked -/
theorem bitmap_alloc_bounded (bs : List Nat) : ∀ a ∈ (bitmapDec bs).2, a ≤ bitmapBytes ∨ a ≤ bs.length := by
  intro a ha
  unfold bitmapDec at ha
  split at ha
  · simp at ha
  · match bs with
    | [] => simp at ha; left; simp [bitmapBytes]; omega
    | ty :: r0 =>
      simp only [] at ha
      have hb : (24 : Nat) ≤ bitmapBytes := by decide
      have hd4 : (r0.drop 4).length ≤ r0.length := by simp [List.length_drop]
      have hd8 : (r0.drop 8).length ≤ r0.length := by simp [List.length_drop]
      simp only [List.length_cons]
      split at ha
      · simp at ha; omega
      · simp at ha; omega
      · rename_i card _
        split at ha
        · split at ha
          · simp at ha; omega
          · rename_i hc
            split at ha <;> simp at ha <;> omega
        · split at ha
          · split at ha
            · simp at ha; omega
            · split at ha <;> simp at ha <;> omega
          · split at ha
            · split at ha
              · simp at ha; omega
              · split at ha
                · simp at ha; omega
                · simp at ha; omega
                · rename_i nr _
                  split at ha
                  · simp at ha; omega
                  · split at ha <;> simp at ha <;> omega
            · simp at ha; omega

/-- the RLE run counter: no load at or beyond `encodedSize`, for any fuel -/
theorem rle_count_aux_no_fault (fuel : Nat) (bs : List Nat) : runCountAux fuel bs bs.length ≠ .fault := by
  induction fuel generalizing bs with
  | zero => simp [runCountAux]
  | succ fuel ih =>
    unfold runCountAux
    split
    · simp
    · have hmin : ((min bs.length int32Max : Nat) : Int) ≤ bs.length := by
        have : min bs.length int32Max ≤ bs.length := Nat.min_le_left _ _
        exact_mod_cast this
      have h1 := getN_no_fault bs _ hmin
      split
      · contradiction
      · simp
      · rename_i runLen w1 hg
        have hw := getN_ok_le _ _ _ _ hg
        have h2 : getN (bs.drop w1) (((min bs.length int32Max : Nat) : Int) - (w1 : Int)) ≠ .fault := by
          apply getN_no_fault
          simp only [List.length_drop]
          omega
        split
        · contradiction
        · simp
        · rename_i v w2 hg2
          have hw2 := getN_ok_le _ _ _ _ hg2
          split
          · simp
          · have hl : (bs.drop (w1 + w2)).length = bs.length - (w1 + w2) := List.length_drop
            rw [← hl]
            have := ih (bs.drop (w1 + w2))
            split
            · contradiction
            · simp
            · simp

theorem rle_count_reads_lt_n (bs : List Nat) : runCount bs ≠ .fault := rle_count_aux_no_fault _ _

theorem rle_count_aux_no_err (fuel : Nat) (bs : List Nat) (rem : Nat) : runCountAux fuel bs rem ≠ .err := by
  induction fuel generalizing bs rem with
  | zero => simp [runCountAux]
  | succ fuel ih =>
    unfold runCountAux
    split
    · simp
    · split
      · simp
      · simp
      · split
        · simp
        · simp
        · split
          · simp
          · split
            · simp
            · rename_i he; exact absurd he (ih _ _)
            · simp

/-- **on the machine translation of `varintRLEGetRunCount`** (regenerated from src/varintRLE.c on every run): for ANY
    byte string of the declared size — truncated, corrupt, hostile — the C terminates (every fuel above the size
    suffices) and returns the count of the bounded model, which never loads a byte at or beyond the declared size
    (`rle_count_reads_lt_n`); it reports a count, never an error or a crash -/
theorem c_rle_run_count_bounded (bs : List Nat) (hb : ∀ b ∈ bs, b < 256) (hlen : bs.length < 2 ^ 63) (fuel : Nat)
    (hf : bs.length < fuel) :
    ∃ r, runCount bs = .ok r ∧
      Varint.Gen.C.rleGetRunCount fuel (Varint.Bridge.Tagged.bufOf bs) bs.length = some r := by
  cases h : runCount bs with
  | fault => exact absurd h (rle_count_reads_lt_n bs)
  | err => exact absurd h (rle_count_aux_no_err _ _ _)
  | ok r => exact ⟨r, rfl, Varint.Bridge.RLE.rleGetRunCount_eq bs hb hlen fuel hf r h⟩

/-- both Elias array decoders, for ANY bit source that is defined on the first `srcBits` bits and
    faults everywhere else: no bit at or beyond `srcBits` is ever loaded -/
theorem elias_gamma_reads_lt_bits (bytes : List Nat) (srcBits cap : Nat) (h : srcBits ≤ 8 * bytes.length) :
    Elias.decGamma bytes srcBits cap ≠ none :=
  Elias.decArrayAux_ne_none _ _ _ (Elias.gammaDec_ne_none _ _ (Elias.declared_defined bytes srcBits h)) _ _

theorem elias_delta_reads_lt_bits (bytes : List Nat) (srcBits cap : Nat) (h : srcBits ≤ 8 * bytes.length) :
    Elias.decDelta bytes srcBits cap ≠ none :=
  Elias.decArrayAux_ne_none _ _ _ (Elias.deltaDec_ne_none _ _ (Elias.declared_defined bytes srcBits h)) _ _

/-- … and they store at most `maxCount` values -/
theorem elias_out_le_cap (bytes : List Nat) (srcBits cap : Nat) (vs : List Nat) :
    (Elias.decGamma bytes srcBits cap = some vs → vs.length ≤ cap) ∧
    (Elias.decDelta bytes srcBits cap = some vs → vs.length ≤ cap) :=
  ⟨Elias.decArrayAux_length _ _ _ _ _ _, Elias.decArrayAux_length _ _ _ _ _ _⟩

/-- non-vacuity: a hostile 5-byte bitmap header announcing 2^32-1 members is an error, with no large request -/
example : bitmapDec [0, 255, 255, 255, 255] = (.err, [24]) := by decide
example : (dictDec [255] none).1 = .err := by decide
example : runCount [3, 5, 249] = .ok 1 := by decide



/-- the C's bounded reader itself (translation regenerated from src/varintTagged.c on every run): whenever
    the declared size `n` does not exceed the bytes present, varintTaggedGet returns 0 and stores nothing
    exactly when the varint is cut short of its announced length, and otherwise returns a width ≤ n -/
theorem c_tagged_short_is_zero (b0 : Nat) (rest : List Nat) (n : Int) (h : n ≤ (b0 :: rest).length)
    (hb : ∀ b ∈ b0 :: rest, b < 256) :
    ((Varint.Gen.C.taggedGet (Varint.Bridge.Tagged.bufOf (b0 :: rest)) n = (0, none)) ↔
      (n < 1 ∨ n < (getLen b0 : Int))) ∧
    (∀ w v, Varint.Gen.C.taggedGet (Varint.Bridge.Tagged.bufOf (b0 :: rest)) n = (w, some v) → (w : Int) ≤ n ∧ 1 ≤ w) := by
  have hnf := getN_no_fault (b0 :: rest) n h
  have hbr := Varint.Bridge.Tagged.taggedGet_eq (b0 :: rest) n hb hnf
  have hshort := getN_short_iff b0 rest n h (by have := hb b0 (by simp); omega)
  constructor
  · rw [hbr, ← hshort]
    cases hg : getN (b0 :: rest) n with
    | fault => exact absurd hg hnf
    | short => simp
    | ok v l =>
      simp only []
      constructor
      · intro he; cases he
      · intro he; cases he
  · intro w v hw
    rw [hbr] at hw
    cases hg : getN (b0 :: rest) n with
    | fault => exact absurd hg hnf
    | short => rw [hg] at hw; cases hw
    | ok v' l =>
      rw [hg] at hw
      simp only [Prod.mk.injEq, Option.some.injEq] at hw
      obtain ⟨rfl, rfl⟩ := hw
      have := Bounded.getN_ok_bounds (b0 :: rest) n v' l hg
      exact ⟨this.2.1, this.1⟩

/-! ## termination: the model's loops are bounded by explicit fuel; the fuel each top-level function passes is
    ADEQUATE for arbitrary bytes — more fuel never changes the answer, so running out of fuel is not a way the
    model can differ from the C's own loop exit. -/

/-- run counter: fuel = number of input bytes + 1 (every counted run consumes ≥ 2 bytes) -/
theorem rle_runcount_fuel_adequate (bs : List Nat) (f : Nat) (hf : bs.length < f) :
    Bounded.runCountAux f bs bs.length = Bounded.runCount bs :=
  Bounded.runCount_fuel_suffices bs f hf

/-- a successful bounded tagged read reports a width between 1 and 9 that is within the declared size and
    within the bytes really present -/
theorem tagged_bounded_width (bs : List Nat) (n : Int) (v w : Nat) (h : Tagged.getN bs n = .ok v w) :
    1 ≤ w ∧ (w : Int) ≤ n ∧ w ≤ 9 ∧ w ≤ bs.length :=
  let ⟨a, b, c⟩ := Bounded.getN_ok_bounds bs n v w h
  ⟨a, b, c, Bounded.getN_ok_le_length bs n v w h⟩

/-- Elias gamma: the zero counter stops at 63, fuel 65 is never exhausted -/
theorem elias_gamma_fuel_adequate (rd : Elias.Reader) (total f pos : Nat) (hf : 64 ≤ f) :
    Elias.gammaDecAux rd total f 0 pos = Elias.gammaDec rd total pos :=
  Elias.gammaDec_fuel_suffices rd total f pos hf

/-- run-length decoders and random access, arbitrary bytes -/
theorem rle_fuel_adequate (bs : List Nat) (cap total n1 i f : Nat) :
    (cap < f → RLE.decAux f cap bs = RLE.dec bs cap) ∧
    (bs.length < 2 * f → RLE.decHAux f 0 total cap (bs.drop n1) = RLE.decHAux (bs.length + total + 2) 0 total cap (bs.drop n1)) ∧
    (i + 1 < f → RLE.getAtAux f 0 i bs = RLE.getAt bs i) :=
  ⟨fun h => RLE.dec_fuel_suffices f cap bs h, fun h => RLE.decH_fuel_suffices bs total cap n1 f h,
   fun h => RLE.getAt_fuel_suffices f i bs h⟩

/-- BP128 decoders, arbitrary bytes (the 64-bit form's loop can meet blocks that announce 0 values: its fuel
    counts bytes as well as values) -/
theorem bp128_fuel_adequate (bs : List Nat) (cap cnt n1 f : Nat) :
    (cap / 128 < f → BP128.dec32Aux f cap bs = BP128.dec32 bs cap) ∧
    (Tagged.get bs = .ok cnt n1 → bs.length < f → BP128.dec64 bs cap = BP128.dec64Aux f (min cnt cap) (bs.drop n1)) :=
  ⟨fun h => BP128.dec32_fuel_suffices f cap bs h, fun hg h => BP128.dec64_fuel_suffices bs cap cnt n1 hg f h⟩

/-- scalar readers, dictionary and packed-array binary searches -/
theorem search_fuel_adequate (d : List Nat) (x f : Nat) (hf : d.length < f) :
    Dict.bsearch d.toArray x f 0 d.length = Dict.find d x :=
  Dict.find_fuel_suffices d x f hf


/-- **the overflow guard in front of the dictionary decoders' allocation sizes, on the translated C**
    (`size_mul_overflow` of src/varintDict.c): for all 64-bit operands it reports an overflow exactly when the true
    product does not fit 64 bits, so a size computed from an untrusted count is either refused or the mathematical
    product — never a wrapped, too-small request -/
theorem c_dict_size_guard_exact (a b : Nat) (ha : a < 2 ^ 64) (hb : b < 2 ^ 64) :
    (a * b < 2 ^ 64 → Varint.Gen.C.dictMulOverflow a b = (0, some (a * b))) ∧
    (2 ^ 64 ≤ a * b → (Varint.Gen.C.dictMulOverflow a b).1 = 1) := by
  have h := Varint.Bridge.DictH.dictMulOverflow_eq a b ha hb
  constructor
  · intro hlt
    rw [h, if_pos hlt, Nat.mod_eq_of_lt hlt]
  · intro hge
    rw [h, if_neg (by omega)]

end Varint.Props.C14
