import Varint.Lemmas.DimBits
import Varint.Lemmas.Dimension
/-
  C10 — dimension headers round-trip and matrix cells are independent.
-/
namespace Varint.Props.C10
open Varint Varint.Dim

/-! ## (rows, cols) packed into one integer -/

theorem packDim_some (m d : Nat) (h : packDim m = some d) : 1 ≤ d ∧ d ≤ 8 ∧ m < 16 ^ d := by
  unfold packDim at h
  repeat' split at h
  all_goals (first | (cases h; omega) | cases h)

/-- every pair of 32-bit coordinates packs, and unpacks to itself -/
theorem dim_pack_roundtrip (r c : Nat) (hr : r < 2 ^ 32) (hc : c < 2 ^ 32) :
    ∃ p d, pack r c = some (p, d) ∧ unpack p d = (r, c) ∧ p < 2 ^ 64 := by
  have hm : max r c < 16 ^ 8 := by
    have : (16 : Nat) ^ 8 = 2 ^ 32 := by rfl
    omega
  have hsome : ∃ d, packDim (max r c) = some d := by
    unfold packDim
    repeat' split
    all_goals (first | exact ⟨_, rfl⟩ | omega)
  obtain ⟨d, hd⟩ := hsome
  obtain ⟨h1, h8, hlt⟩ := packDim_some _ _ hd
  have hrd : r < 16 ^ d := by omega
  have hcd : c < 16 ^ d := by omega
  have hpos : 0 < 16 ^ d := Nat.pow_pos (by omega)
  have h16 : 16 ^ d ≤ 2 ^ 32 := by
    have : (16 : Nat) ^ 8 = 2 ^ 32 := by rfl
    rw [← this]; exact Nat.pow_le_pow_right (by omega) h8
  have hsmall : r * 16 ^ d + c < 2 ^ 64 := by
    have : r * 16 ^ d ≤ (2 ^ 32 - 1) * 2 ^ 32 := Nat.mul_le_mul (by omega) h16
    omega
  refine ⟨(r * 16 ^ d + c) % 2 ^ 64, d, by simp [pack, hd], ?_, Nat.mod_lt _ (by omega)⟩
  rw [Nat.mod_eq_of_lt hsmall]
  unfold unpack
  rw [Nat.mul_comm, Nat.mul_add_div hpos, Nat.div_eq_of_lt hcd, Nat.mul_add_mod, Nat.mod_eq_of_lt hcd]
  simp

/-- packing fails exactly when a coordinate does not fit 32 bits -/
theorem dim_pack_fails_iff (r c : Nat) : pack r c = none ↔ (2 ^ 32 ≤ r ∨ 2 ^ 32 ≤ c) := by
  have e : (16 : Nat) ^ 8 = 2 ^ 32 := by rfl
  unfold pack
  constructor
  · intro h
    cases hd : packDim (max r c) with
    | some d => rw [hd] at h; simp at h
    | none =>
      unfold packDim at hd
      repeat' split at hd
      all_goals (first | (cases hd; done) | omega)
  · intro h
    have : packDim (max r c) = none := by
      unfold packDim
      repeat' split
      all_goals (first | rfl | omega)
    simp [this]

/-! ## the pair byte and the variable-width header -/

/-- all 72 (row width 0–8 × column width 1–8) combinations, either sparse flag -/
theorem dim_pair_byte_all (wr wc : Nat) (s : Bool) (hwr : wr ≤ 8) (hwc1 : 1 ≤ wc) (hwc8 : wc ≤ 8) :
    rowWidthOf (pairByte wr wc s) = wr ∧ colWidthOf (pairByte wr wc s) = wc ∧ pairByte wr wc s < 256 := by
  unfold rowWidthOf colWidthOf pairByte
  cases s <;> simp <;> omega

/-- header: decodes to the pair that was encoded, occupies exactly rowWidth + colWidth bytes,
    and the pair byte announces exactly those widths -/
theorem dim_pair_roundtrip (rows cols : Nat) (hr : rows < 2 ^ 64) (hc1 : 1 ≤ cols) (hc : cols < 2 ^ 64)
    (rest : List Nat) :
    let (dim, hdr) := pairEncode rows cols
    pairDecode (hdr ++ rest) dim = some (rows, cols) ∧ hdr.length = hdrLen dim ∧
    rowWidthOf dim = widthRows rows ∧ colWidthOf dim = extLen cols ∧ hdrLen dim ≤ 16 := by
  have hwr : widthRows rows ≤ 8 := by
    unfold widthRows; split
    · omega
    · exact extLen_le_8 hr
  have hwc := extLen_le_8 hc
  have hwc1 := extLen_pos cols
  obtain ⟨e1, e2, _⟩ := dim_pair_byte_all (widthRows rows) (extLen cols) false hwr hwc1 hwc
  show pairDecode (leBytes (rowWidthOf (pairDim rows cols)) rows ++ leBytes (colWidthOf (pairDim rows cols)) cols ++ rest)
        (pairDim rows cols) = some (rows, cols) ∧ _
  unfold pairDim hdrLen
  rw [e1, e2]
  refine ⟨?_, by simp, rfl, rfl, by omega⟩
  unfold pairDecode
  simp only [e1, e2]
  rw [List.append_assoc, takeExact_append _ _ (leBytes_length _ _), List.drop_left' (leBytes_length _ _),
    takeExact_append _ _ (leBytes_length _ _)]
  simp only [Option.some.injEq, Prod.mk.injEq]
  constructor
  · unfold widthRows
    split
    · rename_i h0; subst h0; simp [leBytes, ofLe]
    · exact ofLe_leBytes_of_lt (lt_pow_extLen rows)
  · exact ofLe_leBytes_of_lt (lt_pow_extLen cols)

/-! ## matrix cells -/

/-- writing an unsigned entry (1–8 bytes; float/double cells are the 4/8-byte case on their IEEE
    bits) makes a read of that cell return the written value -/
theorem dim_cell_get_set (buf out : List Nat) (dim row col v w : Nat) (hv : v < 256 ^ w)
    (h : setEntry buf dim row col v w = some out) : getEntry out dim row col w = some v := by
  unfold setEntry at h
  cases hk : cellIndex buf dim row col with
  | none => rw [hk] at h; cases h
  | some k =>
    rw [hk] at h
    simp only [] at h
    have hlen := writeAt_length _ _ _ _ h
    have htake := take_writeAt _ _ _ _ (hdrLen dim) h (by omega)
    unfold getEntry
    rw [cellIndex_congr out buf dim row col htake hlen, hk]
    simp only []
    have := readAt_writeAt_same _ _ _ _ h
    rw [leBytes_length] at this
    rw [this]
    simp [ofLe_leBytes_of_lt hv]

/-- …and changes no other cell and no header byte -/
theorem dim_cells_disjoint (buf out : List Nat) (dim row col v w row' col' cols : Nat) (hw : 1 ≤ w)
    (hcols : ∀ r c, r ≠ 0 → cellIndex buf dim r c = some (r * cols + c))
    (hc : col < cols) (hc' : col' < cols) (hne : (row, col) ≠ (row', col'))
    (h : setEntry buf dim row col v w = some out) :
    getEntry out dim row' col' w = getEntry buf dim row' col' w ∧
    out.take (hdrLen dim) = buf.take (hdrLen dim) ∧ out.length = buf.length := by
  have hidx : ∀ r c, cellIndex buf dim r c = some (r * cols + c) := by
    intro r c
    by_cases hr : r = 0
    · subst hr; simp [cellIndex]
    · exact hcols r c hr
  unfold setEntry at h
  rw [hidx row col] at h
  simp only [] at h
  have hlen := writeAt_length _ _ _ _ h
  have htake := take_writeAt _ _ _ _ (hdrLen dim) h (by omega)
  refine ⟨?_, htake, hlen⟩
  unfold getEntry
  rw [cellIndex_congr out buf dim row' col' htake hlen, hidx row' col']
  simp only []
  have hk : row * cols + col ≠ row' * cols + col' := by
    intro he
    obtain ⟨h1, h2⟩ := index_inj cols row col row' col' hc hc' he
    exact hne (by rw [h1, h2])
  rw [readAt_writeAt_disjoint _ _ _ _ _ _ h]
  rw [leBytes_length]
  rcases Nat.lt_or_gt_of_ne hk with hlt | hgt
  · right
    have : (row * cols + col + 1) * w ≤ (row' * cols + col') * w := Nat.mul_le_mul_right w hlt
    rw [Nat.add_mul] at this; omega
  · left
    have : (row' * cols + col' + 1) * w ≤ (row * cols + col) * w := Nat.mul_le_mul_right w hgt
    rw [Nat.add_mul] at this; omega


/-! ## bit cells -/

/-- writing a bit cell makes a read of it return the written bit -/
theorem dim_bit_get_set (buf out : List Nat) (dim row col : Nat) (on : Bool)
    (h : setBit buf dim row col on = some out) : getBit out dim row col = some on :=
  getBit_setBit buf out dim row col on h

/-- …and changes no other bit cell, no other byte, no header byte, and keeps bytes < 256 -/
theorem dim_bit_isolated (buf out : List Nat) (dim row col k : Nat) (on : Bool)
    (hk : cellIndex buf dim row col = some k) (h : setBit buf dim row col on = some out) :
    (∀ k', k' ≠ k →
      (out[hdrLen dim + k' / 8]?).map (fun b => decide (b / 2 ^ (k' % 8) % 2 = 1)) =
      (buf[hdrLen dim + k' / 8]?).map (fun b => decide (b / 2 ^ (k' % 8) % 2 = 1))) ∧
    (∀ j, j ≠ hdrLen dim + k / 8 → out[j]? = buf[j]?) ∧
    out.length = buf.length ∧
    out.take (hdrLen dim) = buf.take (hdrLen dim) ∧
    ((∀ x ∈ buf, x < 256) → ∀ x ∈ out, x < 256) :=
  setBit_other_bits buf out dim row col k on hk h

/-- the same statement on (row, col) coordinates, with the hypotheses of `dim_cells_disjoint` -/
theorem dim_bit_cells_disjoint (buf out : List Nat) (dim row col row' col' cols : Nat) (on : Bool)
    (hcols : ∀ r c, r ≠ 0 → cellIndex buf dim r c = some (r * cols + c))
    (hc : col < cols) (hc' : col' < cols) (hne : (row, col) ≠ (row', col'))
    (h : setBit buf dim row col on = some out) :
    getBit out dim row' col' = getBit buf dim row' col' ∧
    out.take (hdrLen dim) = buf.take (hdrLen dim) ∧ out.length = buf.length :=
  dim_bits_disjoint buf out dim row col row' col' cols on hcols hc hc' hne h

/-- toggle returns the old bit, stores its complement, and toggling twice restores the buffer -/
theorem dim_bit_toggle (buf out : List Nat) (dim row col : Nat) (old : Bool)
    (h : toggleBit buf dim row col = some (out, old)) :
    getBit buf dim row col = some old ∧ getBit out dim row col = some (!old) ∧
    out.length = buf.length ∧ out.take (hdrLen dim) = buf.take (hdrLen dim) ∧
    toggleBit out dim row col = some (buf, !old) :=
  let ⟨a, b, c, d⟩ := toggleBit_spec buf out dim row col old h
  ⟨a, b, c, d, toggleBit_toggleBit buf out dim row col old h⟩

/-- setting a bit to the value it has is a no-op -/
theorem dim_bit_set_noop (buf : List Nat) (dim row col : Nat) (on : Bool)
    (h : getBit buf dim row col = some on) : setBit buf dim row col on = some buf :=
  setBit_noop buf dim row col on h

example : setBit [3, 5, 0, 0, 0, 0] 16 2 4 true = some [3, 5, 0, 64, 0, 0] := by decide

/-- non-vacuity: a 3×5 matrix of 2-byte cells behind its 2-byte header -/
example : setEntry ([3, 5] ++ List.replicate 30 0) 16 2 4 0xffff 2 = some ([3, 5] ++ List.replicate 28 0 ++ [255, 255]) := by
  decide
example : (pairEncode 256 (2 ^ 32)).1 = 40 ∧ colWidthOf 40 = 5 := by decide

end Varint.Props.C10
