import Varint.Lemmas.DimBits
import Varint.Lemmas.Dimension
import Varint.Bridge.Dim
/-
  C10 — dimension headers round-trip and matrix cells are independent.
-/
namespace Varint.Props.C10
open Varint Varint.Dim

/-! ## (rows, cols) packed into one integer -/

theorem packDim_some (m d : Nat) (h : packDim m = some d) : 1 ≤ d ∧ d ≤ 8 ∧ m < 16 ^ d := by
  unfold packDim at h
  repeat' split at h
  all_goals (first | (cases h; omega) | cases h)

/-- every pair of 32-bit coordinates packs, and unpacks to itself -/
theorem dim_pack_roundtrip (r c : Nat) (hr : r < 2 ^ 32) (hc : c < 2 ^ 32) :
    ∃ p d, pack r c = some (p, d) ∧ unpack p d = (r, c) ∧ p < 2 ^ 64 := by
  have hm : max r c < 16 ^ 8 := by
    have : (16 : Nat) ^ 8 = 2 ^ 32 := by rfl
    omega
  have hsome : ∃ d, packDim (max r c) = some d := by
    unfold packDim
    repeat' split
    all_goals (first | exact ⟨_, rfl⟩ | omega)
  obtain ⟨d, hd⟩ := hsome
  obtain ⟨h1, h8, hlt⟩ := packDim_some _ _ hd
  have hrd : r < 16 ^ d := by omega
  have hcd : c < 16 ^ d := by omega
  have hpos : 0 < 16 ^ d := Nat.pow_pos (by omega)
  have h16 : 16 ^ d ≤ 2 ^ 32 := by
    have : (16 : Nat) ^ 8 = 2 ^ 32 := by rfl
    rw [← this]; exact Nat.pow_le_pow_right (by omega) h8
  have hsmall : r * 16 ^ d + c < 2 ^ 64 := by
    have : r * 16 ^ d ≤ (2 ^ 32 - 1) * 2 ^ 32 := Nat.mul_le_mul (by omega) h16
    omega
  refine ⟨(r * 16 ^ d + c) % 2 ^ 64, d, by simp [pack, hd], ?_, Nat.mod_lt _ (by omega)⟩
  rw [Nat.mod_eq_of_lt hsmall]
  unfold unpack
  rw [Nat.mul_comm, Nat.mul_add_div hpos, Nat.div_eq_of_lt hcd, Nat.mul_add_mod, Nat.mod_eq_of_lt hcd]
  simp

/-- packing fails exactly when a coordinate does not fit 32 bits -/
theorem dim_pack_fails_iff (r c : Nat) : pack r c = none ↔ (2 ^ 32 ≤ r ∨ 2 ^ 32 ≤ c) := by
  have e : (16 : Nat) ^ 8 = 2 ^ 32 := by rfl
  unfold pack
  constructor
  · intro h
    cases hd : packDim (max r c) with
    | some d => rw [hd] at h; simp at h
    | none =>
      unfold packDim at hd
      repeat' split at hd
      all_goals (first | (cases hd; done) | omega)
  · intro h
    have : packDim (max r c) = none := by
      unfold packDim
      repeat' split
      all_goals (first | rfl | omega)
    simp [this]

/-! ## the pair byte and the variable-width header -/

/-- all 72 (row width 0–8 × column width 1–8) combinations, either sparse flag -/
theorem dim_pair_byte_all (wr wc : Nat) (s : Bool) (hwr : wr ≤ 8) (hwc1 : 1 ≤ wc) (hwc8 : wc ≤ 8) :
    rowWidthOf (pairByte wr wc s) = wr ∧ colWidthOf (pairByte wr wc s) = wc ∧ pairByte wr wc s < 256 := by
  unfold rowWidthOf colWidthOf pairByte
  cases s <;> simp <;> omega

/-- header: decodes to the pair that was encoded, occupies exactly rowWidth + colWidth bytes,
    and the pair byte announces exactly those widths -/
theorem dim_pair_roundtrip (rows cols : Nat) (hr : rows < 2 ^ 64) (hc1 : 1 ≤ cols) (hc : cols < 2 ^ 64)
    (rest : List Nat) :
    let (dim, hdr) := pairEncode rows cols
    pairDecode (hdr ++ rest) dim = some (rows, cols) ∧ hdr.length = hdrLen dim ∧
    rowWidthOf dim = widthRows rows ∧ colWidthOf dim = extLen cols ∧ hdrLen dim ≤ 16 := by
  have hwr : widthRows rows ≤ 8 := by
    unfold widthRows; split
    · omega
    · exact extLen_le_8 hr
  have hwc := extLen_le_8 hc
  have hwc1 := extLen_pos cols
  obtain ⟨e1, e2, _⟩ := dim_pair_byte_all (widthRows rows) (extLen cols) false hwr hwc1 hwc
  show pairDecode (leBytes (rowWidthOf (pairDim rows cols)) rows ++ leBytes (colWidthOf (pairDim rows cols)) cols ++ rest)
        (pairDim rows cols) = some (rows, cols) ∧ _
  unfold pairDim hdrLen
  rw [e1, e2]
  refine ⟨?_, by simp, rfl, rfl, by omega⟩
  unfold pairDecode
  simp only [e1, e2]
  rw [List.append_assoc, takeExact_append _ _ (leBytes_length _ _), List.drop_left' (leBytes_length _ _),
    takeExact_append _ _ (leBytes_length _ _)]
  simp only [Option.some.injEq, Prod.mk.injEq]
  constructor
  · unfold widthRows
    split
    · rename_i h0; subst h0; simp [leBytes, ofLe]
    · exact ofLe_leBytes_of_lt (lt_pow_extLen rows)
  · exact ofLe_leBytes_of_lt (lt_pow_extLen cols)

/-! ## matrix cells -/

/-- writing an unsigned entry (1–8 bytes; float/double cells are the 4/8-byte case on their IEEE
    bits) makes a read of that cell return the written value -/
theorem dim_cell_get_set (buf out : List Nat) (dim row col v w : Nat) (hv : v < 256 ^ w)
    (h : setEntry buf dim row col v w = some out) : getEntry out dim row col w = some v := by
  unfold setEntry at h
  cases hk : cellIndex buf dim row col with
  | none => rw [hk] at h; cases h
  | some k =>
    rw [hk] at h
    simp only [] at h
    have hlen := writeAt_length _ _ _ _ h
    have htake := take_writeAt _ _ _ _ (hdrLen dim) h (by omega)
    unfold getEntry
    rw [cellIndex_congr out buf dim row col htake hlen, hk]
    simp only []
    have := readAt_writeAt_same _ _ _ _ h
    rw [leBytes_length] at this
    rw [this]
    simp [ofLe_leBytes_of_lt hv]

/-- …and changes no other cell and no header byte -/
theorem dim_cells_disjoint (buf out : List Nat) (dim row col v w row' col' cols : Nat) (hw : 1 ≤ w)
    (hcols : ∀ r c, r ≠ 0 → cellIndex buf dim r c = some (r * cols + c))
    (hc : col < cols) (hc' : col' < cols) (hne : (row, col) ≠ (row', col'))
    (h : setEntry buf dim row col v w = some out) :
    getEntry out dim row' col' w = getEntry buf dim row' col' w ∧
    out.take (hdrLen dim) = buf.take (hdrLen dim) ∧ out.length = buf.length := by
  have hidx : ∀ r c, cellIndex buf dim r c = some (r * cols + c) := by
    intro r c
    by_cases hr : r = 0
    · subst hr; simp [cellIndex]
    · exact hcols r c hr
  unfold setEntry at h
  rw [hidx row col] at h
  simp only [] at h
  have hlen := writeAt_length _ _ _ _ h
  have htake := take_writeAt _ _ _ _ (hdrLen dim) h (by omega)
  refine ⟨?_, htake, hlen⟩
  unfold getEntry
  rw [cellIndex_congr out buf dim row' col' htake hlen, hidx row' col']
  simp only []
  have hk : row * cols + col ≠ row' * cols + col' := by
    intro he
    obtain ⟨h1, h2⟩ := index_inj cols row col row' col' hc hc' he
    exact hne (by rw [h1, h2])
  rw [readAt_writeAt_disjoint _ _ _ _ _ _ h]
  rw [leBytes_length]
  rcases Nat.lt_or_gt_of_ne hk with hlt | hgt
  · right
    have : (row * cols + col + 1) * w ≤ (row' * cols + col') * w := Nat.mul_le_mul_right w hlt
    rw [Nat.add_mul] at this; omega
  · left
    have : (row' * cols + col' + 1) * w ≤ (row * cols + col) * w := Nat.mul_le_mul_right w hgt
    rw [Nat.add_mul] at this; omega


/-! ## bit cells -/

/-- writing a bit cell makes a read of it return the written bit -/
theorem dim_bit_get_set (buf out : List Nat) (dim row col : Nat) (on : Bool)
    (h : setBit buf dim row col on = some out) : getBit out dim row col = some on :=
  getBit_setBit buf out dim row col on h

/-- …and changes no other bit cell, no other byte, no header byte, and keeps bytes < 256 -/
theorem dim_bit_isolated (buf out : List Nat) (dim row col k : Nat) (on : Bool)
    (hk : cellIndex buf dim row col = some k) (h : setBit buf dim row col on = some out) :
    (∀ k', k' ≠ k →
      (out[hdrLen dim + k' / 8]?).map (fun b => decide (b / 2 ^ (k' % 8) % 2 = 1)) =
      (buf[hdrLen dim + k' / 8]?).map (fun b => decide (b / 2 ^ (k' % 8) % 2 = 1))) ∧
    (∀ j, j ≠ hdrLen dim + k / 8 → out[j]? = buf[j]?) ∧
    out.length = buf.length ∧
    out.take (hdrLen dim) = buf.take (hdrLen dim) ∧
    ((∀ x ∈ buf, x < 256) → ∀ x ∈ out, x < 256) :=
  setBit_other_bits buf out dim row col k on hk h

/-- the same statement on (row, col) coordinates, with the hypotheses of `dim_cells_disjoint` -/
theorem dim_bit_cells_disjoint (buf out : List Nat) (dim row col row' col' cols : Nat) (on : Bool)
    (hcols : ∀ r c, r ≠ 0 → cellIndex buf dim r c = some (r * cols + c))
    (hc : col < cols) (hc' : col' < cols) (hne : (row, col) ≠ (row', col'))
    (h : setBit buf dim row col on = some out) :
    getBit out dim row' col' = getBit buf dim row' col' ∧
    out.take (hdrLen dim) = buf.take (hdrLen dim) ∧ out.length = buf.length :=
  dim_bits_disjoint buf out dim row col row' col' cols on hcols hc hc' hne h

/-- toggle returns the old bit, stores its complement, and toggling twice restores the buffer -/
theorem dim_bit_toggle (buf out : List Nat) (dim row col : Nat) (old : Bool)
    (h : toggleBit buf dim row col = some (out, old)) :
    getBit buf dim row col = some old ∧ getBit out dim row col = some (!old) ∧
    out.length = buf.length ∧ out.take (hdrLen dim) = buf.take (hdrLen dim) ∧
    toggleBit out dim row col = some (buf, !old) :=
  let ⟨a, b, c, d⟩ := toggleBit_spec buf out dim row col old h
  ⟨a, b, c, d, toggleBit_toggleBit buf out dim row col old h⟩

/-- setting a bit to the value it has is a no-op -/
theorem dim_bit_set_noop (buf : List Nat) (dim row col : Nat) (on : Bool)
    (h : getBit buf dim row col = some on) : setBit buf dim row col on = some buf :=
  setBit_noop buf dim row col on h

example : setBit [3, 5, 0, 0, 0, 0] 16 2 4 true = some [3, 5, 0, 64, 0, 0] := by decide

/-- non-vacuity: a 3×5 matrix of 2-byte cells behind its 2-byte header -/
example : setEntry ([3, 5] ++ List.replicate 30 0) 16 2 4 0xffff 2 = some ([3, 5] ++ List.replicate 28 0 ++ [255, 255]) := by
  decide
example : (pairEncode 256 (2 ^ 32)).1 = 40 ∧ colWidthOf 40 = 5 := by decide

/-! ## C10 on the code itself: src/varintDimension.c machine-translated from the CURRENT source
    (Varint.Gen.C.dim*; bridge theorems in Varint/Bridge/Dim.lean). `bufOf buf` is a byte buffer seen as memory,
    `applyStores buf st` the buffer after the C's stores. -/

open Varint.Gen.C Varint.Bridge Varint.Bridge.Dim in
/-- **(rows, cols) packed into one integer, on the translated C**: every pair of 32-bit coordinates packs (result
    true, level 1..8) and `varintDimensionUnpack` of the packed value at that level returns the pair; a coordinate of 33
    bits or more makes `varintDimensionPack` return false without storing anything. Every fuel ≥ 9. -/
theorem c_dimension_pack_roundtrip (r c fuel : Nat) (hr : r < 2 ^ 64) (hc : c < 2 ^ 64) (hf : 9 ≤ fuel) :
    (r < 2 ^ 32 → c < 2 ^ 32 → ∃ p d, dimPack fuel r c = some (1, some p, some d) ∧ 1 ≤ d ∧ d ≤ 8 ∧ p < 2 ^ 64 ∧
      dimUnpack p d = (some r, some c)) ∧
    ((2 ^ 32 ≤ r ∨ 2 ^ 32 ≤ c) → dimPack fuel r c = some (0, none, none)) := by
  have hp := dimPack_eq r c fuel hr hc hf
  constructor
  · intro hr32 hc32
    obtain ⟨p, d, h1, h2, h3⟩ := dim_pack_roundtrip r c hr32 hc32
    have hd : ∃ dd, packDim (max r c) = some dd ∧ dd = d := by
      unfold pack at h1
      cases hx : packDim (max r c) with
      | none => rw [hx] at h1; simp at h1
      | some dd =>
        rw [hx] at h1
        simp only [Option.map_some, Option.some.injEq, Prod.mk.injEq] at h1
        exact ⟨dd, rfl, h1.2⟩
    obtain ⟨dd, hdd, rfl⟩ := hd
    obtain ⟨d1, d8, _⟩ := packDim_some _ _ hdd
    rw [h1] at hp
    refine ⟨p, dd, hp, d1, d8, h3, ?_⟩
    rw [dimUnpack_eq p dd h3 d1 d8, h2]
  · intro h
    rw [(dim_pack_fails_iff r c).mpr h] at hp
    exact hp

open Varint.Gen.C Varint.Bridge Varint.Bridge.Dim Varint.Bridge.External in
/-- **the variable-width dimension header on the translated C**: `varintDimensionPairEncode` returns a pair byte that
    announces exactly the widths used, stores each of the rowWidth + colWidth header bytes exactly once and nothing beyond,
    and `varintDimensionPairDecode` of any memory holding those bytes returns (rows, cols). Every 64-bit row count
    (0 = vector), every column count 1 ≤ cols < 2^64, every fuel ≥ 8. -/
theorem c_dimension_header_roundtrip (rows cols fuel : Nat) (hr : rows < 2 ^ 64) (hc1 : 1 ≤ cols) (hc : cols < 2 ^ 64)
    (hf : 8 ≤ fuel) (mem : Nat → Nat)
    (hm : ∀ i, i < (pairEncode rows cols).2.length → mem i = (pairEncode rows cols).2.getD i 0) :
    ∃ st, dimPairEncode fuel rows cols = some ((pairEncode rows cols).1, st) ∧ Writes st (pairEncode rows cols).2 ∧
      (pairEncode rows cols).2.length = hdrLen (pairEncode rows cols).1 ∧
      rowWidthOf (pairEncode rows cols).1 = widthRows rows ∧ colWidthOf (pairEncode rows cols).1 = extLen cols ∧
      dimPairDecode mem (pairEncode rows cols).1 = (some rows, some cols) := by
  obtain ⟨st, h1, h2⟩ := dimPairEncode_eq rows cols fuel hr hc1 hc hf
  have hrt := dim_pair_roundtrip rows cols hr hc1 hc []
  simp only [List.append_nil] at hrt
  obtain ⟨hdec, hlen, hw1, hw2, h16⟩ := hrt
  refine ⟨st, h1, h2, hlen, hw1, hw2, ?_⟩
  have hwr : rowWidthOf (pairEncode rows cols).1 ≤ 8 := by
    rw [hw1]; unfold widthRows; split
    · omega
    · exact extLen_le_8 hr
  have hbytes : ∀ b ∈ (pairEncode rows cols).2, b < 256 := by
    intro b hb
    unfold pairEncode at hb
    simp only [List.mem_append] at hb
    rcases hb with hb | hb
    · exact leBytes_lt _ _ b hb
    · exact leBytes_lt _ _ b hb
  have hmem : ∀ i, i < rowWidthOf (pairEncode rows cols).1 + colWidthOf (pairEncode rows cols).1 →
      mem i = Varint.Bridge.Tagged.bufOf (pairEncode rows cols).2 i := by
    intro i hi
    unfold hdrLen at hlen
    exact hm i (by omega)
  rw [dimPairDecode_eq mem _ hwr (by
    intro i hi
    rw [hmem i hi]
    exact Varint.Bridge.Tagged.bufOf_lt _ hbytes i)]
  have e1 : (List.range (rowWidthOf (pairEncode rows cols).1)).map mem =
      (List.range (rowWidthOf (pairEncode rows cols).1)).map
        (fun i => Varint.Bridge.Tagged.bufOf (pairEncode rows cols).2 (0 + i)) := by
    apply List.map_congr_left
    intro i hi
    rw [Nat.zero_add]
    exact hmem i (by have := List.mem_range.mp hi; omega)
  have e2 : (List.range (colWidthOf (pairEncode rows cols).1)).map
        (fun i => mem (rowWidthOf (pairEncode rows cols).1 + i)) =
      (List.range (colWidthOf (pairEncode rows cols).1)).map
        (fun i => Varint.Bridge.Tagged.bufOf (pairEncode rows cols).2 (rowWidthOf (pairEncode rows cols).1 + i)) := by
    apply List.map_congr_left
    intro i hi
    exact hmem _ (by have := List.mem_range.mp hi; omega)
  unfold hdrLen at hlen
  rw [e1, e2, range_map_bufOf _ 0 _ (by omega), range_map_bufOf _ _ _ (by omega)]
  unfold pairDecode takeExact at hdec
  simp only [] at hdec
  rw [if_pos (by omega), if_pos (by simp; omega)] at hdec
  simp only [Option.some.injEq, Prod.mk.injEq] at hdec
  simp only [List.drop_zero]
  rw [hdec.1, hdec.2]

open Varint.Gen.C Varint.Bridge Varint.Bridge.Dim Varint.Bridge.Tagged in
/-- **bit cells on the translated C**: `varintDimensionPairEntrySetBit` makes exactly one store, inside the buffer,
    after which `varintDimensionPairEntryGetBit` of that cell returns the written bit (true sets, false clears); the
    header bytes and the buffer length are unchanged -/
theorem c_dimension_bit_set_get {buf : List Nat} {dim row col k : Nat} (h : CellOK buf dim row col k) (on : Bool) :
    ∃ nb, dimEntrySetBit (bufOf buf) row col (if on then 1 else 0) dim = [(hdrLen dim + k / 8, nb)] ∧
      hdrLen dim + k / 8 < buf.length ∧
      dimEntryGetBit (bufOf (applyStores buf [(hdrLen dim + k / 8, nb)])) row col dim = (if on then 1 else 0) ∧
      (applyStores buf [(hdrLen dim + k / 8, nb)]).take (hdrLen dim) = buf.take (hdrLen dim) ∧
      (applyStores buf [(hdrLen dim + k / 8, nb)]).length = buf.length := by
  obtain ⟨nb, h1, h2⟩ := dimEntrySetBit_eq h on
  obtain ⟨_, _, hlen, htake, hbytes⟩ := dim_bit_isolated buf _ dim row col k on h.idx h2
  have hget := dim_bit_get_set buf _ dim row col on h2
  have hok : CellOK (applyStores buf [(hdrLen dim + k / 8, nb)]) dim row col k :=
    { bytes := hbytes h.bytes, hdr := by rw [hlen]; exact h.hdr, wr := h.wr, row64 := h.row64, col64 := h.col64,
      idx := by rw [cellIndex_congr _ buf dim row col htake hlen]; exact h.idx, k64 := h.k64,
      inside := by rw [hlen]; exact h.inside }
  obtain ⟨g1, g2⟩ := dimEntryGetBit_eq hok
  refine ⟨nb, h1, h.inside, ?_, htake, hlen⟩
  rw [hget] at g1
  simp only [Option.some.injEq] at g1
  cases on with
  | true =>
    have : dimEntryGetBit (bufOf (applyStores buf [(hdrLen dim + k / 8, nb)])) row col dim = 1 := by
      have := g1; simp at this; exact this
    simp [this]
  | false =>
    have : ¬ dimEntryGetBit (bufOf (applyStores buf [(hdrLen dim + k / 8, nb)])) row col dim = 1 := by
      have := g1; simp at this; exact this
    simp only [Bool.false_eq_true, if_false]
    omega

open Varint.Gen.C Varint.Bridge Varint.Bridge.Dim Varint.Bridge.Tagged in
/-- **toggle on the translated C** returns the previous value of the bit and leaves it flipped -/
theorem c_dimension_bit_toggle {buf : List Nat} {dim row col k : Nat} (h : CellOK buf dim row col k) :
    ∃ r nb, dimEntryToggleBit (bufOf buf) row col dim = (r, [(hdrLen dim + k / 8, nb)]) ∧
      r = dimEntryGetBit (bufOf buf) row col dim ∧
      getBit (applyStores buf [(hdrLen dim + k / 8, nb)]) dim row col = some (!decide (r = 1)) := by
  obtain ⟨r, nb, h1, hr, h2⟩ := dimEntryToggleBit_eq h
  obtain ⟨g1, g2⟩ := dimEntryGetBit_eq h
  obtain ⟨a, b, _⟩ := dim_bit_toggle buf _ dim row col _ h2
  refine ⟨r, nb, h1, ?_, b⟩
  rw [g1] at a
  simp only [Option.some.injEq, decide_eq_decide] at a
  by_cases c : r = 1
  · have := a.mpr c; omega
  · have : ¬ dimEntryGetBit (bufOf buf) row col dim = 1 := fun e => c (a.mp e)
    omega

open Varint.Gen.C Varint.Bridge Varint.Bridge.Dim Varint.Bridge.Tagged in
/-- **unsigned entries of 1–8 bytes on the translated C** (float / double cells are the 4- / 8-byte case on their IEEE
    bits): after `varintDimensionPairEntrySetUnsigned` a `varintDimensionPairEntryGetUnsigned` of that cell returns the
    written value; the stores leave every header byte and the buffer length unchanged -/
theorem c_dimension_entry_set_get (buf : List Nat) (hb : ∀ b ∈ buf, b < 256) (dim row col v w k : Nat)
    (hlen : hdrLen dim ≤ buf.length) (hwr : rowWidthOf dim ≤ 8) (hidx : cellIndex buf dim row col = some k)
    (h1 : 1 ≤ w) (h8 : w ≤ 8) (hin : hdrLen dim + k * w + w ≤ buf.length) (h64 : buf.length < 2 ^ 64)
    (hv : v < 256 ^ w) :
    let out := applyStores buf (dimEntrySetUnsigned (bufOf buf) row col v w dim)
    dimEntryGetUnsigned (bufOf out) row col w dim = v ∧ out.take (hdrLen dim) = buf.take (hdrLen dim) ∧
      out.length = buf.length := by
  intro out
  have hset := dimEntrySetUnsigned_eq buf hb dim row col v w k hlen hwr hidx h1 h8 hin h64
  have hget := dim_cell_get_set buf out dim row col v w hv hset
  have hl : out.length = buf.length := by
    unfold setEntry at hset; rw [hidx] at hset; exact writeAt_length _ _ _ _ hset
  have ht : out.take (hdrLen dim) = buf.take (hdrLen dim) := by
    unfold setEntry at hset; rw [hidx] at hset
    exact take_writeAt _ _ _ _ (hdrLen dim) hset (by omega)
  have hbo : ∀ b ∈ out, b < 256 := by
    have hs := hset
    unfold setEntry at hs; rw [hidx] at hs
    simp only [] at hs
    unfold writeAt at hs
    rw [if_pos (by rw [leBytes_length]; exact hin)] at hs
    simp only [Option.some.injEq] at hs
    intro b hbm
    rw [show out = _ from hs.symm] at hbm
    simp only [List.mem_append] at hbm
    rcases hbm with (hbm | hbm) | hbm
    · exact hb b (List.mem_of_mem_take hbm)
    · exact leBytes_lt _ _ b hbm
    · exact hb b (List.mem_of_mem_drop hbm)
  have hidx' : cellIndex out dim row col = some k := by
    rw [cellIndex_congr out buf dim row col ht hl]; exact hidx
  have := dimEntryGetUnsigned_eq out hbo dim row col w k (by rw [hl]; exact hlen) hwr hidx' h1 h8
    (by rw [hl]; exact hin) (by rw [hl]; exact h64)
  rw [hget] at this
  simp only [Option.some.injEq] at this
  exact ⟨this.symm, ht, hl⟩

end Varint.Props.C10
