import Varint.Gen.Statics
import Varint.Model.FOR
import Varint.Model.Adaptive
/-
  C15 — results depend only on the arguments (no hidden state, no stale memory) — PARTIAL.
  What a theorem can carry:
    * "no hidden state": the list of writable objects with static storage, regenerated from `nm` over the
      objects built from the working tree on every run, is empty;
    * the one place where the C text reads a caller-supplied structure that may be uninitialised — the
      `varintFORMeta *` of `varintFOREncode`, trusted when its `count` equals `count` — is a parameter `ρ` of the
      model, and the result is independent of it whenever the call analyses afresh (as the adaptive layer's
      zero-initialised struct forces) or was handed the analysis of the same values (the documented use);
    * every model function is a function of its arguments by construction; that the implementation equals the
      model in every order, with every stack/heap residue and under memcheck is the correspondence run.
  What it cannot: whether the list of residue sites is complete and what the compiler does with an
  uninitialised read are facts about the binary (see DESIGN.md).
-/
namespace Varint.Props.C15
open Varint

/-- no writable static storage anywhere in the library: a call cannot leave state behind for the next one -/
theorem no_mutable_statics : Gen.writableStatics = [] := by decide

/-- `varintFOREncode(dst, values, count, meta)` with the caller's struct `ρ` as it is found in memory:
    used as is when its `count` field happens to equal `count`, otherwise overwritten by a fresh analysis -/
def forEncodeWith (ρ : FOR.Meta) (xs : List Nat) : List Nat × FOR.Meta :=
  if ρ.count ≠ xs.length then (FOR.enc xs, FOR.analyze xs)
  else (Tagged.enc ρ.minValue ++ [ρ.offsetWidth % 256] ++ Tagged.enc ρ.count ++
          FOR.offsets ρ.minValue ρ.offsetWidth xs, ρ)

/-- any two residues that do not claim to be an analysis of `count` values give the same bytes and metadata -/
theorem for_encode_residue_free (ρ ρ' : FOR.Meta) (xs : List Nat) (h : ρ.count ≠ xs.length)
    (h' : ρ'.count ≠ xs.length) : forEncodeWith ρ xs = forEncodeWith ρ' xs := by
  unfold forEncodeWith
  rw [if_pos h, if_pos h']

/-- the adaptive layer hands over a zero-initialised struct: for every non-empty input the FOR arm is the
    residue-free encoder -/
theorem adaptive_for_arm_residue_free (xs : List Nat) (h : xs ≠ []) :
    forEncodeWith ⟨0, 0, 0, 0, 0, 0⟩ xs = (FOR.enc xs, FOR.analyze xs) := by
  unfold forEncodeWith
  have : (0 : Nat) ≠ xs.length := by
    cases xs with
    | nil => exact absurd rfl h
    | cons a t => simp
  rw [if_pos this]

/-- the documented use (metadata produced by `varintFORAnalyze` on the same values) is the same encoder too -/
theorem for_encode_with_analysis (xs : List Nat) (hw : (FOR.analyze xs).offsetWidth < 256) :
    (forEncodeWith (FOR.analyze xs) xs).1 = FOR.enc xs := by
  unfold forEncodeWith
  have : ¬ (FOR.analyze xs).count ≠ xs.length := by simp [FOR.analyze]
  rw [if_neg this]
  simp only [FOR.enc, Nat.mod_eq_of_lt hw]

/-- the automatic encoder is a function of the value list alone (stated for the record: the model has no
    other input; the implementation is compared with it under every perturbation) -/
theorem adaptive_encode_deterministic (xs ys : List Nat) (h : xs = ys) : Adaptive.encode xs = Adaptive.encode ys := by
  rw [h]

end Varint.Props.C15
