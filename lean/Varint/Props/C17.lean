import Varint.Model.Sched
import Varint.Gen.Statics
/-
  C17 — stateless codecs are safe to call concurrently — PARTIAL.
  Theorem (`schedule_independence`): for ANY number of threads, ANY schedule and ANY step functions that read
  only their footprint and write only what they own, with pairwise disjoint writable regions that nobody else
  reads (shared inputs are read-only, outputs private): what a thread computes — its local state and every
  byte it can see, in particular its whole output — is exactly what it computes running alone. Together with
  `no_mutable_statics` (the library has no writable static storage, regenerated from the object files every
  run) this is the logic of the property. That the compiled codecs really touch nothing outside their
  arguments (the premise) and the absence of data races under the real memory model are facts about the
  binary: observed by the ThreadSanitizer run of harness/vh_threads.c (16 threads, shared inputs).
-/
namespace Varint.Props.C17
open Varint.Sched

variable {σ : Type}

theorem agree_refl (T : Nat → Thr σ) (t : Nat) (c : Cfg σ) : Agree T t c c := ⟨rfl, fun _ _ => rfl⟩

theorem agree_trans (T : Nat → Thr σ) (t : Nat) {a b c : Cfg σ} (h1 : Agree T t a b) (h2 : Agree T t b c) :
    Agree T t a c := ⟨h1.1.trans h2.1, fun x hx => (h1.2 x hx).trans (h2.2 x hx)⟩

theorem agree_symm (T : Nat → Thr σ) (t : Nat) {a b : Cfg σ} (h : Agree T t a b) : Agree T t b a :=
  ⟨h.1.symm, fun x hx => (h.2 x hx).symm⟩

/-- a step of the thread itself preserves "looks the same to it" -/
theorem step_agree (T : Nat → Thr σ) (t : Nat) (c c' : Cfg σ) (h : Agree T t c c') :
    Agree T t (stepT T c t) (stepT T c' t) := by
  have hs : (T t).step (c.loc t) c.mem = (T t).step (c'.loc t) c'.mem := by
    rw [h.1]; exact (T t).reads_foot _ _ _ h.2
  refine ⟨by simp [stepT, hs], ?_⟩
  intro a ha
  simp only [stepT, hs]
  cases hw : ((T t).step (c'.loc t) c'.mem).2 with
  | none => simpa [write] using h.2 a ha
  | some p =>
    obtain ⟨x, v⟩ := p
    simp only [write]
    by_cases hx : a = x
    · simp [hx]
    · simp [hx, h.2 a ha]

/-- a step of another thread is invisible -/
theorem other_agree (T : Nat → Thr σ) (hI : Independent T) (t u : Nat) (htu : t ≠ u) (c : Cfg σ) :
    Agree T t (stepT T c u) c := by
  refine ⟨by simp [stepT, htu], ?_⟩
  intro a ha
  simp only [stepT]
  cases hw : ((T u).step (c.loc u) c.mem).2 with
  | none => rfl
  | some p =>
    obtain ⟨x, v⟩ := p
    simp only [write]
    by_cases hx : a = x
    · subst hx
      have hst : (T u).step (c.loc u) c.mem = (((T u).step (c.loc u) c.mem).1, some (a, v)) := by
        rw [← hw]
      exact absurd ha (hI t u htu a ((T u).writes_owned _ _ _ _ _ hst))
    · simp [hx]

theorem solo_congr (T : Nat → Thr σ) (t n : Nat) (c c' : Cfg σ) (h : Agree T t c c') :
    Agree T t (solo T c t n) (solo T c' t n) := by
  induction n generalizing c c' with
  | zero => exact h
  | succ n ih => exact ih _ _ (step_agree T t c c' h)

/-- **Schedule independence.** Under every interleaving, thread `t` ends in the local state and sees the
    memory (its inputs and all of its own output) that it reaches running alone for as many steps as the
    schedule gave it — whatever the other threads do and however many there are. -/
theorem schedule_independence (T : Nat → Thr σ) (hI : Independent T) (t : Nat) (sched : List Nat) (c : Cfg σ) :
    Agree T t (run T c sched) (solo T c t (sched.count t)) := by
  induction sched generalizing c with
  | nil => exact agree_refl T t c
  | cons u s ih =>
    simp only [run]
    by_cases hu : u = t
    · subst hu
      rw [List.count_cons_self]
      exact ih (stepT T c u)
    · have hne : t ≠ u := fun e => hu e.symm
      rw [List.count_cons_of_ne hu]
      exact agree_trans T t (ih (stepT T c u)) (solo_congr T t _ _ _ (other_agree T hI t u hne c))

/-- corollary in the property's words: two schedules that give `t` the same number of steps give it the same
    result -/
theorem result_schedule_free (T : Nat → Thr σ) (hI : Independent T) (t : Nat) (s s' : List Nat) (c : Cfg σ)
    (h : s.count t = s'.count t) : Agree T t (run T c s) (run T c s') := by
  have h1 := schedule_independence T hI t s c
  have h2 := schedule_independence T hI t s' c
  rw [h] at h1
  exact agree_trans T t h1 (agree_symm T t h2)

/-- the library keeps no writable static storage (shared hidden state would falsify the premise) -/
theorem no_shared_statics : Varint.Gen.writableStatics = [] := by decide

/-- non-vacuity: two threads copying a shared cell (address 0) into their own cells (1 and 2) -/
def copier (dst : Nat) : Thr Nat where
  step := fun s m => (s + 1, if s = 0 then some (dst, m 0) else none)
  foot := fun a => a = 0 ∨ a = dst
  owns := fun a => a = dst
  owns_foot := fun _ h => Or.inr h
  reads_foot := fun s m m' h => by simp [h 0 (Or.inl rfl)]
  writes_owned := fun s m s' a v h => by
    by_cases hs : s = 0
    · simp [hs] at h; exact h.2.1.symm
    · simp [hs] at h

example : Independent (fun t => copier (t + 1)) := by
  intro t u htu a ha hf
  simp only [copier] at ha hf
  rcases hf with h0 | h1 <;> omega

end Varint.Props.C17
