import Varint.Lemmas.Bitstream
import Varint.Bridge.Bits
import Varint.Bridge.BitsSigned
import Varint.Lemmas.External
/-
  C11 — bitstream writes are exact and isolated.
  `W` is the slot width (8, 16, 32 or 64 — any positive width in fact); a bit offset is written
  `i*W + o` (word `i`, `o` bits from its most significant end); `ws` is the slot array.
-/
namespace Varint.Props.C11
open Varint Varint.Bitstream

/-- the words the range [off, off+n) overlaps exist -/
def InRange (W i o n : Nat) (ws : List Nat) : Prop := (if n ≤ W - o then i else i + 1) < ws.length

/-- a read at the same offset and width returns the written value — any prior contents -/
theorem bits_get_set (W i o n v : Nat) (ws : List Nat) (hW : 0 < W) (ho : o < W) (hn1 : 1 ≤ n) (hnW : n ≤ W)
    (hv : v < 2 ^ n) (hr : InRange W i o n ws) :
    get W (set W ws (i * W + o) n v) (i * W + o) n = v :=
  get_set W i o n v ws hW ho hn1 hnW hv hr

/-- no bit outside [off, off+n) changes (bit `r` of word `j` is stream position j*W + r) -/
theorem bits_outside (W i o n v : Nat) (ws : List Nat) (j r : Nat) (hW : 0 < W) (ho : o < W) (hr : r < W)
    (hn1 : 1 ≤ n) (hnW : n ≤ W) (hv : v < 2 ^ n) (hrg : InRange W i o n ws)
    (hout : j * W + r < i * W + o ∨ i * W + o + n ≤ j * W + r) :
    bitAt W (set W ws (i * W + o) n v) j r = bitAt W ws j r :=
  bit_outside W i o n v ws j r hW ho hr hn1 hnW hv hrg hout

/-- only the word(s) overlapping the range are written: word off/W, and word off/W+1 only when the
    range crosses into it; the stream keeps its length and its words stay W-bit words -/
theorem bits_words_touched (W off n v : Nat) (ws : List Nat) (j : Nat)
    (hj : j ≠ off / W ∧ (n ≤ W - off % W ∨ j ≠ off / W + 1)) :
    (set W ws off n v).getD j 0 = ws.getD j 0 ∧ (set W ws off n v).length = ws.length :=
  set_other_words W off n v ws j hj

theorem bits_words_stay_words (W i o n v : Nat) (ws : List Nat) (hW : 0 < W) (ho : o < W) (hn1 : 1 ≤ n)
    (hnW : n ≤ W) (hv : v < 2 ^ n) (hws : ∀ j, ws.getD j 0 < 2 ^ W) (j : Nat) (hr : InRange W i o n ws) :
    (set W ws (i * W + o) n v).getD j 0 < 2 ^ W :=
  set_words_lt W i o n v ws hW ho hn1 hnW hv hws j hr

/-- signed helpers: every value representable with sign + magnitude in an n-bit field is restored,
    and the prepared value fits the field -/
theorem bits_signed_roundtrip (n : Nat) (hn : 2 ≤ n) (s : Int)
    (hlo : -(2 ^ (n - 1) : Int) < s) (hhi : s < (2 ^ (n - 1) : Int)) :
    restoreSigned n (prepareSigned n s) = s ∧ prepareSigned n s < 2 ^ n := by
  have := sign_restore_prepare (n - 1) s hlo hhi
  have e : n - 1 + 1 = n := by omega
  rw [e] at this
  exact this

/-! ## the same statements on the machine translation of src/varintBitstream.h (64-bit slots)

`Gen.C.bitstreamSet/Get` are regenerated from the header on every run; `Bridge.Bits` proves them equal to the model
for every bit offset below 2^64 — also the offsets beyond 2^31 and 2^32 bits that no test reaches. -/

/-- write then read at the same offset and width through the C code returns the value — any prior contents -/
theorem c_bits_get_set (i o n v : Nat) (ws : List Nat) (hws : ∀ w ∈ ws, w < 2 ^ 64) (hoff : i * 64 + o < 2 ^ 64)
    (ho : o < 64) (hn1 : 1 ≤ n) (hn : n ≤ 64) (hv : v < 2 ^ n) (hr : InRange 64 i o n ws) :
    Varint.Gen.C.bitstreamGet
      (Varint.Bridge.Bits.memOf (Varint.Bridge.applyStores ws
        (Varint.Gen.C.bitstreamSet (Varint.Bridge.Bits.memOf ws) (i * 64 + o) n v))) (i * 64 + o) n = v := by
  rw [Varint.Bridge.Bits.bitstreamSet_eq ws hws _ n v hoff hn1 hn hv,
    Varint.Bridge.Bits.bitstreamGet_eq _ ?_ _ n hoff hn1 hn]
  · exact bits_get_set 64 i o n v ws (by omega) ho hn1 hn hv hr
  · intro w hw
    obtain ⟨j, hj, rfl⟩ := List.getElem_of_mem hw
    have := bits_words_stay_words 64 i o n v ws (by omega) ho hn1 hn hv (fun j => ?_) j hr
    · rw [List.getD_eq_getElem?_getD, List.getElem?_eq_getElem hj] at this; simpa using this
    · exact Varint.Bridge.Bits.memOf_lt ws hws j

/-- the C stores to slot off/64, and to slot off/64 + 1 only when the range crosses into it: nothing else -/
theorem c_bits_slots_stored (mem : Nat → Nat) (hm : ∀ j, mem j < 2 ^ 64) (off n v : Nat) (hoff : off < 2 ^ 64)
    (hn1 : 1 ≤ n) (hn : n ≤ 64) (hv : v < 2 ^ n) :
    (Varint.Gen.C.bitstreamSet mem off n v).map Prod.fst =
      if n ≤ 64 - off % 64 then [off / 64] else [off / 64, off / 64 + 1] := by
  rw [Varint.Bridge.Bits.bitstreamSet_stores mem hm off n v hoff hn1 hn hv]
  split <;> rfl

/-- no bit outside [off, off+n) changes when the C's stores are carried out -/
theorem c_bits_outside (i o n v : Nat) (ws : List Nat) (hws : ∀ w ∈ ws, w < 2 ^ 64) (hoff : i * 64 + o < 2 ^ 64)
    (j r : Nat) (ho : o < 64) (hr : r < 64) (hn1 : 1 ≤ n) (hn : n ≤ 64) (hv : v < 2 ^ n) (hrg : InRange 64 i o n ws)
    (hout : j * 64 + r < i * 64 + o ∨ i * 64 + o + n ≤ j * 64 + r) :
    bitAt 64 (Varint.Bridge.applyStores ws
      (Varint.Gen.C.bitstreamSet (Varint.Bridge.Bits.memOf ws) (i * 64 + o) n v)) j r = bitAt 64 ws j r := by
  rw [Varint.Bridge.Bits.bitstreamSet_eq ws hws _ n v hoff hn1 hn hv]
  exact bits_outside 64 i o n v ws j r (by omega) ho hr hn1 hn hv hrg hout

/-- non-vacuity: the documented 32-bit example, a write crossing a word boundary -/
example : InRange 32 0 24 12 [0, 0, 0, 0] := by unfold InRange; decide
example : get 32 (set 32 (set 32 [0, 0, 0, 0] 12 12 3000) 24 12 1500) 12 12 = 3000 := by decide
example : get 64 (set 64 [0, 0] 50 40 0xABCDEF1234) 50 40 = 0xABCDEF1234 := by decide


/-- **the signed helpers on the translated macros** (`_varintBitstreamPrepareSigned` / `_varintBitstreamRestoreSigned`,
    expanded from the CURRENT header): for every field width 2..63 and every negative value whose magnitude fits the
    field's n-1 value bits, the prepared value fits n bits and restoring it gives the value back; a stored value whose
    sign bit is clear is restored unchanged -/
theorem c_bits_signed_roundtrip (n : Nat) (h2 : 2 ≤ n) (h63 : n ≤ 63) (s : Int) (hneg : s < 0)
    (hlo : -(2 ^ (n - 1) : Int) < s) :
    Varint.Gen.C.bitsPrepareSigned s n < 2 ^ n ∧
    Varint.Gen.C.bitsRestoreSigned (Varint.Gen.C.bitsPrepareSigned s n) n = s ∧
    (∀ r, r < 2 ^ (n - 1) → Varint.Gen.C.bitsRestoreSigned r n = (r : Int)) := by
  have hcast : ((2 ^ (n - 1) : Nat) : Int) = (2 ^ (n - 1) : Int) := by simp
  have hpos : 0 < 2 ^ (n - 1) := Nat.two_pow_pos _
  have hmag : (-s).toNat < 2 ^ (n - 1) := by omega
  obtain ⟨m1, m2⟩ := bits_signed_roundtrip n h2 s hlo (by omega)
  rw [Varint.Bridge.BitsSigned.bitsPrepareSigned_eq s n h2 h63 hneg hmag]
  refine ⟨m2, ?_, ?_⟩
  · rw [Varint.Bridge.BitsSigned.bitsRestoreSigned_eq _ n h2 h63 m2]; exact m1
  · intro r hr
    have hpn : 2 ^ (n - 1) < 2 ^ n := Nat.pow_lt_pow_right (by omega) (by omega)
    rw [Varint.Bridge.BitsSigned.bitsRestoreSigned_eq r n h2 h63 (by omega)]
    unfold Bitstream.restoreSigned
    have : r / 2 ^ (n - 1) = 0 := Nat.div_eq_of_lt hr
    rw [this]
    simp

end Varint.Props.C11
