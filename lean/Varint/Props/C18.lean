import Varint.Model.Alloc
import Varint.Lemmas.Bitmap
/-
  C18 — a failed allocation is reported, never a crash, leak or silent corruption.
  What a theorem can carry: the bitmap object's behaviour under EVERY refusal pattern (any subset of
  its allocation requests refused, over any history): each Add/Remove is atomic (fully applied and
  reported, or the member set is untouched and `false` is returned), the invariant of C08 survives, and a
  set operation returns either NULL or exactly the right set. Crashes and leaks are facts about the
  binary: they are observed by the harness (k-th-request sweep under ASan with a live-block count).
-/
namespace Varint.Props.C18
open Varint Varint.Bitmap Varint.Alloc

/-- what "applied" means, independent of the container type -/
def Applied (b b' : BO) (v : Nat) : Prop :=
  b'.st.bits = setBit b.st.bits v ∧ b'.st.card = b.st.card + 1 ∧ b.st.bits.testBit v = false
def Untouched (b b' : BO) : Prop := b'.st.bits = b.st.bits ∧ b'.st.card = b.st.card

theorem addArr_atomic (f : Oracle) (i : Nat) (b : BO) (v : Nat) :
    ((addArr f i b v).2.1 = true ∧ Applied b (addArr f i b v).1 v) ∨
    ((addArr f i b v).2.1 = false ∧ Untouched b (addArr f i b v).1) := by
  unfold addArr Applied Untouched
  by_cases h1 : b.st.bits.testBit v = true
  · simp [h1]
  · have h1' : b.st.bits.testBit v = false := by simpa using h1
    rw [if_neg h1]
    by_cases h2 : b.st.card ≥ arrayMax
    · rw [if_pos h2]
      by_cases h3 : f i = true <;> simp [h3, h1']
    · rw [if_neg h2]
      by_cases h4 : b.cap ≥ b.st.card + 1
      · simp [h4, h1']
      · rw [if_neg h4]
        by_cases h3 : f i = true <;> simp [h3, h1']

theorem addBm_atomic (b : BO) (v : Nat) :
    ((addBm b v).2 = true ∧ Applied b (addBm b v).1 v) ∨ ((addBm b v).2 = false ∧ Untouched b (addBm b v).1) := by
  unfold addBm Applied Untouched
  by_cases h1 : b.st.bits.testBit v = true
  · simp [h1]
  · have h1' : b.st.bits.testBit v = false := by simpa using h1
    simp [h1']

/-- Add under any refusal pattern: either applied and reported `true`, or the set is untouched and `false` is
    returned — never a half-inserted value, never `true` without the member -/
theorem add_atomic (f : Oracle) (i : Nat) (b : BO) (v : Nat) :
    ((addO f i b v).2.1 = true ∧ Applied b (addO f i b v).1 v) ∨
    ((addO f i b v).2.1 = false ∧ Untouched b (addO f i b v).1) := by
  unfold addO
  cases hty : b.st.ty <;> simp only []
  · exact addArr_atomic f i b v
  · exact addBm_atomic b v
  · by_cases h3 : f i = true
    · rw [if_pos h3]; right; simp [Untouched]
    · rw [if_neg h3]
      by_cases h2 : b.st.card ≥ arrayMax
      · rw [if_pos h2]
        have := addBm_atomic ⟨⟨.bitmap, b.st.card, b.st.bits⟩, b.cap⟩ v
        simpa [Applied, Untouched] using this
      · rw [if_neg h2]
        have := addArr_atomic f (i + 1) ⟨⟨.array, b.st.card, b.st.bits⟩, b.st.card + 1⟩ v
        simpa [Applied, Untouched] using this

def RApplied (b b' : BO) (v : Nat) : Prop :=
  b'.st.bits = clearBit b.st.bits v ∧ b'.st.card = b.st.card - 1 ∧ b.st.bits.testBit v = true

theorem remBm_atomic (f : Oracle) (i : Nat) (b : BO) (v : Nat) :
    ((remBm f i b v).2.1 = true ∧ RApplied b (remBm f i b v).1 v) ∨
    ((remBm f i b v).2.1 = false ∧ Untouched b (remBm f i b v).1) := by
  unfold remBm RApplied Untouched
  by_cases h1 : b.st.bits.testBit v = true
  · simp only [h1, Bool.not_true, Bool.false_eq_true, if_false]
    by_cases h2 : b.st.card - 1 < arrayMax
    · rw [if_pos h2]
      by_cases h3 : f i = true <;> simp [h3]
    · simp [h2]
  · have h1' : b.st.bits.testBit v = false := by simpa using h1
    simp [h1']

theorem remArr_atomic (b : BO) (v : Nat) :
    ((remArr b v).2 = true ∧ RApplied b (remArr b v).1 v) ∨ ((remArr b v).2 = false ∧ Untouched b (remArr b v).1) := by
  unfold remArr RApplied Untouched
  by_cases h1 : b.st.bits.testBit v = true
  · simp [h1]
  · have h1' : b.st.bits.testBit v = false := by simpa using h1
    simp [h1']

/-- Remove under any refusal pattern (a refused bitmap→array conversion does not undo the removal) -/
theorem remove_atomic (f : Oracle) (i : Nat) (b : BO) (v : Nat) :
    ((removeO f i b v).2.1 = true ∧ RApplied b (removeO f i b v).1 v) ∨
    ((removeO f i b v).2.1 = false ∧ Untouched b (removeO f i b v).1) := by
  unfold removeO
  cases hty : b.st.ty <;> simp only []
  · exact remArr_atomic b v
  · exact remBm_atomic f i b v
  · by_cases h3 : f i = true
    · rw [if_pos h3]; right; simp [Untouched]
    · rw [if_neg h3]
      by_cases h2 : b.st.card ≥ arrayMax
      · rw [if_pos h2]
        have := remBm_atomic f (i + 1) ⟨⟨.bitmap, b.st.card, b.st.bits⟩, b.cap⟩ v
        simpa [RApplied, Untouched] using this
      · rw [if_neg h2]
        have := remArr_atomic ⟨⟨.array, b.st.card, b.st.bits⟩, b.st.card⟩ v
        simpa [RApplied, Untouched] using this

theorem inv_of_eq {s t : St} (hb : t.bits = s.bits) (hc : t.card = s.card) (hi : Inv s) : Inv t :=
  ⟨by rw [hc, hb]; exact hi.card_eq, by rw [hb]; exact hi.small⟩

/-- the object stays internally consistent (counter = number of members, members are 16-bit) after an Add
    under any refusal pattern -/
theorem add_inv (f : Oracle) (i : Nat) (b : BO) (v : Nat) (hv : v < 65536) (hi : Inv b.st) :
    Inv (addO f i b v).1.st := by
  rcases add_atomic f i b v with ⟨_, hb, hc, hm⟩ | ⟨_, hb, hc⟩
  · refine ⟨?_, ?_⟩
    · rw [hc, hb]
      unfold popCount
      rw [countBelow_setBit _ _ _ hm, if_pos hv]
      have := hi.card_eq; unfold popCount at this; omega
    · intro w hw
      rw [hb, testBit_setBit, hi.small w hw]
      have : ¬ v = w := by omega
      simp [this]
  · exact inv_of_eq hb hc hi

theorem remove_inv (f : Oracle) (i : Nat) (b : BO) (v : Nat) (hv : v < 65536) (hi : Inv b.st) :
    Inv (removeO f i b v).1.st := by
  rcases remove_atomic f i b v with ⟨_, hb, hc, hm⟩ | ⟨_, hb, hc⟩
  · refine ⟨?_, ?_⟩
    · rw [hc, hb]
      unfold popCount
      have h1 := countBelow_clearBit b.st.bits v 65536 hm
      rw [if_pos hv] at h1
      have := hi.card_eq; unfold popCount at this; omega
    · intro w hw
      rw [hb, testBit_clearBit, hi.small w hw]
      simp
  · exact inv_of_eq hb hc hi

/-- with no refusal the oracle model IS the C08 model (same container type, counter and members) -/
theorem add_no_refusal (i : Nat) (b : BO) (v : Nat) :
    (addO noneFail i b v).1.st = (Bitmap.add b.st v).1 ∧ (addO noneFail i b v).2.1 = (Bitmap.add b.st v).2 := by
  obtain ⟨⟨ty, card, bits⟩, cap⟩ := b
  unfold addO Bitmap.add unrun addArr addBm noneFail
  cases ty <;> simp only []
  · by_cases h1 : bits.testBit v = true
    · simp [h1]
    · have h1' : bits.testBit v = false := by simpa using h1
      by_cases h2 : card ≥ arrayMax
      · simp [h1', h2]
      · by_cases h4 : cap ≥ card + 1 <;> simp [h1', h2, h4]
  · by_cases h1 : bits.testBit v = true
    · simp [h1]
    · have h1' : bits.testBit v = false := by simpa using h1
      simp [h1']
  · by_cases h2 : card ≥ arrayMax
    · by_cases h1 : bits.testBit v = true
      · simp [h1, h2]
      · have h1' : bits.testBit v = false := by simpa using h1
        simp [h1', h2]
    · by_cases h1 : bits.testBit v = true
      · simp [h1, h2]
      · have h1' : bits.testBit v = false := by simpa using h1
        simp [h1', h2]

/-- membership after an Add under any refusal pattern, in the two possible outcomes -/
theorem add_bits (f : Oracle) (i : Nat) (b : BO) (v : Nat) :
    (∀ w, (addO f i b v).1.st.bits.testBit w = (b.st.bits.testBit w || decide (v = w))) ∨
    ((addO f i b v).2.1 = false ∧ (addO f i b v).1.st.bits = b.st.bits) := by
  rcases add_atomic f i b v with ⟨_, hb, _, _⟩ | ⟨hr, hb, _⟩
  · left; intro w; rw [hb, testBit_setBit]
  · right; exact ⟨hr, hb⟩

/-- the loop of the set operations: NULL, or the destination united with ALL listed values and consistent —
    never a result with members missing, whatever requests are refused -/
theorem addAllChecked_spec (f : Oracle) (vs : List Nat) (i : Nat) (b : BO) (hvs : ∀ v ∈ vs, v < 65536)
    (hi : Inv b.st) (r : BO) (j : Nat) (h : addAllChecked f i b vs = (some r, j)) :
    (∀ w, r.st.bits.testBit w = (b.st.bits.testBit w || decide (w ∈ vs))) ∧ Inv r.st := by
  induction vs generalizing i b with
  | nil =>
    simp [addAllChecked] at h
    obtain ⟨h1, _⟩ := h
    subst h1
    exact ⟨fun w => by simp, hi⟩
  | cons v vs ih =>
    unfold addAllChecked at h
    by_cases hc : (addO f i b v).2.1 = false ∧ (addO f i b v).1.st.bits.testBit v = false
    · rw [if_pos hc] at h; simp at h
    · rw [if_neg hc] at h
      have hinv := add_inv f i b v (hvs v (by simp)) hi
      obtain ⟨h1, h2⟩ := ih _ _ (fun x hx => hvs x (by simp [hx])) hinv h
      refine ⟨?_, h2⟩
      intro w
      rw [h1 w]
      rcases add_bits f i b v with hall | ⟨hr, hb⟩
      · rw [hall w]
        by_cases hvw : v = w
        · subst hvw; simp
        · have : ¬ w = v := fun e => hvw e.symm
          simp [hvw, this]
      · rw [hb]
        have hv : b.st.bits.testBit v = true := by
          rw [hb] at hc
          by_cases hx : b.st.bits.testBit v = true
          · exact hx
          · exact absurd ⟨hr, by simpa using hx⟩ hc
        by_cases hvw : w = v
        · subst hvw; simp [hv]
        · simp [hvw]

/-- Create / Clone: NULL or the right object -/
theorem create_spec (f : Oracle) (i : Nat) : (createO f i).1 = none ∨ (createO f i).1 = some initBO := by
  unfold createO; split
  · left; rfl
  · split
    · left; rfl
    · right; rfl

theorem clone_spec (f : Oracle) (i : Nat) (b : BO) : (cloneO f i b).1 = none ∨ (cloneO f i b).1 = some b := by
  unfold cloneO; split
  · left; rfl
  · split
    · left; rfl
    · right; rfl

/-- Or under any refusal pattern: NULL, or a consistent set holding every member of `a` and every value the C
    iterates out of `b` -/
theorem or_spec (f : Oracle) (i : Nat) (a b r : BO) (j : Nat) (hi : Inv a.st)
    (hm : ∀ v ∈ members b.st, v < 65536) (h : orO f i a b = (some r, j)) :
    (∀ w, r.st.bits.testBit w = (a.st.bits.testBit w || decide (w ∈ members b.st))) ∧ Inv r.st := by
  unfold orO at h
  rcases hcl : cloneO f i a with ⟨c, j0⟩
  rw [hcl] at h
  cases c with
  | none => simp at h
  | some c =>
    simp only [] at h
    have : c = a := by
      have := clone_spec f i a
      rw [hcl] at this
      simpa using this
    subst this
    exact addAllChecked_spec f _ _ _ hm hi r j h

/-- And / Xor / AndNot (built from an empty set): NULL, or exactly the listed members -/
theorem from_members_spec (f : Oracle) (i : Nat) (bits : Nat) (r : BO) (j : Nat)
    (hm : ∀ v ∈ members ⟨.array, 0, bits⟩, v < 65536) (h : fromMembersO f i bits = (some r, j)) :
    (∀ w, r.st.bits.testBit w = decide (w ∈ members ⟨.array, 0, bits⟩)) ∧ Inv r.st := by
  unfold fromMembersO at h
  rcases hcr : createO f i with ⟨c, j0⟩
  rw [hcr] at h
  cases c with
  | none => simp at h
  | some c =>
    simp only [] at h
    have : c = initBO := by
      have := create_spec f i
      rw [hcr] at this
      simpa using this
    subst this
    have := addAllChecked_spec f _ _ _ hm inv_init r j h
    refine ⟨fun w => ?_, this.2⟩
    rw [this.1 w]
    simp [initBO, Bitmap.init]

/-- Or, in terms of the two member sets: NULL or exactly the union -/
theorem or_exact (f : Oracle) (i : Nat) (a b r : BO) (j : Nat) (ha : Inv a.st) (hb : Inv b.st)
    (h : orO f i a b = (some r, j)) :
    (∀ w, r.st.bits.testBit w = (a.st.bits.testBit w || b.st.bits.testBit w)) ∧ Inv r.st := by
  obtain ⟨h1, h2⟩ := or_spec f i a b r j ha (members_lt b.st) h
  refine ⟨fun w => ?_, h2⟩
  rw [h1 w, bits_of_members b.st hb.small w]

/-- And / Xor / AndNot under any refusal pattern: NULL, or exactly intersection / symmetric difference /
    difference of the member sets, with the invariant -/
theorem and_exact (f : Oracle) (i : Nat) (a b r : BO) (j : Nat) (ha : Inv a.st) (h : andO f i a b = (some r, j)) :
    (∀ w, r.st.bits.testBit w = (a.st.bits.testBit w && b.st.bits.testBit w)) ∧ Inv r.st := by
  obtain ⟨h1, h2⟩ := from_members_spec f i _ r j (members_lt _) h
  refine ⟨fun w => ?_, h2⟩
  rw [h1 w, bits_of_members ⟨.array, 0, a.st.bits &&& b.st.bits⟩ (fun v hv => by
    simp only []; rw [Nat.testBit_and, ha.small v hv]; rfl) w]
  simp only [Nat.testBit_and]

theorem xor_exact (f : Oracle) (i : Nat) (a b r : BO) (j : Nat) (ha : Inv a.st) (hb : Inv b.st)
    (h : xorO f i a b = (some r, j)) :
    (∀ w, r.st.bits.testBit w = (a.st.bits.testBit w ^^ b.st.bits.testBit w)) ∧ Inv r.st := by
  obtain ⟨h1, h2⟩ := from_members_spec f i _ r j (members_lt _) h
  refine ⟨fun w => ?_, h2⟩
  rw [h1 w, bits_of_members ⟨.array, 0, a.st.bits ^^^ b.st.bits⟩ (fun v hv => by
    simp only []; rw [Nat.testBit_xor, ha.small v hv, hb.small v hv]; rfl) w]
  simp only [Nat.testBit_xor]

theorem andNot_exact (f : Oracle) (i : Nat) (a b r : BO) (j : Nat) (ha : Inv a.st)
    (h : andNotO f i a b = (some r, j)) :
    (∀ w, r.st.bits.testBit w = (a.st.bits.testBit w && !b.st.bits.testBit w)) ∧ Inv r.st := by
  obtain ⟨h1, h2⟩ := from_members_spec f i _ r j (members_lt _) h
  refine ⟨fun w => ?_, h2⟩
  rw [h1 w, bits_of_members ⟨.array, 0, a.st.bits ^^^ (a.st.bits &&& b.st.bits)⟩ (fun v hv => by
    simp only []; rw [Nat.testBit_xor, Nat.testBit_and, ha.small v hv]; rfl) w]
  simp only [Nat.testBit_xor, Nat.testBit_and]
  cases a.st.bits.testBit w <;> cases b.st.bits.testBit w <;> rfl

/-- histories: the invariant survives any sequence of Adds / Removes under any refusal pattern -/
theorem addMany_inv (f : Oracle) (vs : List Nat) (i : Nat) (b : BO) (hvs : ∀ v ∈ vs, v < 65536) (hi : Inv b.st) :
    Inv (addManyO f i b vs).1.st := by
  induction vs generalizing i b with
  | nil => simpa [addManyO] using hi
  | cons v vs ih =>
    unfold addManyO
    exact ih _ _ (fun x hx => hvs x (by simp [hx])) (add_inv f i b v (hvs v (by simp)) hi)

theorem removeMany_inv (f : Oracle) (vs : List Nat) (i : Nat) (b : BO) (hvs : ∀ v ∈ vs, v < 65536) (hi : Inv b.st) :
    Inv (removeManyO f i b vs).1.st := by
  induction vs generalizing i b with
  | nil => simpa [removeManyO] using hi
  | cons v vs ih =>
    unfold removeManyO
    exact ih _ _ (fun x hx => hvs x (by simp [hx])) (remove_inv f i b v (hvs v (by simp)) hi)

/-- the stateless allocating calls: success exactly when none of their requests is refused -/
theorem abortAll_spec (f : Oracle) (i n : Nat) : (abortAll f i n).1 = true ↔ ∀ k, k < n → f (i + k) = false := by
  simp [abortAll]

/-- non-vacuity: refusing the growth request of a full 16-element array leaves it untouched and reports false -/
example : (addO (failAt 0) 0 ⟨⟨.array, 16, 2 ^ 16 - 1⟩, 16⟩ 100).2.1 = false := by decide
example : (addO noneFail 0 ⟨⟨.array, 16, 2 ^ 16 - 1⟩, 16⟩ 100).1.cap = 32 := by decide

end Varint.Props.C18
