import Varint.Lemmas.Packed
/-
  C09 — packed bit arrays: element isolation and sorted-array semantics.
  `S` = slot width, `b` = value width, `ws` = the slot array, element `i` = bits [i*b, i*b+b) of the
  slots read as one little-endian bit string (`Packed.val`). `Fits` says the element's one or two
  slots exist and it spans at most two slots (the property's domain).
-/
namespace Varint.Props.C09
open Varint Varint.Packed Varint.BF

/-- reading element i after writing it returns exactly the written value -/
theorem packed_get_set (S b i v : Nat) (ws : List Nat) (hS : 0 < S) (hb : 1 ≤ b) (hv : v < 2 ^ b)
    (hw : WordsOK S ws) (hf : Fits S b i ws) :
    get S b (set S b ws i v) i = v := by
  obtain ⟨hval, hok, _⟩ := val_set S b i v ws hS hb hv hw hf
  rw [get_eq S b i _ hS hb hok hf.2, hval, extract_insert _ _ _ _ hv]

/-- every other element keeps its value -/
theorem packed_set_other (S b i j v : Nat) (ws : List Nat) (hS : 0 < S) (hb : 1 ≤ b) (hv : v < 2 ^ b)
    (hw : WordsOK S ws) (hf : Fits S b i ws) (hij : i ≠ j) (hspan : b ≤ 2 * S - j * b % S) :
    get S b (set S b ws i v) j = get S b ws j := by
  obtain ⟨hval, hok, _⟩ := val_set S b i v ws hS hb hv hw hf
  rw [get_eq S b j _ hS hb hok hspan, get_eq S b j ws hS hb hw hspan, hval]
  apply extract_insert_disjoint _ _ _ _ _ _ hv
  rcases Nat.lt_or_gt_of_ne hij with h | h
  · right
    have : (i + 1) * b ≤ j * b := Nat.mul_le_mul_right b h
    rw [Nat.succ_mul] at this; exact this
  · left
    have : (j + 1) * b ≤ i * b := Nat.mul_le_mul_right b h
    rw [Nat.succ_mul] at this; exact this

/-- every storage bit outside the element — inside or after the array — is unchanged,
    the slot array keeps its length and its slots stay S-bit words -/
theorem packed_bits_outside (S b i v : Nat) (ws : List Nat) (hS : 0 < S) (hb : 1 ≤ b) (hv : v < 2 ^ b)
    (hw : WordsOK S ws) (hf : Fits S b i ws) (p : Nat) (hp : p < i * b ∨ i * b + b ≤ p) :
    (val S (set S b ws i v)).testBit p = (val S ws).testBit p ∧
    (set S b ws i v).length = ws.length ∧ WordsOK S (set S b ws i v) := by
  obtain ⟨hval, hok, hlen⟩ := val_set S b i v ws hS hb hv hw hf
  exact ⟨by rw [hval, testBit_insert_outside _ _ _ _ _ hv hp], hlen, hok⟩

/-- only the one or two slots the element occupies are written -/
theorem packed_slots_touched (S b i v : Nat) (ws : List Nat) (k : Nat)
    (hk : k ≠ i * b / S ∧ (b ≤ S - i * b % S ∨ k ≠ i * b / S + 1)) :
    (set S b ws i v).getD k 0 = ws.getD k 0 := by
  unfold Packed.set
  simp only []
  by_cases hc : b ≤ S - i * b % S
  · rw [if_pos hc]; exact Bitstream.getD_set_ne _ _ _ _ (Ne.symm hk.1)
  · rw [if_neg hc]
    have h2 : k ≠ i * b / S + 1 := by
      rcases hk.2 with h | h
      · exact absurd h hc
      · exact h
    rw [Bitstream.getD_set_ne _ _ _ _ (Ne.symm h2), Bitstream.getD_set_ne _ _ _ _ (Ne.symm hk.1)]

/-- increment (non-negative, result in range) and halve change only the addressed element -/
theorem packed_incr_half_local (S b i j d : Nat) (ws : List Nat) (hS : 0 < S) (hb : 1 ≤ b)
    (hw : WordsOK S ws) (hf : Fits S b i ws) (hij : i ≠ j) (hspan : b ≤ 2 * S - j * b % S)
    (hd : get S b ws i + d < 2 ^ b) :
    get S b (setIncr S b ws i d) i = get S b ws i + d ∧
    get S b (setIncr S b ws i d) j = get S b ws j ∧
    get S b (setHalf S b ws i) i = get S b ws i / 2 ∧
    get S b (setHalf S b ws i) j = get S b ws j := by
  have hcur : get S b ws i < 2 ^ b := by omega
  have hhalf : get S b ws i / 2 < 2 ^ b := by omega
  refine ⟨packed_get_set S b i _ ws hS hb hd hw hf, packed_set_other S b i j _ ws hS hb hd hw hf hij hspan, ?_, ?_⟩
  · unfold setHalf
    split
    · rename_i h0; rw [h0]
    · exact packed_get_set S b i _ ws hS hb hhalf hw hf
  · unfold setHalf
    split
    · rfl
    · exact packed_set_other S b i j _ ws hS hb hhalf hw hf hij hspan

/-- lower-bound search: on a sorted prefix the result is the least index whose element is ≥ v -/
theorem packed_lower_bound (S b : Nat) (ws : List Nat) (len v : Nat)
    (hsorted : ∀ k k', k ≤ k' → k' < len → get S b ws k ≤ get S b ws k') :
    let r := bsearch S b ws len v
    r ≤ len ∧ (∀ k, k < r → get S b ws k < v) ∧ (∀ k, r ≤ k → k < len → v ≤ get S b ws k) := by
  intro r
  have key : ∀ fuel lo hi, lo ≤ hi → hi ≤ len → hi - lo < fuel →
      (∀ k, k < lo → get S b ws k < v) → (∀ k, hi ≤ k → k < len → v ≤ get S b ws k) →
      let r := bsearchAux S b ws v fuel lo hi
      r ≤ len ∧ (∀ k, k < r → get S b ws k < v) ∧ (∀ k, r ≤ k → k < len → v ≤ get S b ws k) := by
    intro fuel
    induction fuel with
    | zero => intro lo hi _ _ h; omega
    | succ f ih =>
      intro lo hi hle hhi hfuel hlo hup
      simp only [bsearchAux]
      by_cases hlt : lo < hi
      · rw [if_pos hlt]
        by_cases hm : get S b ws ((lo + hi) / 2) < v
        · rw [if_pos hm]
          apply ih ((lo + hi) / 2 + 1) hi (by omega) hhi (by omega)
          · intro k hk
            have hmid : (lo + hi) / 2 < len := by omega
            have := hsorted k ((lo + hi) / 2) (by omega) hmid
            omega
          · exact hup
        · rw [if_neg hm]
          apply ih lo ((lo + hi) / 2) (by omega) (by omega) (by omega) hlo
          intro k hk hkl
          have := hsorted ((lo + hi) / 2) k hk hkl
          omega
      · rw [if_neg hlt]
        have : lo = hi := by omega
        subst this
        exact ⟨hhi, hlo, hup⟩
  exact key (len + 1) 0 len (by omega) (by omega) (by omega) (by intro k hk; omega) (by intro k h1 h2; omega)

/-- non-vacuity: the tree's own configuration (12-bit values in uint8_t slots), an element crossing slots -/
example : Fits 8 12 1 [0, 0, 0] := by unfold Fits; decide
example : get 8 12 (set 8 12 [255, 255, 255] 1 0xabc) 1 = 0xabc ∧ get 8 12 (set 8 12 [255, 255, 255] 1 0xabc) 0 = 0xfff := by
  decide

end Varint.Props.C09
