import Varint.Lemmas.PackedSeq
import Varint.Lemmas.Packed
import Varint.Bridge.Packed
import Varint.Bridge.Packed13
/-
  C09 — packed bit arrays: element isolation and sorted-array semantics.
  `S` = slot width, `b` = value width, `ws` = the slot array, element `i` = bits [i*b, i*b+b) of the
  slots read as one little-endian bit string (`Packed.val`). `Fits` says the element's one or two
  slots exist and it spans at most two slots (the property's domain).
-/
namespace Varint.Props.C09
open Varint Varint.Packed Varint.BF

/-- reading element i after writing it returns exactly the written value -/
theorem packed_get_set (S b i v : Nat) (ws : List Nat) (hS : 0 < S) (hb : 1 ≤ b) (hv : v < 2 ^ b)
    (hw : WordsOK S ws) (hf : Fits S b i ws) :
    get S b (set S b ws i v) i = v := by
  obtain ⟨hval, hok, _⟩ := val_set S b i v ws hS hb hv hw hf
  rw [get_eq S b i _ hS hb hok hf.2, hval, extract_insert _ _ _ _ hv]

/-- every other element keeps its value -/
theorem packed_set_other (S b i j v : Nat) (ws : List Nat) (hS : 0 < S) (hb : 1 ≤ b) (hv : v < 2 ^ b)
    (hw : WordsOK S ws) (hf : Fits S b i ws) (hij : i ≠ j) (hspan : b ≤ 2 * S - j * b % S) :
    get S b (set S b ws i v) j = get S b ws j := by
  obtain ⟨hval, hok, _⟩ := val_set S b i v ws hS hb hv hw hf
  rw [get_eq S b j _ hS hb hok hspan, get_eq S b j ws hS hb hw hspan, hval]
  apply extract_insert_disjoint _ _ _ _ _ _ hv
  rcases Nat.lt_or_gt_of_ne hij with h | h
  · right
    have : (i + 1) * b ≤ j * b := Nat.mul_le_mul_right b h
    rw [Nat.succ_mul] at this; exact this
  · left
    have : (j + 1) * b ≤ i * b := Nat.mul_le_mul_right b h
    rw [Nat.succ_mul] at this; exact this

/-- every storage bit outside the element — inside or after the array — is unchanged,
    the slot array keeps its length and its slots stay S-bit words -/
theorem packed_bits_outside (S b i v : Nat) (ws : List Nat) (hS : 0 < S) (hb : 1 ≤ b) (hv : v < 2 ^ b)
    (hw : WordsOK S ws) (hf : Fits S b i ws) (p : Nat) (hp : p < i * b ∨ i * b + b ≤ p) :
    (val S (set S b ws i v)).testBit p = (val S ws).testBit p ∧
    (set S b ws i v).length = ws.length ∧ WordsOK S (set S b ws i v) := by
  obtain ⟨hval, hok, hlen⟩ := val_set S b i v ws hS hb hv hw hf
  exact ⟨by rw [hval, testBit_insert_outside _ _ _ _ _ hv hp], hlen, hok⟩

/-- only the one or two slots the element occupies are written -/
theorem packed_slots_touched (S b i v : Nat) (ws : List Nat) (k : Nat)
    (hk : k ≠ i * b / S ∧ (b ≤ S - i * b % S ∨ k ≠ i * b / S + 1)) :
    (set S b ws i v).getD k 0 = ws.getD k 0 := by
  unfold Packed.set
  simp only []
  by_cases hc : b ≤ S - i * b % S
  · rw [if_pos hc]; exact Bitstream.getD_set_ne _ _ _ _ (Ne.symm hk.1)
  · rw [if_neg hc]
    have h2 : k ≠ i * b / S + 1 := by
      rcases hk.2 with h | h
      · exact absurd h hc
      · exact h
    rw [Bitstream.getD_set_ne _ _ _ _ (Ne.symm h2), Bitstream.getD_set_ne _ _ _ _ (Ne.symm hk.1)]

/-- increment (non-negative, result in range) and halve change only the addressed element -/
theorem packed_incr_half_local (S b i j d : Nat) (ws : List Nat) (hS : 0 < S) (hb : 1 ≤ b)
    (hw : WordsOK S ws) (hf : Fits S b i ws) (hij : i ≠ j) (hspan : b ≤ 2 * S - j * b % S)
    (hd : get S b ws i + d < 2 ^ b) :
    get S b (setIncr S b ws i d) i = get S b ws i + d ∧
    get S b (setIncr S b ws i d) j = get S b ws j ∧
    get S b (setHalf S b ws i) i = get S b ws i / 2 ∧
    get S b (setHalf S b ws i) j = get S b ws j := by
  have hcur : get S b ws i < 2 ^ b := by omega
  have hhalf : get S b ws i / 2 < 2 ^ b := by omega
  refine ⟨packed_get_set S b i _ ws hS hb hd hw hf, packed_set_other S b i j _ ws hS hb hd hw hf hij hspan, ?_, ?_⟩
  · unfold setHalf
    split
    · rename_i h0; rw [h0]
    · exact packed_get_set S b i _ ws hS hb hhalf hw hf
  · unfold setHalf
    split
    · rfl
    · exact packed_set_other S b i j _ ws hS hb hhalf hw hf hij hspan

/-- lower-bound search: on a sorted prefix the result is the least index whose element is ≥ v -/
theorem packed_lower_bound (S b : Nat) (ws : List Nat) (len v : Nat)
    (hsorted : ∀ k k', k ≤ k' → k' < len → get S b ws k ≤ get S b ws k') :
    let r := bsearch S b ws len v
    r ≤ len ∧ (∀ k, k < r → get S b ws k < v) ∧ (∀ k, r ≤ k → k < len → v ≤ get S b ws k) := by
  intro r
  have key : ∀ fuel lo hi, lo ≤ hi → hi ≤ len → hi - lo < fuel →
      (∀ k, k < lo → get S b ws k < v) → (∀ k, hi ≤ k → k < len → v ≤ get S b ws k) →
      let r := bsearchAux S b ws v fuel lo hi
      r ≤ len ∧ (∀ k, k < r → get S b ws k < v) ∧ (∀ k, r ≤ k → k < len → v ≤ get S b ws k) := by
    intro fuel
    induction fuel with
    | zero => intro lo hi _ _ h; omega
    | succ f ih =>
      intro lo hi hle hhi hfuel hlo hup
      simp only [bsearchAux]
      by_cases hlt : lo < hi
      · rw [if_pos hlt]
        by_cases hm : get S b ws ((lo + hi) / 2) < v
        · rw [if_pos hm]
          apply ih ((lo + hi) / 2 + 1) hi (by omega) hhi (by omega)
          · intro k hk
            have hmid : (lo + hi) / 2 < len := by omega
            have := hsorted k ((lo + hi) / 2) (by omega) hmid
            omega
          · exact hup
        · rw [if_neg hm]
          apply ih lo ((lo + hi) / 2) (by omega) (by omega) (by omega) hlo
          intro k hk hkl
          have := hsorted ((lo + hi) / 2) k hk hkl
          omega
      · rw [if_neg hlt]
        have : lo = hi := by omega
        subst this
        exact ⟨hhi, hlo, hup⟩
  exact key (len + 1) 0 len (by omega) (by omega) (by omega) (by intro k hk; omega) (by intro k h1 h2; omega)


/-! ## sorted-array semantics: the shifting loops refine list operations on `elems` (the first `n`
    elements read through `get`). `FitsN` = each of the n elements has its one or two slots;
    `WordsOK` = every slot value is below 2^S (preserved by every operation). -/

/-- positional insert = `List.insertIdx`; slot count unchanged; elements beyond and storage bits outside untouched -/
theorem packed_insert_refines (S b : Nat) (hS : 0 < S) (hb : 1 ≤ b) (ws : List Nat) (len off v : Nat)
    (hoff : off ≤ len) (hw : WordsOK S ws) (hf : FitsN S b ws (len + 1)) (hv : v < 2 ^ b) :
    elems S b (insertAt S b ws len off v) (len + 1) = (elems S b ws len).insertIdx off v ∧
    (insertAt S b ws len off v).length = ws.length ∧ WordsOK S (insertAt S b ws len off v) ∧
    (∀ j, len < j → Span S b j → get S b (insertAt S b ws len off v) j = get S b ws j) ∧
    (∀ p, (p < off * b ∨ (len + 1) * b ≤ p) →
      (val S (insertAt S b ws len off v)).testBit p = (val S ws).testBit p) :=
  ⟨elems_insertAt_insertIdx S b hS hb ws len off v hoff hw hf hv,
   (insertAt_spec S b hS hb ws len off v hoff hw hf hv).1,
   (insertAt_spec S b hS hb ws len off v hoff hw hf hv).2.1,
   fun j hj hs => insertAt_beyond S b hS hb ws len off v hoff hw hf hv j hj hs,
   fun p hp => insertAt_bits_outside S b hS hb ws len off v hoff hw hf hv p hp⟩

/-- positional delete = `List.eraseIdx` -/
theorem packed_delete_refines (S b : Nat) (hS : 0 < S) (hb : 1 ≤ b) (ws : List Nat) (len off : Nat)
    (hoff : off < len) (hw : WordsOK S ws) (hf : FitsN S b ws len) :
    elems S b (deleteAt S b ws len off) (len - 1) = (elems S b ws len).eraseIdx off ∧
    (deleteAt S b ws len off).length = ws.length ∧ WordsOK S (deleteAt S b ws len off) ∧
    (∀ p, (p < off * b ∨ (len - 1) * b ≤ p) →
      (val S (deleteAt S b ws len off)).testBit p = (val S ws).testBit p) :=
  ⟨elems_deleteAt S b hS hb ws len off hoff hw hf,
   (deleteAt_spec S b hS hb ws len off hoff hw hf).1,
   (deleteAt_spec S b hS hb ws len off hoff hw hf).2.1,
   fun p hp => deleteAt_bits_outside S b hS hb ws len off hoff hw hf p hp⟩

/-- sorted insert keeps the array sorted and adds exactly one copy of v (a permutation of v :: old) -/
theorem packed_insert_sorted (S b : Nat) (hS : 0 < S) (hb : 1 ≤ b) (ws : List Nat) (len v : Nat)
    (hw : WordsOK S ws) (hf : FitsN S b ws (len + 1)) (hv : v < 2 ^ b)
    (hsorted : (elems S b ws len).Pairwise (· ≤ ·)) :
    (elems S b (insertSorted S b ws len v) (len + 1)).Pairwise (· ≤ ·) ∧
    (elems S b (insertSorted S b ws len v) (len + 1)).Perm (v :: elems S b ws len) :=
  insertSorted_sorted_perm S b hS hb ws len v hw hf hv hsorted

/-- membership on a sorted array: found ⇔ present, and the index is the FIRST equal element -/
theorem packed_member_spec (S b : Nat) (ws : List Nat) (len v : Nat)
    (hsorted : (elems S b ws len).Pairwise (· ≤ ·)) :
    (member S b ws len v ≥ 0 ↔ v ∈ elems S b ws len) ∧
    (member S b ws len v ≥ 0 → ∃ m : Nat, member S b ws len v = (m : Int) ∧ m < len ∧ get S b ws m = v ∧
      ∀ k, k < m → get S b ws k ≠ v) ∧
    (v ∉ elems S b ws len → member S b ws len v = -1) :=
  ⟨member_nonneg_iff S b ws len v hsorted, member_first S b ws len v hsorted,
   member_neg_of_not_mem S b ws len v hsorted⟩

/-- delete-member removes the first occurrence and keeps the rest sorted; absent ⇒ untouched, false -/
theorem packed_delete_member (S b : Nat) (hS : 0 < S) (hb : 1 ≤ b) (ws : List Nat) (len v : Nat)
    (hw : WordsOK S ws) (hf : FitsN S b ws len) (hsorted : (elems S b ws len).Pairwise (· ≤ ·)) :
    (v ∈ elems S b ws len →
      (deleteMember S b ws len v).2 = true ∧
      elems S b (deleteMember S b ws len v).1 (len - 1) = (elems S b ws len).erase v ∧
      (elems S b (deleteMember S b ws len v).1 (len - 1)).Pairwise (· ≤ ·)) ∧
    (v ∉ elems S b ws len → deleteMember S b ws len v = (ws, false)) :=
  ⟨fun hm => let h := deleteMember_mem S b hS hb ws len v hw hf hsorted hm; ⟨h.1, h.2.2.2.1, h.2.2.2.2⟩,
   fun hm => deleteMember_not_mem S b ws len v hsorted hm⟩

example : elems 8 12 (insertSorted 8 12 [33, 225, 61, 188, 250, 255] 3 0x200) 4 = [0x121, 0x200, 0x3de, 0xabc] := by decide

/-- non-vacuity: the tree's own configuration (12-bit values in uint8_t slots), an element crossing slots -/
example : Fits 8 12 1 [0, 0, 0] := by unfold Fits; decide
example : get 8 12 (set 8 12 [255, 255, 255] 1 0xabc) 1 = 0xabc ∧ get 8 12 (set 8 12 [255, 255, 255] 1 0xabc) 0 = 0xfff := by
  decide

/-! ## C09 on the code itself: the default instantiation of src/varintPacked.h (12-bit values, uint32_t slots,
    `varintPacked12*`), machine-translated from the CURRENT header (Varint.Gen.C.packed12*; bridge theorems in
    Varint/Bridge/Packed.lean). `memOf ws` is the slot array seen as memory, `applyStores ws st` the array after the
    C's stores. -/
open Varint.Gen.C Varint.Bridge Varint.Bridge.Bits Varint.Bridge.Packed in
/-- **element isolation on the translated C**: after `varintPacked12Set(dst, i, v)` — whose stores all fall inside the
    slot array — `varintPacked12Get` returns `v` at `i` and the old value at every other index; every storage bit outside
    the element is unchanged -/
theorem c_packed12_set_get (ws : List Nat) (hw : WordsOK 32 ws) (i v : Nat) (hi : i < 2 ^ 32) (hv : v < 2 ^ 12)
    (hf : Fits 32 12 i ws) :
    (∀ p ∈ packed12Set (memOf ws) i v, p.1 < ws.length) ∧
    packed12Get (memOf (applyStores ws (packed12Set (memOf ws) i v))) i = v ∧
    (∀ j, j ≠ i → j < 2 ^ 32 →
      packed12Get (memOf (applyStores ws (packed12Set (memOf ws) i v))) j = packed12Get (memOf ws) j) ∧
    (∀ p, (p < i * 12 ∨ i * 12 + 12 ≤ p) →
      (val 32 (applyStores ws (packed12Set (memOf ws) i v))).testBit p = (val 32 ws).testBit p) := by
  have hset := packed12Set_eq ws hw i v hi hv
  obtain ⟨_, hok, _⟩ := val_set 32 12 i v ws (by omega) (by omega) hv hw hf
  refine ⟨packed12Set_inrange ws (memOf ws) (memOf_lt32 ws hw) i v hi hv hf, ?_, ?_, ?_⟩
  · rw [hset, packed12Get_eq _ hok i hi]
    exact packed_get_set 32 12 i v ws (by omega) (by omega) hv hw hf
  · intro j hji hj
    rw [hset, packed12Get_eq _ hok j hj, packed12Get_eq ws hw j hj]
    exact packed_set_other 32 12 i j v ws (by omega) (by omega) hv hw hf (fun e => hji e.symm) (by omega)
  · intro p hp
    rw [hset]
    exact (packed_bits_outside 32 12 i v ws (by omega) (by omega) hv hw hf p hp).1

open Varint.Gen.C Varint.Bridge Varint.Bridge.Bits Varint.Bridge.Packed in
/-- **sorted-array semantics on the translated C** (`varintPacked12Member`): on a sorted array of `len` < 2^31 elements
    the result is non-negative exactly when the value is present, and then it is the index of the FIRST equal element -/
theorem c_packed12_member (ws : List Nat) (hw : WordsOK 32 ws) (len v : Nat) (hlen : len < 2 ^ 32)
    (hsorted : (elems 32 12 ws len).Pairwise (· ≤ ·)) (fuel : Nat) (hfu : len < fuel) :
    ∃ r : Int, packed12Member fuel (memOf ws) len v = some r ∧ (r ≥ 0 ↔ v ∈ elems 32 12 ws len) ∧
      (r ≥ 0 → ∃ m : Nat, r = (m : Int) ∧ m < len ∧ packed12Get (memOf ws) m = v ∧
        ∀ k, k < m → packed12Get (memOf ws) k ≠ v) ∧ (v ∉ elems 32 12 ws len → r = -1) := by
  obtain ⟨h1, h2, h3⟩ := packed_member_spec 32 12 ws len v hsorted
  refine ⟨_, packed12Member_eq ws hw len v hlen fuel hfu, h1, ?_, h3⟩
  intro hr
  obtain ⟨m, e, hm, hg, hfirst⟩ := h2 hr
  refine ⟨m, e, hm, ?_, ?_⟩
  · rw [packed12Get_eq ws hw m (by omega)]; exact hg
  · intro k hk; rw [packed12Get_eq ws hw k (by omega)]; exact hfirst k hk

open Varint.Gen.C Varint.Bridge Varint.Bridge.Bits Varint.Bridge.Packed in
/-- **`varintPacked12InsertSorted` on the translated C**: every store falls inside the slot array, and the array it
    leaves is sorted and holds exactly one more copy of `v` -/
theorem c_packed12_insert_sorted (ws : List Nat) (hw : WordsOK 32 ws) (len v : Nat) (hlen : len < 2 ^ 32)
    (hf : FitsN 32 12 ws (len + 1)) (hv : v < 2 ^ 12) (hsorted : (elems 32 12 ws len).Pairwise (· ≤ ·))
    (fuel : Nat) (hfu : len < fuel) :
    ∃ st, packed12InsertSorted fuel (memOf ws) len v = some st ∧ (∀ p ∈ st, p.1 < ws.length) ∧
      (elems 32 12 (applyStores ws st) (len + 1)).Pairwise (· ≤ ·) ∧
      (elems 32 12 (applyStores ws st) (len + 1)).Perm (v :: elems 32 12 ws len) := by
  obtain ⟨st, h1, h2, h3⟩ := packed12InsertSorted_eq ws hw len v hlen hf hv fuel hfu
  obtain ⟨hs, hp⟩ := packed_insert_sorted 32 12 (by omega) (by omega) ws len v hw hf hv hsorted
  exact ⟨st, h1, h2, by rw [h3]; exact hs, by rw [h3]; exact hp⟩

open Varint.Gen.C Varint.Bridge Varint.Bridge.Bits Varint.Bridge.Packed in
/-- **`varintPacked12Insert` / `varintPacked12Delete` on the translated C** refine `List.insertIdx` / `List.eraseIdx`
    on the element list; all stores inside the slot array -/
theorem c_packed12_insert_delete (ws : List Nat) (hw : WordsOK 32 ws) (len off v : Nat) (hlen : len < 2 ^ 32 - 1)
    (hv : v < 2 ^ 12) (fuel : Nat) (hfu : len < fuel) :
    (off ≤ len → FitsN 32 12 ws (len + 1) →
      ∃ st, packed12Insert fuel (memOf ws) len off v = some st ∧ (∀ p ∈ st, p.1 < ws.length) ∧
        elems 32 12 (applyStores ws st) (len + 1) = (elems 32 12 ws len).insertIdx off v) ∧
    (off < len → FitsN 32 12 ws len →
      ∃ st, packed12Delete fuel (memOf ws) len off = some st ∧ (∀ p ∈ st, p.1 < ws.length) ∧
        elems 32 12 (applyStores ws st) (len - 1) = (elems 32 12 ws len).eraseIdx off) := by
  constructor
  · intro hoff hf
    obtain ⟨st, h1, h2, h3⟩ := packed12Insert_eq ws hw len off v hoff (by omega) hf hv fuel (by omega)
    exact ⟨st, h1, h2, by rw [h3]; exact (packed_insert_refines 32 12 (by omega) (by omega) ws len off v hoff hw hf hv).1⟩
  · intro hoff hf
    obtain ⟨st, h1, h2, h3⟩ := packed12Delete_eq ws hw len off hoff (by omega) hf fuel (by omega)
    exact ⟨st, h1, h2, by rw [h3]; exact (packed_delete_refines 32 12 (by omega) (by omega) ws len off hoff hw hf).1⟩

open Varint.Gen.C Varint.Bridge Varint.Bridge.Bits Varint.Bridge.Packed in
/-- **`varintPacked12DeleteMember` on the translated C**: present ⇒ true and the first occurrence is erased, the rest
    stays sorted; absent ⇒ false and not a single store -/
theorem c_packed12_delete_member (ws : List Nat) (hw : WordsOK 32 ws) (len v : Nat) (hlen : len < 2 ^ 32)
    (hf : FitsN 32 12 ws len) (hsorted : (elems 32 12 ws len).Pairwise (· ≤ ·)) (fuel : Nat) (hfu : len < fuel) :
    ∃ r st, packed12DeleteMember fuel (memOf ws) len v = some (r, st) ∧ (∀ p ∈ st, p.1 < ws.length) ∧
      (v ∈ elems 32 12 ws len → r = 1 ∧
        elems 32 12 (applyStores ws st) (len - 1) = (elems 32 12 ws len).erase v ∧
        (elems 32 12 (applyStores ws st) (len - 1)).Pairwise (· ≤ ·)) ∧
      (v ∉ elems 32 12 ws len → r = 0 ∧ applyStores ws st = ws) := by
  obtain ⟨r, st, h1, h2, h3, h4⟩ := packed12DeleteMember_eq ws hw len v hlen hf fuel hfu
  obtain ⟨hin, hout⟩ := packed_delete_member 32 12 (by omega) (by omega) ws len v hw hf hsorted
  refine ⟨r, st, h1, h2, ?_, ?_⟩
  · intro hm
    obtain ⟨a, b, c⟩ := hin hm
    rw [← h3] at a b c
    simp only [decide_eq_true_eq] at a
    exact ⟨a, b, c⟩
  · intro hm
    have e := hout hm
    rw [← h3] at e
    have e1 := congrArg Prod.fst e
    have e2 := congrArg Prod.snd e
    simp only [decide_eq_false_iff_not] at e1 e2
    exact ⟨by omega, e1⟩

open Varint.Gen.C Varint.Bridge Varint.Bridge.Bits Varint.Bridge.Packed in
/-- **`varintPacked12SetIncr` / `varintPacked12SetHalf` on the translated C** (non-negative increment whose result
    fits): the addressed element becomes old + d, resp. old / 2, and every other element keeps its value -/
theorem c_packed12_incr_half (ws : List Nat) (hw : WordsOK 32 ws) (i j d : Nat) (hi : i < 2 ^ 32) (hj : j < 2 ^ 32)
    (hf : Fits 32 12 i ws) (hij : i ≠ j) (hd : packed12Get (memOf ws) i + d < 2 ^ 12) :
    packed12Get (memOf (applyStores ws (packed12SetIncr (memOf ws) i (d : Int)))) i = packed12Get (memOf ws) i + d ∧
    packed12Get (memOf (applyStores ws (packed12SetIncr (memOf ws) i (d : Int)))) j = packed12Get (memOf ws) j ∧
    packed12Get (memOf (applyStores ws (packed12SetHalf (memOf ws) i))) i = packed12Get (memOf ws) i / 2 ∧
    packed12Get (memOf (applyStores ws (packed12SetHalf (memOf ws) i))) j = packed12Get (memOf ws) j := by
  rw [packed12Get_eq ws hw i hi] at hd ⊢
  rw [packed12Get_eq ws hw j hj]
  obtain ⟨a, b, c, e⟩ := packed_incr_half_local 32 12 i j d ws (by omega) (by omega) hw hf hij (by omega) hd
  have hok1 : WordsOK 32 (setIncr 32 12 ws i d) := (val_set 32 12 i _ ws (by omega) (by omega) hd hw hf).2.1
  have hok2 : WordsOK 32 (setHalf 32 12 ws i) := by
    unfold setHalf
    split
    · exact hw
    · exact (val_set 32 12 i _ ws (by omega) (by omega) (by omega) hw hf).2.1
  rw [packed12SetIncr_eq ws hw i d hi hd, packed12SetHalf_eq ws hw i hi, packed12Get_eq _ hok1 i hi,
    packed12Get_eq _ hok1 j hj, packed12Get_eq _ hok2 i hi, packed12Get_eq _ hok2 j hj]
  exact ⟨a, b, c, e⟩

/-! ## the same on a second instantiation of src/varintPacked.h whose width does not divide the slot (13-bit values, uint32_t slots,
    `varintPacked13*`), machine-translated from the CURRENT header (Varint.Gen.C.packed13*; bridge theorems in
    Varint/Bridge/Packed.lean). `memOf ws` is the slot array seen as memory, `applyStores ws st` the array after the
    C's stores. -/
open Varint.Gen.C Varint.Bridge Varint.Bridge.Bits Varint.Bridge.Packed13 in
/-- **element isolation on the translated C**: after `varintPacked13Set(dst, i, v)` — whose stores all fall inside the
    slot array — `varintPacked13Get` returns `v` at `i` and the old value at every other index; every storage bit outside
    the element is unchanged -/
theorem c_packed13_set_get (ws : List Nat) (hw : WordsOK 32 ws) (i v : Nat) (hi : i < 2 ^ 32) (hv : v < 2 ^ 13)
    (hf : Fits 32 13 i ws) :
    (∀ p ∈ packed13Set (memOf ws) i v, p.1 < ws.length) ∧
    packed13Get (memOf (applyStores ws (packed13Set (memOf ws) i v))) i = v ∧
    (∀ j, j ≠ i → j < 2 ^ 32 →
      packed13Get (memOf (applyStores ws (packed13Set (memOf ws) i v))) j = packed13Get (memOf ws) j) ∧
    (∀ p, (p < i * 13 ∨ i * 13 + 13 ≤ p) →
      (val 32 (applyStores ws (packed13Set (memOf ws) i v))).testBit p = (val 32 ws).testBit p) := by
  have hset := packed13Set_eq ws hw i v hi hv
  obtain ⟨_, hok, _⟩ := val_set 32 13 i v ws (by omega) (by omega) hv hw hf
  refine ⟨packed13Set_inrange ws (memOf ws) (memOf_lt32 ws hw) i v hi hv hf, ?_, ?_, ?_⟩
  · rw [hset, packed13Get_eq _ hok i hi]
    exact packed_get_set 32 13 i v ws (by omega) (by omega) hv hw hf
  · intro j hji hj
    rw [hset, packed13Get_eq _ hok j hj, packed13Get_eq ws hw j hj]
    exact packed_set_other 32 13 i j v ws (by omega) (by omega) hv hw hf (fun e => hji e.symm) (by omega)
  · intro p hp
    rw [hset]
    exact (packed_bits_outside 32 13 i v ws (by omega) (by omega) hv hw hf p hp).1

open Varint.Gen.C Varint.Bridge Varint.Bridge.Bits Varint.Bridge.Packed13 in
/-- **sorted-array semantics on the translated C** (`varintPacked13Member`): on a sorted array of `len` < 2^31 elements
    the result is non-negative exactly when the value is present, and then it is the index of the FIRST equal element -/
theorem c_packed13_member (ws : List Nat) (hw : WordsOK 32 ws) (len v : Nat) (hlen : len < 2 ^ 32)
    (hsorted : (elems 32 13 ws len).Pairwise (· ≤ ·)) (fuel : Nat) (hfu : len < fuel) :
    ∃ r : Int, packed13Member fuel (memOf ws) len v = some r ∧ (r ≥ 0 ↔ v ∈ elems 32 13 ws len) ∧
      (r ≥ 0 → ∃ m : Nat, r = (m : Int) ∧ m < len ∧ packed13Get (memOf ws) m = v ∧
        ∀ k, k < m → packed13Get (memOf ws) k ≠ v) ∧ (v ∉ elems 32 13 ws len → r = -1) := by
  obtain ⟨h1, h2, h3⟩ := packed_member_spec 32 13 ws len v hsorted
  refine ⟨_, packed13Member_eq ws hw len v hlen fuel hfu, h1, ?_, h3⟩
  intro hr
  obtain ⟨m, e, hm, hg, hfirst⟩ := h2 hr
  refine ⟨m, e, hm, ?_, ?_⟩
  · rw [packed13Get_eq ws hw m (by omega)]; exact hg
  · intro k hk; rw [packed13Get_eq ws hw k (by omega)]; exact hfirst k hk

open Varint.Gen.C Varint.Bridge Varint.Bridge.Bits Varint.Bridge.Packed13 in
/-- **`varintPacked13InsertSorted` on the translated C**: every store falls inside the slot array, and the array it
    leaves is sorted and holds exactly one more copy of `v` -/
theorem c_packed13_insert_sorted (ws : List Nat) (hw : WordsOK 32 ws) (len v : Nat) (hlen : len < 2 ^ 32)
    (hf : FitsN 32 13 ws (len + 1)) (hv : v < 2 ^ 13) (hsorted : (elems 32 13 ws len).Pairwise (· ≤ ·))
    (fuel : Nat) (hfu : len < fuel) :
    ∃ st, packed13InsertSorted fuel (memOf ws) len v = some st ∧ (∀ p ∈ st, p.1 < ws.length) ∧
      (elems 32 13 (applyStores ws st) (len + 1)).Pairwise (· ≤ ·) ∧
      (elems 32 13 (applyStores ws st) (len + 1)).Perm (v :: elems 32 13 ws len) := by
  obtain ⟨st, h1, h2, h3⟩ := packed13InsertSorted_eq ws hw len v hlen hf hv fuel hfu
  obtain ⟨hs, hp⟩ := packed_insert_sorted 32 13 (by omega) (by omega) ws len v hw hf hv hsorted
  exact ⟨st, h1, h2, by rw [h3]; exact hs, by rw [h3]; exact hp⟩

open Varint.Gen.C Varint.Bridge Varint.Bridge.Bits Varint.Bridge.Packed13 in
/-- **`varintPacked13Insert` / `varintPacked13Delete` on the translated C** refine `List.insertIdx` / `List.eraseIdx`
    on the element list; all stores inside the slot array -/
theorem c_packed13_insert_delete (ws : List Nat) (hw : WordsOK 32 ws) (len off v : Nat) (hlen : len < 2 ^ 32 - 1)
    (hv : v < 2 ^ 13) (fuel : Nat) (hfu : len < fuel) :
    (off ≤ len → FitsN 32 13 ws (len + 1) →
      ∃ st, packed13Insert fuel (memOf ws) len off v = some st ∧ (∀ p ∈ st, p.1 < ws.length) ∧
        elems 32 13 (applyStores ws st) (len + 1) = (elems 32 13 ws len).insertIdx off v) ∧
    (off < len → FitsN 32 13 ws len →
      ∃ st, packed13Delete fuel (memOf ws) len off = some st ∧ (∀ p ∈ st, p.1 < ws.length) ∧
        elems 32 13 (applyStores ws st) (len - 1) = (elems 32 13 ws len).eraseIdx off) := by
  constructor
  · intro hoff hf
    obtain ⟨st, h1, h2, h3⟩ := packed13Insert_eq ws hw len off v hoff (by omega) hf hv fuel (by omega)
    exact ⟨st, h1, h2, by rw [h3]; exact (packed_insert_refines 32 13 (by omega) (by omega) ws len off v hoff hw hf hv).1⟩
  · intro hoff hf
    obtain ⟨st, h1, h2, h3⟩ := packed13Delete_eq ws hw len off hoff (by omega) hf fuel (by omega)
    exact ⟨st, h1, h2, by rw [h3]; exact (packed_delete_refines 32 13 (by omega) (by omega) ws len off hoff hw hf).1⟩

open Varint.Gen.C Varint.Bridge Varint.Bridge.Bits Varint.Bridge.Packed13 in
/-- **`varintPacked13DeleteMember` on the translated C**: present ⇒ true and the first occurrence is erased, the rest
    stays sorted; absent ⇒ false and not a single store -/
theorem c_packed13_delete_member (ws : List Nat) (hw : WordsOK 32 ws) (len v : Nat) (hlen : len < 2 ^ 32)
    (hf : FitsN 32 13 ws len) (hsorted : (elems 32 13 ws len).Pairwise (· ≤ ·)) (fuel : Nat) (hfu : len < fuel) :
    ∃ r st, packed13DeleteMember fuel (memOf ws) len v = some (r, st) ∧ (∀ p ∈ st, p.1 < ws.length) ∧
      (v ∈ elems 32 13 ws len → r = 1 ∧
        elems 32 13 (applyStores ws st) (len - 1) = (elems 32 13 ws len).erase v ∧
        (elems 32 13 (applyStores ws st) (len - 1)).Pairwise (· ≤ ·)) ∧
      (v ∉ elems 32 13 ws len → r = 0 ∧ applyStores ws st = ws) := by
  obtain ⟨r, st, h1, h2, h3, h4⟩ := packed13DeleteMember_eq ws hw len v hlen hf fuel hfu
  obtain ⟨hin, hout⟩ := packed_delete_member 32 13 (by omega) (by omega) ws len v hw hf hsorted
  refine ⟨r, st, h1, h2, ?_, ?_⟩
  · intro hm
    obtain ⟨a, b, c⟩ := hin hm
    rw [← h3] at a b c
    simp only [decide_eq_true_eq] at a
    exact ⟨a, b, c⟩
  · intro hm
    have e := hout hm
    rw [← h3] at e
    have e1 := congrArg Prod.fst e
    have e2 := congrArg Prod.snd e
    simp only [decide_eq_false_iff_not] at e1 e2
    exact ⟨by omega, e1⟩

open Varint.Gen.C Varint.Bridge Varint.Bridge.Bits Varint.Bridge.Packed13 in
/-- **`varintPacked13SetIncr` / `varintPacked13SetHalf` on the translated C** (non-negative increment whose result
    fits): the addressed element becomes old + d, resp. old / 2, and every other element keeps its value -/
theorem c_packed13_incr_half (ws : List Nat) (hw : WordsOK 32 ws) (i j d : Nat) (hi : i < 2 ^ 32) (hj : j < 2 ^ 32)
    (hf : Fits 32 13 i ws) (hij : i ≠ j) (hd : packed13Get (memOf ws) i + d < 2 ^ 13) :
    packed13Get (memOf (applyStores ws (packed13SetIncr (memOf ws) i (d : Int)))) i = packed13Get (memOf ws) i + d ∧
    packed13Get (memOf (applyStores ws (packed13SetIncr (memOf ws) i (d : Int)))) j = packed13Get (memOf ws) j ∧
    packed13Get (memOf (applyStores ws (packed13SetHalf (memOf ws) i))) i = packed13Get (memOf ws) i / 2 ∧
    packed13Get (memOf (applyStores ws (packed13SetHalf (memOf ws) i))) j = packed13Get (memOf ws) j := by
  rw [packed13Get_eq ws hw i hi] at hd ⊢
  rw [packed13Get_eq ws hw j hj]
  obtain ⟨a, b, c, e⟩ := packed_incr_half_local 32 13 i j d ws (by omega) (by omega) hw hf hij (by omega) hd
  have hok1 : WordsOK 32 (setIncr 32 13 ws i d) := (val_set 32 13 i _ ws (by omega) (by omega) hd hw hf).2.1
  have hok2 : WordsOK 32 (setHalf 32 13 ws i) := by
    unfold setHalf
    split
    · exact hw
    · exact (val_set 32 13 i _ ws (by omega) (by omega) (by omega) hw hf).2.1
  rw [packed13SetIncr_eq ws hw i d hi hd, packed13SetHalf_eq ws hw i hi, packed13Get_eq _ hok1 i hi,
    packed13Get_eq _ hok1 j hj, packed13Get_eq _ hok2 i hi, packed13Get_eq _ hok2 j hj]
  exact ⟨a, b, c, e⟩

end Varint.Props.C09
