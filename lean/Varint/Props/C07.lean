import Varint.Lemmas.FloatDec
import Varint.Model.Float
/-
  C07 — float codec: full mode bit-exact, lossy modes within the stated error.
  A double is its IEEE-754 pattern b < 2^64: sign = b / 2^63, exponent field = b / 2^52 % 2048,
  fraction = b % 2^52; a normal value has significand m = fraction + 2^52 ∈ [2^52, 2^53).
  These theorems are about what each value decodes to (`roundTripOne`); the array framing
  (flag/sign bitmaps, exponent sections, packed mantissas) is tied to the code by the correspondence.
-/
namespace Varint.Props.C07
open Varint Varint.Float

/-- FULL precision: every double — NaN payloads, infinities, signed zeros, subnormals, normals —
    is reproduced bit for bit -/
theorem float_full_exact (b : Nat) (hb : b < 2 ^ 64) : roundTripOne 0 b = b := by
  unfold roundTripOne
  split
  · rfl
  · rename_i hs
    have hexp : expField b ≠ 2047 ∧ expField b ≠ 0 := by
      simp [isSpecial] at hs; exact hs
    simp only [mantBits, reduce, compose, if_true]
    unfold expField at hexp
    unfold signOf expField frac
    have h1 : ¬ ((((b / 2 ^ 52 % 2048 : Nat) : Int) - 1023 = 0) ∧ b % 2 ^ 52 + 2 ^ 52 = 0) := by omega
    rw [if_neg h1]
    have h2 : ¬ ((((b / 2 ^ 52 % 2048 : Nat) : Int) - 1023 + 1023) ≤ 0) := by omega
    have h3 : ¬ ((((b / 2 ^ 52 % 2048 : Nat) : Int) - 1023 + 1023) ≥ 2047) := by omega
    rw [if_neg h2, if_neg h3]
    have h4 : ((((b / 2 ^ 52 % 2048 : Nat) : Int) - 1023 + 1023)).toNat = b / 2 ^ 52 % 2048 := by omega
    rw [h4]
    omega

/-- in every precision the special values (NaN, ±inf, ±0, subnormals) are reproduced exactly -/
theorem float_special_exact (p b : Nat) (h : isSpecial b = true) : roundTripOne p b = b := by
  unfold roundTripOne; rw [if_pos h]

/-- reduced precision: rounding to `mb` significand bits moves the significand by at most half a
    unit of the kept precision; on a carry the value becomes exactly 2^(e+1). Hence the decoded
    value differs from the original by at most 2^-mb relative (the published bound), keeps the sign,
    and is infinity only when the exponent was the largest finite one. Stated on integers:
    `m` original significand, `(e', t)` = stored exponent and mantissa field, `s = 53 - mb`. -/
theorem float_rel_error (p : Nat) (hp : p = 1 ∨ p = 2 ∨ p = 3) (b : Nat) (hb : b < 2 ^ 64)
    (hn : isSpecial b = false) :
    let mb := mantBits p
    let s := 53 - mb
    let m := frac b + 2 ^ 52
    let e : Int := (expField b : Int) - 1023
    let r := reduce mb b
    ((r.1 = e ∧ 2 ^ (mb - 1) ≤ r.2 ∧ r.2 < 2 ^ mb ∧
        (r.2 * 2 ^ s ≤ m + 2 ^ (s - 1) ∧ m ≤ r.2 * 2 ^ s + 2 ^ (s - 1))) ∨
     (r.1 = e + 1 ∧ r.2 = 2 ^ (mb - 1) ∧ 2 ^ 53 ≤ m + 2 ^ (s - 1))) ∧
    -- half a unit of the kept precision is at most m * 2^-mb
    2 ^ (s - 1) * 2 ^ mb ≤ m := by
  have hfr : frac b < 2 ^ 52 := by unfold frac; omega
  rcases hp with rfl | rfl | rfl
  all_goals
    simp only [mantBits, reduce]
    generalize frac b = f at *
    generalize expField b = ex at *
    simp only [Nat.reduceSub, Nat.reducePow, Nat.reduceAdd, Nat.reduceEqDiff, if_false] at *
    refine ⟨?_, by omega⟩
    split
    · right; omega
    · left; omega

/-- the reconstructed pattern has the original sign and (unless it overflows to infinity of that
    sign) the stored exponent and the expanded mantissa -/
theorem float_compose_fields (mb sign t : Nat) (e : Int) (hs : sign < 2) (hmb : mb < 52) (ht1 : 2 ^ (mb - 1) ≤ t)
    (ht : t < 2 ^ mb) (hmb1 : 1 ≤ mb) (he : -1022 ≤ e) (he2 : e ≤ 1024) :
    let c := compose mb sign e t
    signOf c = sign ∧
    (e ≤ 1023 → expField c = (e + 1023).toNat ∧ frac c + 2 ^ 52 = t * 2 ^ (53 - mb)) ∧
    (e = 1024 → expField c = 2047 ∧ frac c = 0) := by
  have hpos : 0 < 2 ^ (53 - mb) := Nat.pow_pos (by omega)
  have hexp : (2 : Nat) ^ (mb - 1) * 2 ^ (53 - mb) = 2 ^ 52 := by
    rw [← Nat.pow_add]; congr 1; omega
  have hexp2 : (2 : Nat) ^ mb * 2 ^ (53 - mb) = 2 ^ 53 := by
    rw [← Nat.pow_add]; congr 1; omega
  have hlo : 2 ^ 52 ≤ t * 2 ^ (53 - mb) := by
    rw [← hexp]; exact Nat.mul_le_mul_right _ ht1
  have hhi : t * 2 ^ (53 - mb) < 2 ^ 53 := by
    rw [← hexp2]; exact Nat.mul_lt_mul_of_pos_right ht hpos
  intro c
  have hne : ¬ mb = 52 := by omega
  have hcdef : c = compose mb sign e t := rfl
  clear_value c
  have hc : c = (if e + 1023 ≥ 2047 then sign * 2 ^ 63 + 2047 * 2 ^ 52
      else sign * 2 ^ 63 + (e + 1023).toNat * 2 ^ 52 + t * 2 ^ (53 - mb) % 2 ^ 52) := by
    rw [hcdef]
    unfold compose
    simp only [if_neg hne]
    have h1 : ¬ (e = 0 ∧ t * 2 ^ (53 - mb) = 0) := by omega
    have h2 : ¬ (e + 1023 ≤ 0) := by omega
    rw [if_neg h1, if_neg h2]
  generalize t * 2 ^ (53 - mb) = X at *
  unfold signOf expField frac
  by_cases hbig : e + 1023 ≥ 2047
  · rw [if_pos hbig] at hc
    subst hc
    refine ⟨by omega, fun h => by omega, fun _ => by omega⟩
  · rw [if_neg hbig] at hc
    have hE : (e + 1023).toNat < 2047 ∧ 1 ≤ (e + 1023).toNat := by omega
    generalize (e + 1023).toNat = E at *
    subst hc
    refine ⟨by omega, fun _ => ⟨by omega, by omega⟩, fun h => by omega⟩

/-- automatic precision selection: for every requested error that is a positive finite double,
    either FULL is chosen or the chosen mode's published bound 2^-mantBits does not exceed the
    request (positive doubles order like their bit patterns) -/
theorem float_auto_bound (e : Nat) (hpos : 0 < e) (hfin : e < 2047 * 2 ^ 52) :
    selectPrecision e = 0 ∨ boundBits (selectPrecision e) ≤ e := by
  unfold selectPrecision
  simp only []
  split
  · left; rfl
  · rename_i h1
    split
    · right; simp only [boundBits, mantBits] at *; omega
    · split
      · right; simp only [boundBits, mantBits] at *; omega
      · right; simp only [boundBits, mantBits] at *; omega

/-- non-vacuity: the value whose rounding carries (1.9999999999, the D16 witness) decodes to 2.0 -/
example : roundTripOne 1 0x3FFFFFFFFFFF2108 = 0x4000000000000000 := by decide
example : isSpecial 0x7FF8000000000001 = true ∧ isSpecial 1 = true ∧ isSpecial 0x3FF0000000000000 = false := by decide
example : selectPrecision 0x3E112E0BE826D695 = 0 := by decide   -- 1e-9 → FULL


/-! ## array framing: decoding the encoder's bytes yields, in order, what each value decodes to — every
    precision byte, every exponent mode, every array the C accepts (count·8 must not overflow size_t,
    i.e. count < 2^61; at or above that both directions refuse). The decoder consumes exactly the bytes
    written; whatever follows them is irrelevant. -/

theorem float_array_roundtrip (p mode : Nat) (hm : mode ≤ 2) (ds : List Nat) (hne : ds ≠ [])
    (hd : ∀ d ∈ ds, d < 2 ^ 64) (hlen : ds.length < 2 ^ 61) (rest : List Nat) :
    decFull (enc p mode ds ++ rest) ds.length = some (ds.map (roundTripOne p), rest) :=
  decFull_enc p mode hm ds hne hd hlen rest

/-- in FULL precision the whole array is reproduced bit for bit (NaN payloads, infinities, signed zeros,
    subnormals included), in all three exponent modes -/
theorem float_array_full_exact (mode : Nat) (hm : mode ≤ 2) (ds : List Nat) (hne : ds ≠ [])
    (hd : ∀ d ∈ ds, d < 2 ^ 64) (hlen : ds.length < 2 ^ 61) (rest : List Nat) :
    dec (enc 0 mode ds ++ rest) ds.length = some ds := by
  rw [dec_enc 0 mode (by omega) hm ds hne hd hlen rest]
  congr 1
  have : ∀ (l : List Nat), (∀ d ∈ l, d < 2 ^ 64) → l.map (roundTripOne 0) = l := by
    intro l
    induction l with
    | nil => intro _; rfl
    | cons a t ih =>
      intro h
      rw [List.map_cons, float_full_exact a (h a (by simp)), ih (fun d hd' => h d (by simp [hd']))]
  exact this ds hd

theorem float_refuses_huge (bs : List Nat) (count : Nat) (h : 2 ^ 61 ≤ count) : dec bs count = none :=
  dec_refuses_huge bs count h

end Varint.Props.C07
