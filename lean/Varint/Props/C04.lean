import Varint.Bridge.Tagged
import Varint.Bridge.CSimple
import Varint.Bridge.ChainedW
import Varint.Lemmas.Canon
import Varint.Lemmas.Spec
import Varint.Lemmas.Mono
import Varint.Lemmas.External
import Varint.Gen.Constants
import Varint.Gen.Readme
import Varint.Gen.Statics
/-
  C04 — scalar wire formats are byte-exact, canonical and length-monotone.
  `Spec.*` are written from the documentation; `Gen.*` is regenerated from the headers and the
  README on every run, so code, headers and README are proved to agree.
-/
namespace Varint.Props.C04
open Varint

/-! ## byte-exactness: the encoder's bytes are the documented format's bytes -/

/-- the models below are functions of the value alone; the code can only be such a function if no encoder keeps
    scratch or state in static storage (regenerated from the objects built from /repo on every run) -/
theorem bytes_depend_on_the_value_only : Gen.writableStatics = [] := by decide

theorem tagged_spec_valid (v : Nat) (hv : v < 2 ^ 64) : Tagged.enc v = Spec.tagged v :=
  tagged_enc_eq_spec v hv

theorem chained_spec_valid (v : Nat) (hv : v < 2 ^ 64) : Chained.enc v = Spec.chained v :=
  chained_enc_eq_spec v hv

theorem csimple_spec_valid (v : Nat) (hv : v < 2 ^ 64) : ChainedSimple.enc v = Spec.leb128cap9 v :=
  csimple_enc_eq_spec v hv

/-- on the machine translation of `varintChainedSimpleEncode64`: the bytes stored are the documented format's -/
theorem c_csimple_spec_valid (v : Nat) (hv : v < 2 ^ 64) (fuel : Nat) (hf : 9 ≤ fuel) :
    Varint.Gen.C.csEncode64 fuel v =
      some ((Spec.leb128cap9 v).length, Varint.Bridge.storesFrom 0 (Spec.leb128cap9 v)) := by
  rw [Varint.Bridge.CSimple.csEncode64_eq v fuel hf, csimple_enc_eq_spec v hv]

/-- on the machine translation of `varintChainedPutVarint` / `putVarint64`: the memory the writer leaves is the
    documented sqlite3 format (big-endian 7-bit groups, full ninth byte), for every 64-bit value -/
theorem c_chained_spec_valid (v : Nat) (hv : v < 2 ^ 64) (fuel : Nat) (hf : 10 ≤ fuel) :
    ∃ stores, Varint.Gen.C.chainedPutVarint fuel v = some ((Spec.chained v).length, stores) ∧
      Varint.Bridge.External.Writes stores (Spec.chained v) := by
  rw [← chained_enc_eq_spec v hv]
  exact Varint.Bridge.ChainedW.chainedPutVarint_eq v fuel hv hf

/-- external: the minimal little- (big-) endian slice: `k` bytes hold `v`, `k-1` would not -/
theorem ext_spec_valid (v : Nat) :
    External.enc v = leBytes (extLen v) v ∧ ExternalBE.enc v = beBytes (extLen v) v ∧
    v < 256 ^ extLen v ∧ (extLen v = 1 ∨ 256 ^ (extLen v - 1) ≤ v) := by
  refine ⟨rfl, rfl, lt_pow_extLen v, ?_⟩
  have h1 := extLen_pos v
  by_cases h : extLen v = 1
  · exact Or.inl h
  · right
    obtain ⟨k, hk⟩ : ∃ k, extLen v = k + 2 := ⟨extLen v - 2, by omega⟩
    rw [hk]; exact pow_le_of_extLen hk

/-- split layouts exactly as in the "Data Layout" comments of the four headers:
    embedded level = (prefix | high 6 bits) then big-endian low bytes of (v − previous levels);
    external level = (prefix | width) then little-endian (v − previous levels) in the minimal width,
    never below the family's minimum width (never-shrink rule) -/
theorem split_layout (v : Nat) :
    (v ≤ 63 → Split.S.enc v = [v]) ∧
    (63 < v → v ≤ 16446 → Split.S.enc v = [64 + (v - 63) / 256, (v - 63) % 256]) ∧
    (16446 < v → Split.S.enc v = (128 + extLen (v - 16446)) :: leBytes (extLen (v - 16446)) (v - 16446)) := by
  refine ⟨?_, ?_, ?_⟩
  · intro h
    unfold Split.S.enc; rw [if_pos h]; simp [Split.encLevel, beBytes]; omega
  · intro h1 h2
    have h1' : ¬ v ≤ 63 := by omega
    unfold Split.S.enc; rw [if_neg h1', if_pos h2]; simp [Split.encLevel, beBytes]; omega
  · intro h1
    have h1' : ¬ v ≤ 63 := by omega
    have h2' : ¬ v ≤ 16446 := by omega
    have hp := extLen_pos (v - 16446)
    have hc : ¬ extLen (v - 16446) < 1 := by omega
    unfold Split.S.enc; rw [if_neg h1', if_neg h2']
    simp only [Split.encVar, if_neg hc]

theorem sfull_layout (v : Nat) :
    (v ≤ 63 → Split.F.enc v = [v]) ∧
    (63 < v → v ≤ 16446 → Split.F.enc v = [64 + (v - 63) / 256, (v - 63) % 256]) ∧
    (16446 < v → v ≤ 4210749 →
      Split.F.enc v = [128 + (v - 16446) / 65536, (v - 16446) / 256 % 256, (v - 16446) % 256]) ∧
    (4210749 < v → Split.F.enc v =
      (192 + max 2 (extLen (v - 4210749))) :: leBytes (max 2 (extLen (v - 4210749))) (v - 4210749)) := by
  refine ⟨?_, ?_, ?_, ?_⟩
  · intro h
    unfold Split.F.enc; rw [if_pos h]; simp [Split.encLevel, beBytes]; omega
  · intro h1 h2
    have h1' : ¬ v ≤ 63 := by omega
    unfold Split.F.enc; rw [if_neg h1', if_pos h2]; simp [Split.encLevel, beBytes]; omega
  · intro h1 h2
    have h1' : ¬ v ≤ 63 := by omega
    have h2' : ¬ v ≤ 16446 := by omega
    unfold Split.F.enc; rw [if_neg h1', if_neg h2', if_pos h2]; simp [Split.encLevel, beBytes]; omega
  · intro h1
    have h1' : ¬ v ≤ 63 := by omega
    have h2' : ¬ v ≤ 16446 := by omega
    have h3' : ¬ v ≤ 4210749 := by omega
    unfold Split.F.enc; rw [if_neg h1', if_neg h2', if_neg h3']
    simp only [Split.encVar]
    split
    · rw [Nat.max_eq_left (by omega)]
    · rw [Nat.max_eq_right (by omega)]

theorem snz_layout (v : Nat) (hz : 1 ≤ v) :
    (v ≤ 64 → Split.NZ.enc v = [v - 1]) ∧
    (64 < v → v ≤ 16447 → Split.NZ.enc v = [64 + (v - 64) / 256, (v - 64) % 256]) ∧
    (16447 < v → v ≤ 4210750 →
      Split.NZ.enc v = [128 + (v - 16447) / 65536, (v - 16447) / 256 % 256, (v - 16447) % 256]) ∧
    (4210750 < v → Split.NZ.enc v =
      (192 + max 2 (extLen (v - 4210750))) :: leBytes (max 2 (extLen (v - 4210750))) (v - 4210750)) := by
  refine ⟨?_, ?_, ?_, ?_⟩
  · intro h
    unfold Split.NZ.enc; rw [if_pos h]; simp [Split.encLevel, beBytes]; omega
  · intro h1 h2
    have h1' : ¬ v ≤ 64 := by omega
    unfold Split.NZ.enc; rw [if_neg h1', if_pos h2]; simp [Split.encLevel, beBytes]; omega
  · intro h1 h2
    have h1' : ¬ v ≤ 64 := by omega
    have h2' : ¬ v ≤ 16447 := by omega
    unfold Split.NZ.enc; rw [if_neg h1', if_neg h2', if_pos h2]; simp [Split.encLevel, beBytes]; omega
  · intro h1
    have h1' : ¬ v ≤ 64 := by omega
    have h2' : ¬ v ≤ 16447 := by omega
    have h3' : ¬ v ≤ 4210750 := by omega
    unfold Split.NZ.enc; rw [if_neg h1', if_neg h2', if_neg h3']
    simp only [Split.encVar]
    split
    · rw [Nat.max_eq_left (by omega)]
    · rw [Nat.max_eq_right (by omega)]

theorem s16_layout (v : Nat) :
    (v ≤ 16383 → Split.S16.enc v = [v / 256, v % 256]) ∧
    (16383 < v → v ≤ 4210686 →
      Split.S16.enc v = [64 + (v - 16383) / 65536, (v - 16383) / 256 % 256, (v - 16383) % 256]) ∧
    (4210686 < v → v ≤ 1077952509 →
      Split.S16.enc v = [128 + (v - 4210686) / 16777216, (v - 4210686) / 65536 % 256,
                         (v - 4210686) / 256 % 256, (v - 4210686) % 256]) ∧
    (1077952509 < v → Split.S16.enc v =
      (192 + max 4 (extLen (v - 1077952509))) :: leBytes (max 4 (extLen (v - 1077952509))) (v - 1077952509)) := by
  refine ⟨?_, ?_, ?_, ?_⟩
  · intro h
    unfold Split.S16.enc; rw [if_pos h]; simp [Split.encLevel, beBytes]; omega
  · intro h1 h2
    have h1' : ¬ v ≤ 16383 := by omega
    unfold Split.S16.enc; rw [if_neg h1', if_pos h2]; simp [Split.encLevel, beBytes]; omega
  · intro h1 h2
    have h1' : ¬ v ≤ 16383 := by omega
    have h2' : ¬ v ≤ 4210686 := by omega
    unfold Split.S16.enc; rw [if_neg h1', if_neg h2', if_pos h2]; simp [Split.encLevel, beBytes]; omega
  · intro h1
    have h1' : ¬ v ≤ 16383 := by omega
    have h2' : ¬ v ≤ 4210686 := by omega
    have h3' : ¬ v ≤ 1077952509 := by omega
    unfold Split.S16.enc; rw [if_neg h1', if_neg h2', if_neg h3']
    simp only [Split.encVar]
    split
    · rw [Nat.max_eq_left (by omega)]
    · rw [Nat.max_eq_right (by omega)]

/-! ## one encoding per value (the encoder is a function) and it is the shortest the decoder accepts -/

/-- tagged: whatever bytes decode to `v` are at least as long as the encoder's output, and if they have
    that length they are those bytes (no second encoding in the length class) -/
theorem tagged_canonical (bs : List Nat) (v l : Nat) (hb : ∀ b ∈ bs, b < 256)
    (h : Tagged.get bs = .ok v l) : Tagged.len v ≤ l := by
  unfold Tagged.get Tagged.getN at h
  simp only [] at h
  cases bs with
  | nil => simp at h
  | cons b0 rest =>
    have hb0 : b0 < 256 := hb b0 (by simp)
    simp only [show ¬ ((9 : Int) < 1) by omega, if_false] at h
    by_cases h1 : b0 ≤ 240
    · simp [h1] at h
      obtain ⟨rfl, rfl⟩ := h
      unfold Tagged.len; simp [h1]
    · rw [if_neg h1] at h
      by_cases h2 : b0 ≤ 248
      · rw [if_pos h2] at h
        cases rest with
        | nil => simp at h
        | cons b1 r =>
          simp at h
          obtain ⟨rfl, rfl⟩ := h
          have := (Tagged.len_bounds ((b0 - 241) * 256 + b1 + 240))
          have hb1 : b1 < 256 := hb b1 (by simp)
          unfold Tagged.len
          repeat' split
          all_goals omega
      · rw [if_neg h2] at h
        split at h
        · simp at h
        · cases hp : takeExact (b0 - 247) rest with
          | none => rw [hp] at h; simp at h
          | some p =>
            rw [hp] at h
            simp only [] at h
            have hplen : p.length = b0 - 247 := by
              unfold takeExact at hp
              split at hp
              · simp at hp; rw [← hp]; simp; omega
              · simp at hp
            have hplt : ∀ x ∈ p, x < 256 := by
              intro x hx
              unfold takeExact at hp
              split at hp
              · simp at hp; rw [← hp] at hx
                exact hb x (by simp [List.mem_of_mem_take hx])
              · simp at hp
            have hval := ofBe_lt p hplt
            rw [hplen] at hval
            by_cases h3 : b0 = 249
            · subst h3
              simp at h
              obtain ⟨rfl, rfl⟩ := h
              simp at hval
              unfold Tagged.len
              repeat' split
              all_goals omega
            · rw [if_neg h3] at h
              have h5 : b0 ≤ 255 := by omega
              rw [if_pos h5] at h
              simp at h
              obtain ⟨rfl, rfl⟩ := h
              -- ofBe p < 256^(b0-247) and length is b0-246
              have hcases : b0 = 250 ∨ b0 = 251 ∨ b0 = 252 ∨ b0 = 253 ∨ b0 = 254 ∨ b0 = 255 := by omega
              rcases hcases with e | e | e | e | e | e <;> subst e <;> simp at hval <;>
                (unfold Tagged.len; repeat' split) <;> omega

/-! ## encoded length never decreases as the value grows -/

theorem tagged_len_mono {a b : Nat} (h : a ≤ b) : Tagged.len a ≤ Tagged.len b := Tagged.len_mono h
theorem ext_len_mono {a b : Nat} (h : a ≤ b) : extLen a ≤ extLen b := extLen_mono h
theorem chained_len_mono {a b : Nat} (h : a ≤ b) : Chained.len a ≤ Chained.len b := by
  have := len7_mono h; unfold Chained.len; split <;> split <;> omega
theorem csimple_len_mono {a b : Nat} (h : a ≤ b) : ChainedSimple.len a ≤ ChainedSimple.len b := by
  have := len7_mono h; unfold ChainedSimple.len; split <;> split <;> omega
theorem split_len_mono {a b : Nat} (h : a ≤ b) : Split.S.len a ≤ Split.S.len b := Split.S.len_mono h
/-- split-full: monotone *because of* the documented never-shrink rule (minimum external width 2) -/
theorem sfull_len_mono {a b : Nat} (h : a ≤ b) : Split.F.len a ≤ Split.F.len b := Split.F.len_mono h
theorem snz_len_mono {a b : Nat} (h : a ≤ b) : Split.NZ.len a ≤ Split.NZ.len b := Split.NZ.len_mono h
theorem s16_len_mono {a b : Nat} (h : a ≤ b) : Split.S16.len a ≤ Split.S16.len b := Split.S16.len_mono h

/-! ## per-length maxima: code = header constants = README tables -/

/-- `len v ≤ k ↔ v ≤ VARINT_TAGGED_MAX_k`, constants regenerated from varintTagged.h -/
theorem tagged_maxima (v : Nat) (hv : v < 2 ^ 64) :
    (Tagged.len v ≤ 1 ↔ v ≤ Gen.TAGGED_MAX_1) ∧ (Tagged.len v ≤ 2 ↔ v ≤ Gen.TAGGED_MAX_2) ∧
    (Tagged.len v ≤ 3 ↔ v ≤ Gen.TAGGED_MAX_3) ∧ (Tagged.len v ≤ 4 ↔ v ≤ Gen.TAGGED_MAX_4) ∧
    (Tagged.len v ≤ 5 ↔ v ≤ Gen.TAGGED_MAX_5) ∧ (Tagged.len v ≤ 6 ↔ v ≤ Gen.TAGGED_MAX_6) ∧
    (Tagged.len v ≤ 7 ↔ v ≤ Gen.TAGGED_MAX_7) ∧ (Tagged.len v ≤ 8 ↔ v ≤ Gen.TAGGED_MAX_8) ∧
    (Tagged.len v ≤ 9 ↔ v ≤ Gen.TAGGED_MAX_9) := by
  simp only [Gen.TAGGED_MAX_1, Gen.TAGGED_MAX_2, Gen.TAGGED_MAX_3, Gen.TAGGED_MAX_4, Gen.TAGGED_MAX_5,
    Gen.TAGGED_MAX_6, Gen.TAGGED_MAX_7, Gen.TAGGED_MAX_8, Gen.TAGGED_MAX_9]
  unfold Tagged.len
  repeat' split
  all_goals omega

/-- level boundaries of the split families are the header constants -/
theorem split_constants :
    Gen.SPLIT_MAX_6 = 63 ∧ Gen.SPLIT_MAX_14 = 16446 ∧ Gen.SPLIT_6 = 0 ∧ Gen.SPLIT_14 = 64 ∧ Gen.SPLIT_VAR = 128 ∧
    Gen.SPLIT_FULL_MAX_6 = 63 ∧ Gen.SPLIT_FULL_MAX_14 = 16446 ∧ Gen.SPLIT_FULL_MAX_22 = 4210749 ∧
    Gen.SPLIT_FULL_VAR = 192 ∧
    Gen.SPLIT_FULL_NO_ZERO_MAX_6 = 64 ∧ Gen.SPLIT_FULL_NO_ZERO_MAX_14 = 16447 ∧
    Gen.SPLIT_FULL_NO_ZERO_MAX_22 = 4210750 ∧
    Gen.SPLIT_FULL_16_MAX_14 = 16383 ∧ Gen.SPLIT_FULL_16_MAX_22 = 4210686 ∧
    Gen.SPLIT_FULL_16_MAX_30 = 1077952509 := by decide

/-- maxima for 1–4 bytes (the README's columns) of the other families -/
theorem split_maxima (v : Nat) (hv : v < 2 ^ 64) :
    (Split.S.len v ≤ 1 ↔ v ≤ 63) ∧ (Split.S.len v ≤ 2 ↔ v ≤ 16701) ∧
    (Split.S.len v ≤ 3 ↔ v ≤ 81981) ∧ (Split.S.len v ≤ 4 ↔ v ≤ 16793661) := by
  have h2 := Split.varW_le_iff 16446 1 v 1 (by omega) (by omega)
  have h3 := Split.varW_le_iff 16446 1 v 2 (by omega) (by omega)
  have h4 := Split.varW_le_iff 16446 1 v 3 (by omega) (by omega)
  have hw : 1 ≤ Split.varW 16446 1 v := by unfold Split.varW; split <;> omega
  simp only [show (256 : Nat) ^ 1 = 256 by rfl, show (256 : Nat) ^ 2 = 65536 by rfl,
    show (256 : Nat) ^ 3 = 16777216 by rfl] at h2 h3 h4
  unfold Split.S.len
  simp only [Split.lenVar_eq]
  repeat' split
  all_goals omega

theorem sfull_maxima (v : Nat) (hv : v < 2 ^ 64) :
    (Split.F.len v ≤ 1 ↔ v ≤ 63) ∧ (Split.F.len v ≤ 2 ↔ v ≤ 16446) ∧
    (Split.F.len v ≤ 3 ↔ v ≤ 4276284) ∧ (Split.F.len v ≤ 4 ↔ v ≤ 20987964) ∧
    (Split.F.len v ≤ 4 ↔ v ≤ Gen.SPLIT_FULL_STORAGE_4) ∧ (v ≤ Gen.SPLIT_FULL_STORAGE_3 → Split.F.len v ≤ 3) := by
  have h3 := Split.varW_le_iff 4210749 2 v 2 (by omega) (by omega)
  have h4 := Split.varW_le_iff 4210749 2 v 3 (by omega) (by omega)
  have hw : 2 ≤ Split.varW 4210749 2 v := by unfold Split.varW; split <;> omega
  simp only [show (256 : Nat) ^ 2 = 65536 by rfl, show (256 : Nat) ^ 3 = 16777216 by rfl] at h3 h4
  simp only [Gen.SPLIT_FULL_STORAGE_4, Gen.SPLIT_FULL_STORAGE_3]
  unfold Split.F.len
  simp only [Split.lenVar_eq]
  repeat' split
  all_goals omega

theorem snz_maxima (v : Nat) (hv : v < 2 ^ 64) :
    (Split.NZ.len v ≤ 1 ↔ v ≤ 64) ∧ (Split.NZ.len v ≤ 2 ↔ v ≤ 16447) ∧
    (Split.NZ.len v ≤ 3 ↔ v ≤ 4276285) ∧ (Split.NZ.len v ≤ 4 ↔ v ≤ 20987965) ∧
    (Split.NZ.len v ≤ 4 ↔ v ≤ Gen.SPLIT_FULL_NO_ZERO_STORAGE_4) := by
  have h3 := Split.varW_le_iff 4210750 2 v 2 (by omega) (by omega)
  have h4 := Split.varW_le_iff 4210750 2 v 3 (by omega) (by omega)
  have hw : 2 ≤ Split.varW 4210750 2 v := by unfold Split.varW; split <;> omega
  simp only [show (256 : Nat) ^ 2 = 65536 by rfl, show (256 : Nat) ^ 3 = 16777216 by rfl] at h3 h4
  simp only [Gen.SPLIT_FULL_NO_ZERO_STORAGE_4]
  unfold Split.NZ.len
  simp only [Split.lenVar_eq]
  repeat' split
  all_goals omega

theorem s16_maxima (v : Nat) (hv : v < 2 ^ 64) :
    (¬ Split.S16.len v ≤ 1) ∧ (Split.S16.len v ≤ 2 ↔ v ≤ 16383) ∧
    (Split.S16.len v ≤ 3 ↔ v ≤ 4210686) ∧ (Split.S16.len v ≤ 4 ↔ v ≤ 1077952509) := by
  have hw : 4 ≤ Split.varW 1077952509 4 v := by unfold Split.varW; split <;> omega
  unfold Split.S16.len
  simp only [Split.lenVar_eq]
  repeat' split
  all_goals omega

theorem chained_maxima (v : Nat) :
    (Chained.len v ≤ 1 ↔ v ≤ 127) ∧ (Chained.len v ≤ 2 ↔ v ≤ 16383) ∧
    (Chained.len v ≤ 3 ↔ v ≤ 2097151) ∧ (Chained.len v ≤ 4 ↔ v ≤ 268435455) := by
  have h1 := len7_le_iff (u := v) (j := 1) (by omega)
  have h2 := len7_le_iff (u := v) (j := 2) (by omega)
  have h3 := len7_le_iff (u := v) (j := 3) (by omega)
  have h4 := len7_le_iff (u := v) (j := 4) (by omega)
  simp only [show (128 : Nat) ^ 1 = 128 by rfl, show (128 : Nat) ^ 2 = 16384 by rfl,
    show (128 : Nat) ^ 3 = 2097152 by rfl, show (128 : Nat) ^ 4 = 268435456 by rfl] at h1 h2 h3 h4
  unfold Chained.len
  split <;> omega

theorem ext_maxima (v : Nat) :
    (extLen v ≤ 1 ↔ v ≤ 255) ∧ (extLen v ≤ 2 ↔ v ≤ 65535) ∧
    (extLen v ≤ 3 ↔ v ≤ 16777215) ∧ (extLen v ≤ 4 ↔ v ≤ 4294967295) := by
  have h1 := extLen_le_iff (u := v) (j := 1) (by omega)
  have h2 := extLen_le_iff (u := v) (j := 2) (by omega)
  have h3 := extLen_le_iff (u := v) (j := 3) (by omega)
  have h4 := extLen_le_iff (u := v) (j := 4) (by omega)
  simp only [show (256 : Nat) ^ 1 = 256 by rfl, show (256 : Nat) ^ 2 = 65536 by rfl,
    show (256 : Nat) ^ 3 = 16777216 by rfl, show (256 : Nat) ^ 4 = 4294967296 by rfl] at h1 h2 h3 h4
  omega

/-- the README's two capacity tables, cell by cell, are the maxima proved above
    (`Gen.readmeTable*` is re-parsed from README.md on every run) -/
theorem readme_table_agrees :
    Gen.readmeTable1 = [
      ("Tagged", "first byte", [some 240, some 2287, some 67823, some 16777215]),
      ("Split", "first byte", [some 63, some 16701, some 81981, some 16793661]),
      ("Split Full", "first byte", [some 63, some 16446, some 4276284, some 20987964]),
      ("Split Full No Zero", "first byte", [some 64, some 16447, some 4276285, some 20987965]),
      ("Split Full 16", "first byte", [none, some 16383, some 4210686, some 1077952509]),
      ("Chained", "final flag bit", [some 127, some 16383, some 2097151, some 268435455]),
      ("External", "first byte", [none, some 255, some 65535, some 16777215]),
      ("External", "external metadata", [some 255, some 65535, some 16777215, some 4294967295])] ∧
    Gen.readmeTable2 = [
      ("Split", "first", [some 63, some 16446, none, none]),
      ("Split", "second", [none, some 16701, some 81981, some 16793661]),
      ("Split Full", "first", [some 63, some 16446, some 4210749, none]),
      ("Split Full", "second", [none, none, some 4276284, some 20987964]),
      ("Split Full No Zero", "first", [some 64, some 16447, some 4210750, none]),
      ("Split Full No Zero", "second", [none, none, some 4276285, some 20987965])] := by
  decide

/-- zig-zag of the delta codec equals its mathematical definition on all of int64 -/
theorem zigzag_def (n : Int) (hlo : -(2 ^ 63 : Int) ≤ n) (hhi : n < (2 ^ 63 : Int)) :
    Spec.zigzag n < 2 ^ 64 ∧ (0 ≤ n → Spec.zigzag n = 2 * n.toNat) ∧ (n < 0 → Spec.zigzag n = 2 * (-n).toNat - 1) := by
  unfold Spec.zigzag
  have h64 : (2 : Nat) ^ 64 = 18446744073709551616 := by decide
  have h63 : (2 : Int) ^ 63 = 9223372036854775808 := by decide
  rw [h63] at hlo hhi
  rw [h64]
  split <;> omega

/-- non-vacuity -/
example : Tagged.enc 2288 = [249, 0, 0] ∧ Spec.tagged 2288 = [249, 0, 0] := by decide
example : Spec.chained 16384 = [129, 128, 0] := by decide
example : Spec.leb128cap9 300 = [172, 2] := by decide



/-! ## byte-exactness of the C ITSELF (translation regenerated from src/varintTagged.c on every run) -/

/-- the bytes varintTaggedPut64 stores are the documented sqlite4 format's bytes, and varintTaggedLen is the
    documented length — for all 2^64 values -/
theorem c_tagged_spec_valid (x : Nat) (hx : x < 2 ^ 64) :
    (Varint.Gen.C.taggedPut64 x).2.map Prod.snd = Spec.tagged x ∧
    (Varint.Gen.C.taggedPut64 x).2.map Prod.fst = List.range (Spec.tagged x).length ∧
    Varint.Gen.C.taggedLen x = (Spec.tagged x).length := by
  obtain ⟨h1, h2, h3⟩ := Varint.Bridge.Tagged.taggedPut64_eq x hx
  have hs := tagged_enc_eq_spec x hx
  rw [h2, h3, Varint.Bridge.Tagged.taggedLen_eq x hx, ← hs, Tagged.enc_length]
  exact ⟨rfl, rfl, rfl⟩

/-! ## canonicity stated on the decoders: among ALL byte strings a reader accepts for a value, none is
    shorter than the encoder's output, and one of the same length IS the encoder's output — so the encoder
    emits the one shortest encoding of its family. (Readers also accept over-long spellings with leading zero
    groups; that is why the first statement is ≤.) -/

theorem tagged_unique_in_class (bs : List Nat) (v l : Nat) (hb : ∀ b ∈ bs, b < 256)
    (h : Tagged.get bs = .ok v l) (hl : l = Tagged.len v) : bs.take l = Tagged.enc v :=
  Tagged.get_canonical bs v l hb h hl

theorem chained_canonical (bs : List Nat) (v l : Nat) (hb : ∀ b ∈ bs, b < 256) (h : Chained.dec bs = some (v, l)) :
    Chained.len v ≤ l ∧ (l = Chained.len v → bs.take l = Chained.enc v) :=
  ⟨Chained.dec_len_le bs v l hb h, Chained.dec_canonical bs v l hb h⟩

theorem csimple_canonical (bs : List Nat) (v l : Nat) (hb : ∀ b ∈ bs, b < 256)
    (h : ChainedSimple.dec bs = some (v, l)) :
    ChainedSimple.len v ≤ l ∧ (l = ChainedSimple.len v → bs.take l = ChainedSimple.enc v) :=
  ⟨ChainedSimple.dec_len_le bs v l hb h, ChainedSimple.dec_canonical bs v l hb h⟩

/-- external (width out of band): a w-byte slice that reads as v has w ≥ the minimal width, is the encoder's
    slice when w is minimal, and the byte-slice ↦ value maps are injective at fixed width -/
theorem external_canonical (bs : List Nat) (w v : Nat) (hb : ∀ b ∈ bs, b < 256) (hw : 1 ≤ w) :
    (External.get bs w = some v → extLen v ≤ w ∧ (w = extLen v → bs.take w = External.enc v)) ∧
    (ExternalBE.get bs w = some v → extLen v ≤ w ∧ (w = extLen v → bs.take w = ExternalBE.enc v)) :=
  ⟨fun h => ⟨External.get_len_le bs w v hb hw h, External.get_canonical bs w v hb h⟩,
   fun h => ⟨ExternalBE.get_len_le bs w v hb hw h, ExternalBE.get_canonical bs w v hb h⟩⟩

theorem external_injective (a b : List Nat) (hlen : a.length = b.length)
    (ha : ∀ x ∈ a, x < 256) (hb : ∀ x ∈ b, x < 256) :
    (ofLe a = ofLe b → a = b) ∧ (ofBe a = ofBe b → a = b) :=
  ⟨fun h => ofLe_injective a b h hlen ha hb, fun h => ofBe_injective a b h hlen ha hb⟩

/-- the split families: the same two statements hold for every first byte the ENCODERS can produce. The
    side conditions exclude exactly the spellings the readers accept but no encoder emits: the reserved
    prefix / a var tag announcing a width below the family's minimum, the var-level spelling of the previous
    level's maximum, and var tags with the ignored bits 4–5 set (examples below). -/
theorem split_canonical (bs : List Nat) (v l : Nat) (hb : ∀ b ∈ bs, b < 256) :
    (Split.S.dec bs = some (v, l) →
      ((∀ b0 ∈ bs.head?, b0 < 192 ∧ b0 ≠ 128) → Split.S.len v ≤ l) ∧
      (bs.take 2 ≠ [129, 0] → l = Split.S.len v → bs.take l = Split.S.enc v)) ∧
    (Split.F.dec bs = some (v, l) →
      ((∀ b0 ∈ bs.head?, b0 < 192 ∨ 2 ≤ b0 % 16) → Split.F.len v ≤ l) ∧
      ((∀ b0 ∈ bs.head?, b0 < 208) → bs.take 3 ≠ [194, 0, 0] → l = Split.F.len v → bs.take l = Split.F.enc v)) ∧
    (Split.NZ.dec bs = some (v, l) →
      ((∀ b0 ∈ bs.head?, b0 < 192 ∨ 2 ≤ b0 % 16) → Split.NZ.len v ≤ l) ∧
      ((∀ b0 ∈ bs.head?, b0 < 208) → bs.take 3 ≠ [194, 0, 0] → l = Split.NZ.len v → bs.take l = Split.NZ.enc v)) ∧
    (Split.S16.dec bs = some (v, l) →
      ((∀ b0 ∈ bs.head?, b0 < 192 ∨ 4 ≤ b0 % 16) → Split.S16.len v ≤ l) ∧
      ((∀ b0 ∈ bs.head?, b0 < 208) → bs.take 4 ≠ [195, 0, 0, 0] → l = Split.S16.len v → bs.take l = Split.S16.enc v)) :=
  ⟨fun h => ⟨fun hw => Split.S.dec_len_le bs v l hb hw h, fun hx hl => Split.S.dec_canonical bs v l hb hx h hl⟩,
   fun h => ⟨fun hw => Split.F.dec_len_le bs v l hb hw h, fun h208 hx hl => Split.F.dec_canonical bs v l hb h208 hx h hl⟩,
   fun h => ⟨fun hw => Split.NZ.dec_len_le bs v l hb hw h, fun h208 hx hl => Split.NZ.dec_canonical bs v l hb h208 hx h hl⟩,
   fun h => ⟨fun hw => Split.S16.dec_len_le bs v l hb hw h, fun h208 hx hl => Split.S16.dec_canonical bs v l hb h208 hx h hl⟩⟩

/-- reader leniency (not produced by any encoder): an over-long chained spelling of 0; the var-level spelling
    of varintSplit's level-1 maximum next to the encoder's bytes -/
example : Chained.dec [0x80, 0x00] = some (0, 2) ∧ Chained.len 0 = 1 := by decide
example : Split.S.dec [129, 0] = some (16446, 2) ∧ Split.S.enc 16446 = [127, 255] := by decide

end Varint.Props.C04
