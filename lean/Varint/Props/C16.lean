import Varint.Bridge.FOR
import Varint.Bridge.FORDec
import Varint.Bridge.Group
import Varint.Bridge.RLE
import Varint.Lemmas.PFOR
import Varint.Lemmas.RLEH
import Varint.Lemmas.Group
import Varint.Lemmas.FOR
import Varint.Lemmas.RLE
/-
  C16 — reported metadata and header accessors tell the truth.
-/
namespace Varint.Props.C16
open Varint

/-- FOR analysis metadata = real minimum, maximum, range, count, byte width, encoded size -/
theorem for_meta_true (xs : List Nat) (g : FOR.Good xs) :
    let m := FOR.analyze xs
    (∀ x ∈ xs, m.minValue ≤ x ∧ x ≤ m.maxValue) ∧ m.minValue ∈ xs ∧ m.maxValue ∈ xs ∧
    m.range = m.maxValue - m.minValue ∧ m.count = xs.length ∧ m.offsetWidth = extLen m.range ∧
    m.encodedSize = (FOR.enc xs).length := by
  intro m
  have hmin_mem : FOR.minL xs ∈ xs := by
    cases xs with
    | nil => exact absurd rfl g.ne
    | cons a ys =>
      simp only [FOR.minL]
      have : ∀ (l : List Nat) (a : Nat), l.foldl min a = a ∨ l.foldl min a ∈ l := by
        intro l
        induction l with
        | nil => intro a; simp
        | cons y ys ih =>
          intro a
          simp only [List.foldl_cons]
          rcases ih (min a y) with h | h
          · rw [h]
            by_cases hay : a ≤ y
            · left; omega
            · right; simp; left; omega
          · right; simp [h]
      rcases this ys a with h | h
      · rw [h]; simp
      · simp [h]
  have hmax_mem : FOR.maxL xs ∈ xs := by
    cases xs with
    | nil => exact absurd rfl g.ne
    | cons a ys =>
      simp only [FOR.maxL]
      have : ∀ (l : List Nat) (a : Nat), l.foldl max a = a ∨ l.foldl max a ∈ l := by
        intro l
        induction l with
        | nil => intro a; simp
        | cons y ys ih =>
          intro a
          simp only [List.foldl_cons]
          rcases ih (max a y) with h | h
          · rw [h]
            by_cases hay : y ≤ a
            · left; omega
            · right; simp; left; omega
          · right; simp [h]
      rcases this ys a with h | h
      · rw [h]; simp
      · simp [h]
  exact ⟨fun x hx => ⟨FOR.minL_le xs x hx, FOR.le_maxL xs x hx⟩, hmin_mem, hmax_mem, rfl, rfl, rfl,
    (FOR.enc_length xs).symm⟩

/-- **on the machine translation of `varintFORAnalyze`** (the min/max scan over the WHOLE array, regenerated from
    src/varintFOR.c on every run): every field the C writes into the metadata struct is the model's, hence
    (`for_meta_true`) the true minimum and maximum of the data — both are elements, every element lies between
    them —, their difference, the bytes that difference needs, the count and the encoded size -/
theorem c_for_analyze_true (xs : List Nat) (g : FOR.Good xs) (hn : xs.length < 2 ^ 56) (fuel : Nat)
    (hf : xs.length + 8 ≤ fuel) :
    let m := FOR.analyze xs
    Varint.Gen.C.forAnalyze fuel (Varint.Bridge.Tagged.bufOf xs) xs.length =
      some (some m.minValue, some m.maxValue, some m.range, some m.offsetWidth, some m.count, some m.encodedSize) ∧
    (∀ x ∈ xs, m.minValue ≤ x ∧ x ≤ m.maxValue) ∧ m.minValue ∈ xs ∧ m.maxValue ∈ xs ∧
    m.encodedSize = (FOR.enc xs).length := by
  intro m
  have h := for_meta_true xs g
  exact ⟨Varint.Bridge.FOR.forAnalyze_eq xs g.ne g.lt hn fuel hf, h.1, h.2.1, h.2.2.1, h.2.2.2.2.2.2⟩

/-- header accessors (GetMinValue / GetCount / GetOffsetWidth / ReadMetadata) read back what was encoded -/
theorem for_accessor_true (xs : List Nat) (g : FOR.Good xs) (rest : List Nat) :
    FOR.readHdr (FOR.enc xs ++ rest) = some ⟨(FOR.analyze xs).minValue, (FOR.analyze xs).offsetWidth, xs.length,
      Tagged.len (FOR.analyze xs).minValue, Tagged.len xs.length⟩ :=
  FOR.readHdr_enc xs g rest

/-- RLE: runCount = number of maximal runs, they expand back to the data, their lengths sum to count -/
theorem rle_meta_true (xs : List Nat) :
    RLE.expand (RLE.runs xs) = xs ∧ RLE.total (RLE.runs xs) = xs.length ∧
    (∀ r ∈ RLE.runs xs, 1 ≤ r.1) ∧ RLE.size xs = (RLE.enc xs).length :=
  ⟨RLE.expand_runs xs, RLE.total_runs xs, RLE.runs_pos xs, (RLE.enc_length xs).symm⟩


/-- **on the machine translation of `varintRLEEncode` / `varintRLEAnalyze`**: the metadata both functions write is
    the truth about the data and the bytes: count = number of elements, runCount = number of maximal runs (the
    analysis reports it as uniqueValues too), encodedSize = bytes the encoder really stores = what it returns -/
theorem c_rle_meta_true (xs : List Nat) (hx : ∀ x ∈ xs, x < 2 ^ 64) (hn : xs.length < 2 ^ 59) (fuel : Nat)
    (hf : xs.length + 2 ≤ fuel) :
    ∃ n stores b,
      Varint.Gen.C.rleEncode fuel (Varint.Bridge.Tagged.bufOf xs) xs.length true =
        some (n, some xs.length, some (RLE.runs xs).length, some n, some 0, stores) ∧
      Varint.Gen.C.rleAnalyze fuel (Varint.Bridge.Tagged.bufOf xs) xs.length =
        some (b, some xs.length, some (RLE.runs xs).length, some n, some (RLE.runs xs).length) ∧
      stores.length = n := by
  refine ⟨(RLE.enc xs).length, Varint.Bridge.storesFrom 0 (RLE.enc xs),
    if xs ≠ [] ∧ RLE.size xs < 8 * xs.length then 1 else 0,
    Varint.Bridge.RLE.rleEncode_eq xs hx (by omega) true fuel hf, ?_, ?_⟩
  · rw [Varint.Bridge.RLE.rleAnalyze_eq xs hx hn fuel (by omega), RLE.enc_length]; rfl
  · rw [Varint.Bridge.storesFrom_length]

/-- group: the self-measured size and per-field widths read from an encoding are the real ones -/
theorem group_accessors_true (xs : List Nat) (h : Group.Ok xs) (rest : List Nat) :
    Group.getSize (Group.enc xs ++ rest) = some (Group.enc xs).length ∧
    ∀ i, i < xs.length → Group.getFieldWidth (Group.enc xs ++ rest) i = some (Group.normW (xs.getD i 0)) :=
  ⟨Group.getSize_enc xs h rest, fun i hi => Group.getFieldWidth_enc xs h i hi rest⟩

/-- RLE: the run count is the number of MAXIMAL runs (neighbouring runs differ), 0 only for the empty
    array, never more than the element count; the runs are the only such decomposition -/
theorem rle_runs_maximal (xs : List Nat) :
    RLE.runCount xs = (RLE.runs xs).length ∧ RLE.AdjNe (RLE.runs xs) ∧
    (RLE.runCount xs = 0 ↔ xs = []) ∧ RLE.runCount xs ≤ xs.length :=
  ⟨RLE.runCount_eq xs, RLE.runs_adjNe xs, RLE.runCount_eq_zero xs, RLE.runCount_le xs⟩


/-- PFOR: the metadata of the analysis are the real properties of the data and of the bytes -/
theorem pfor_meta_true (xs : List Nat) (g : PFOR.Good xs) (t : Nat) :
    PFOR.Facts (PFOR.compute xs t) xs ∧
    (PFOR.compute xs t).exceptionCount = (PFOR.excList (PFOR.compute xs t).thresholdValue 0 xs).length ∧
    PFOR.excs (PFOR.compute xs t) 0 xs =
      (PFOR.excList (PFOR.compute xs t).thresholdValue 0 xs).flatMap (fun p => Tagged.enc p.1 ++ Tagged.enc p.2) :=
  ⟨PFOR.compute_facts xs g t, PFOR.exceptionCount_eq_records xs t⟩

/-- PFOR: the header fields read back from an encoding are min, count and exception count -/
theorem pfor_header_true (xs : List Nat) (g : PFOR.Good xs) (t : Nat) (rest : List Nat) :
    Tagged.get (PFOR.enc xs t ++ rest) = .ok (PFOR.compute xs t).min (Tagged.len (PFOR.compute xs t).min) ∧
    Tagged.get ((PFOR.enc xs t ++ rest).drop (Tagged.len (PFOR.compute xs t).min + 1)) = .ok xs.length (Tagged.len xs.length) ∧
    Tagged.get ((PFOR.enc xs t ++ rest).drop (Tagged.len (PFOR.compute xs t).min + 1 + Tagged.len xs.length +
        xs.length * (PFOR.compute xs t).width)) =
      .ok (PFOR.compute xs t).exceptionCount (Tagged.len (PFOR.compute xs t).exceptionCount) :=
  ⟨PFOR.hdr_min xs g t rest, PFOR.hdr_count xs g t rest, PFOR.hdr_exceptionCount xs g t rest⟩


/-- **the FOR header accessors on the translated C tell the truth** (`varintFORGetMinValue`, `varintFORGetCount`,
    `varintFORGetOffsetWidth`, machine-translated): on the encoding of any non-empty array of 64-bit values they return
    the array's minimum, its element count and the width the analysis chose -/
theorem c_for_accessors_true (xs : List Nat) (g : FOR.Good xs) (rest : List Nat) (hrest : ∀ b ∈ rest, b < 256) :
    Varint.Gen.C.forGetMinValue (Varint.Bridge.Tagged.bufOf (FOR.enc xs ++ rest)) = (FOR.analyze xs).minValue ∧
    Varint.Gen.C.forGetCount (Varint.Bridge.Tagged.bufOf (FOR.enc xs ++ rest)) = xs.length ∧
    Varint.Gen.C.forGetOffsetWidth (Varint.Bridge.Tagged.bufOf (FOR.enc xs ++ rest)) = (FOR.analyze xs).offsetWidth := by
  have hb : ∀ b ∈ FOR.enc xs ++ rest, b < 256 := by
    intro b hb
    rcases List.mem_append.mp hb with hb | hb
    · exact Varint.Bridge.FORDec.enc_lt xs g b hb
    · exact hrest b hb
  exact Varint.Bridge.FORDec.forAccessors_eq _ hb _ (for_accessor_true xs g rest)


/-- **the group accessors on the translated C tell the truth** (`varintGroupGetSize`, `varintGroupGetFieldWidth`,
    machine-translated): on the encoding of any 1..64 fields they return the encoded length and, for every field index,
    the width its value was stored with -/
theorem c_group_accessors_true (xs : List Nat) (h : Group.Ok xs) (rest : List Nat) (hrest : ∀ b ∈ rest, b < 256)
    (fuel : Nat) (hf : 64 < fuel) :
    Varint.Gen.C.groupGetSize fuel (Varint.Bridge.Tagged.bufOf (Group.enc xs ++ rest)) = some (Group.enc xs).length ∧
    ∀ i, i < xs.length →
      Varint.Gen.C.groupGetFieldWidth (Varint.Bridge.Tagged.bufOf (Group.enc xs ++ rest)) i =
        Group.normW (xs.getD i 0) := by
  have hb : ∀ b ∈ Group.enc xs ++ rest, b < 256 := by
    intro b hb
    rcases List.mem_append.mp hb with hb | hb
    · exact Group.enc_lt xs h b hb
    · exact hrest b hb
  obtain ⟨g1, g2⟩ := group_accessors_true xs h rest
  refine ⟨Varint.Bridge.Group.groupGetSize_eq _ hb _ g1 fuel hf, ?_⟩
  intro i hi
  exact Varint.Bridge.Group.groupGetFieldWidth_eq _ hb i _ (by have := h.2.1; omega) (g2 i hi)

end Varint.Props.C16
