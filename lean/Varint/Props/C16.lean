import Varint.Lemmas.FOR
import Varint.Lemmas.RLE
/-
  C16 — reported metadata and header accessors tell the truth.
-/
namespace Varint.Props.C16
open Varint

/-- FOR analysis metadata = real minimum, maximum, range, count, byte width, encoded size -/
theorem for_meta_true (xs : List Nat) (g : FOR.Good xs) :
    let m := FOR.analyze xs
    (∀ x ∈ xs, m.minValue ≤ x ∧ x ≤ m.maxValue) ∧ m.minValue ∈ xs ∧ m.maxValue ∈ xs ∧
    m.range = m.maxValue - m.minValue ∧ m.count = xs.length ∧ m.offsetWidth = extLen m.range ∧
    m.encodedSize = (FOR.enc xs).length := by
  intro m
  have hmin_mem : FOR.minL xs ∈ xs := by
    cases xs with
    | nil => exact absurd rfl g.ne
    | cons a ys =>
      simp only [FOR.minL]
      have : ∀ (l : List Nat) (a : Nat), l.foldl min a = a ∨ l.foldl min a ∈ l := by
        intro l
        induction l with
        | nil => intro a; simp
        | cons y ys ih =>
          intro a
          simp only [List.foldl_cons]
          rcases ih (min a y) with h | h
          · rw [h]
            by_cases hay : a ≤ y
            · left; omega
            · right; simp; left; omega
          · right; simp [h]
      rcases this ys a with h | h
      · rw [h]; simp
      · simp [h]
  have hmax_mem : FOR.maxL xs ∈ xs := by
    cases xs with
    | nil => exact absurd rfl g.ne
    | cons a ys =>
      simp only [FOR.maxL]
      have : ∀ (l : List Nat) (a : Nat), l.foldl max a = a ∨ l.foldl max a ∈ l := by
        intro l
        induction l with
        | nil => intro a; simp
        | cons y ys ih =>
          intro a
          simp only [List.foldl_cons]
          rcases ih (max a y) with h | h
          · rw [h]
            by_cases hay : y ≤ a
            · left; omega
            · right; simp; left; omega
          · right; simp [h]
      rcases this ys a with h | h
      · rw [h]; simp
      · simp [h]
  exact ⟨fun x hx => ⟨FOR.minL_le xs x hx, FOR.le_maxL xs x hx⟩, hmin_mem, hmax_mem, rfl, rfl, rfl,
    (FOR.enc_length xs).symm⟩

/-- header accessors (GetMinValue / GetCount / GetOffsetWidth / ReadMetadata) read back what was encoded -/
theorem for_accessor_true (xs : List Nat) (g : FOR.Good xs) (rest : List Nat) :
    FOR.readHdr (FOR.enc xs ++ rest) = some ⟨(FOR.analyze xs).minValue, (FOR.analyze xs).offsetWidth, xs.length,
      Tagged.len (FOR.analyze xs).minValue, Tagged.len xs.length⟩ :=
  FOR.readHdr_enc xs g rest

/-- RLE: runCount = number of maximal runs, they expand back to the data, their lengths sum to count -/
theorem rle_meta_true (xs : List Nat) :
    RLE.expand (RLE.runs xs) = xs ∧ RLE.total (RLE.runs xs) = xs.length ∧
    (∀ r ∈ RLE.runs xs, 1 ≤ r.1) ∧ RLE.size xs = (RLE.enc xs).length :=
  ⟨RLE.expand_runs xs, RLE.total_runs xs, RLE.runs_pos xs, (RLE.enc_length xs).symm⟩

end Varint.Props.C16
