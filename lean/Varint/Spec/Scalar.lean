import Varint.Model.Bytes
/-
  Format specifications of the scalar families, written from the repository's documentation only
  (the ENCODE table in varintTagged.c, the KEY diagram in varintChained.c, LEB128 capped at nine
  bytes as described in varintChainedSimple.c). Independent of how the encoders are written:
  the model encoders are *proved* equal to these in Props/C04.
-/
namespace Varint.Spec

/-- sqlite4 varint, ENCODE section -/
def tagged (v : Nat) : List Nat :=
  if v ≤ 240 then [v]
  else if v ≤ 2287 then [(v - 240) / 256 + 241, (v - 240) % 256]
  else if v ≤ 67823 then [249, (v - 2288) / 256, (v - 2288) % 256]
  else if v ≤ 16777215 then 250 :: beBytes 3 v
  else if v ≤ 4294967295 then 251 :: beBytes 4 v
  else if v ≤ 1099511627775 then 252 :: beBytes 5 v
  else if v ≤ 281474976710655 then 253 :: beBytes 6 v
  else if v ≤ 72057594037927935 then 254 :: beBytes 7 v
  else 255 :: beBytes 8 v

/-- `k` 7-bit groups of `x`, most significant first -/
def be7 : Nat → Nat → List Nat
  | 0, _ => []
  | k + 1, x => be7 k (x / 128) ++ [x % 128]

/-- `k` 7-bit groups of `x`, least significant first -/
def le7 : Nat → Nat → List Nat
  | 0, _ => []
  | k + 1, x => (x % 128) :: le7 k (x / 128)

/-- number of 7-bit groups needed (at least one) -/
def groups7 (v : Nat) : Nat := len7 v

/-- sqlite3 varint: A | BA | BBA | … | BBBBBBBA for values below 2^56, BBBBBBBBC otherwise
    (A = 0xxxxxxx, B = 1xxxxxxx, C = xxxxxxxx), big-endian -/
def chained (v : Nat) : List Nat :=
  if v < 2 ^ 56 then (be7 (groups7 v - 1) (v / 128)).map (· + 128) ++ [v % 128]
  else (be7 8 (v / 256)).map (· + 128) ++ [v % 256]

/-- LEB128 (little-endian base 128, continuation flag on every byte but the last), except that a
    ninth byte carries the remaining eight bits without a flag -/
def leb128cap9 (v : Nat) : List Nat :=
  if v < 2 ^ 56 then (le7 (groups7 v - 1) v).map (· + 128) ++ [v / 128 ^ (groups7 v - 1)]
  else (le7 8 v).map (· + 128) ++ [v / 2 ^ 56]

/-- zig-zag map of a signed value: n ↦ 2n for n ≥ 0, −2n−1 for n < 0 -/
def zigzag (n : Int) : Nat := if 0 ≤ n then (2 * n).toNat else (-2 * n - 1).toNat

end Varint.Spec
