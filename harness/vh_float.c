/* varintFloat: doubles are exchanged as 64-bit patterns and compared bitwise (C07, C03, C16). */
#include "vh.h"

#include <math.h>

#include "varintFloat.h"

extern uint64_t *vh_parse_array(const VhLine *l, int *argi, size_t *n);

static void show(const char *key, const uint8_t *p, size_t n) {
    if (n <= 96) {
        out_hex(key, p, n);
    } else {
        uint64_t h = 0xcbf29ce484222325ULL;
        for (size_t i = 0; i < n; i++) {
            h = dg(h, p[i]);
        }
        out("%s=#%" PRIx64, key, h);
    }
}
static int is_special(uint64_t b) {
    uint64_t e = (b >> 52) & 0x7ff;
    return e == 0x7ff || e == 0;
}

/* relative-error check on exact arithmetic: |d' - d| <= |d| * 2^-mb (long double holds the difference exactly) */
static bool within(double orig, double got, int mb) {
    if (isinf(got)) {
        /* rounding above DBL_MAX may give infinity of the same sign */
        uint64_t u;
        memcpy(&u, &orig, 8);
        return ((u >> 52) & 0x7ff) == 0x7fe && signbit(got) == signbit(orig);
    }
    long double diff = fabsl((long double)got - (long double)orig);
    long double lim = ldexpl(fabsl((long double)orig), -mb);
    return diff <= lim;
}

static void check_decode(const char *tag, const uint8_t *enc, size_t len, const uint64_t *v, size_t n, int prec, int mb,
                         double requested) {
    uint8_t *e = exact_copy(enc, len);
    double *o = malloc((n + 2) * sizeof(double));
    uint64_t guard = 0xA5A5A5A5A5A5A5A5ULL;
    memcpy(&o[n], &guard, 8);
    size_t used = varintFloatDecode(e, n, o);
    if (used != len) {
        mon("C16", "%s: decoder consumed %zu bytes, encoder produced %zu", tag, used, len);
    }
    if (memcmp(&o[n], &guard, 8) != 0) {
        mon("C13", "%s: decoder wrote past %zu values", tag, n);
    }
    for (size_t i = 0; i < n; i++) {
        uint64_t got;
        memcpy(&got, &o[i], 8);
        double orig;
        memcpy(&orig, &v[i], 8);
        if (prec == 0 || is_special(v[i])) {
            if (got != v[i]) {
                mon("C07", "%s: value %zu (%016" PRIx64 ") %s decodes as %016" PRIx64, tag, i, v[i],
                    is_special(v[i]) ? "is special (NaN/Inf/zero/subnormal) but" : "in FULL precision", got);
                break;
            }
        } else {
            if (signbit(o[i]) != signbit(orig) || !within(orig, o[i], mb)) {
                mon("C07", "%s: value %zu (%016" PRIx64 " = %.17g) decodes as %016" PRIx64 " = %.17g: relative error above 2^-%d",
                    tag, i, v[i], orig, got, o[i], mb);
                break;
            }
            if (requested > 0 && !isinf(o[i]) && fabsl((long double)o[i] - (long double)orig) > fabsl((long double)orig) * (long double)requested) {
                mon("C07", "%s: value %zu reconstruction error exceeds the requested %.17g", tag, i, requested);
                break;
            }
        }
    }
    free(o);
    free(e);
}

/* float.rt p=<precision> m=<mode> <array of 64-bit patterns> */
static void op_float_rt(const VhLine *l) {
    int prec = (int)p_u64(kw(l, "p")), mode = (int)p_u64(kw(l, "m"));
    int ai = 1;
    while (ai < l->n && strchr(l->tok[ai], '=')) {
        ai++;
    }
    size_t n;
    uint64_t *v = vh_parse_array(l, &ai, &n);
    size_t adv = varintFloatMaxEncodedSize(n, (varintFloatPrecision)prec);
    uint8_t *d = malloc(adv + 256);
    memset(d, 0xEE, adv + 256);
    size_t len = varintFloatEncode(d, (const double *)v, n, (varintFloatPrecision)prec, (varintFloatEncodingMode)mode);
    out("len=%zu", len);
    show("b", d, len);
    out("adv=%zu", adv);
    for (int i = 255; i >= 0; i--) {
        if (d[adv + (size_t)i] != 0xEE) {
            mon("C03", "float encoder wrote %d byte(s) past varintFloatMaxEncodedSize = %zu", i + 1, adv);
            break;
        }
    }
    if (len > adv) {
        mon("C03", "float encoder returned %zu bytes, varintFloatMaxEncodedSize = %zu", len, adv);
    }
    if (n && len) {
        check_decode("float", d, len, v, n, prec, varintFloatPrecisionMantissaBits((varintFloatPrecision)prec), 0);
        /* the decoder's answer itself, for the correspondence with the model's array decoder (Float.decFull) */
        uint8_t *e = exact_copy(d, len);
        double *o = calloc(n + 1, sizeof(double));
        size_t used = varintFloatDecode(e, n, o);
        out("used=%zu", used);
        show("d", (const uint8_t *)o, n * 8);
        free(o);
        free(e);
    }
    free(d);
    free(v);
}

/* float.auto e=<requested error as 64-bit pattern> m=<mode> <array> */
static void op_float_auto(const VhLine *l) {
    uint64_t eb = p_u64(kw(l, "e"));
    int mode = (int)p_u64(kw(l, "m"));
    double req;
    memcpy(&req, &eb, 8);
    int ai = 1;
    while (ai < l->n && strchr(l->tok[ai], '=')) {
        ai++;
    }
    size_t n;
    uint64_t *v = vh_parse_array(l, &ai, &n);
    size_t adv = varintFloatMaxEncodedSize(n, VARINT_FLOAT_PRECISION_FULL);
    uint8_t *d = malloc(adv + 16);
    varintFloatPrecision sel = (varintFloatPrecision)99;
    size_t len = varintFloatEncodeAuto(d, (const double *)v, n, req, (varintFloatEncodingMode)mode, &sel);
    out("sel=%d len=%zu", (int)sel, len);
    show("b", d, len);
    if (req > 0 && req < 1) {
        double bound = varintFloatPrecisionMaxRelativeError(sel);
        if (sel != VARINT_FLOAT_PRECISION_FULL && bound > req) {
            mon("C07", "EncodeAuto(%.17g) selected precision %d whose error bound %.17g exceeds the request", req, (int)sel, bound);
        }
        if (n && len) {
            check_decode("float.auto", d, len, v, n, (int)sel, varintFloatPrecisionMantissaBits(sel), req);
        }
    }
    free(d);
    free(v);
}

const VhOp vh_float_ops[] = {{"float.rt", op_float_rt}, {"float.auto", op_float_auto}, {NULL, NULL}};
