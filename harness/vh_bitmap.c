/* varintBitmap: histories of operations on two bitmaps A and B compared after every step with
 * 65536-bit reference sets (C08). */
#include "vh.h"

#include "varintBitmap.h"

typedef struct {
    uint8_t bit[65536];
} Ref;

static uint32_t ref_card(const Ref *r) {
    uint32_t c = 0;
    for (uint32_t i = 0; i < 65536; i++) {
        c += r->bit[i];
    }
    return c;
}

/* compare every public answer of vb with the reference set */
static void compare(const char *what, const char *tok, const varintBitmap *vb, const Ref *r) {
    static uint16_t arr[65536 + 8];
    uint32_t rc = ref_card(r);
    uint32_t card = varintBitmapCardinality(vb);
    if (card != rc) {
        mon("C08", "%s after %s: cardinality %u, reference set has %u", what, tok, card, rc);
    }
    if (varintBitmapIsEmpty(vb) != (rc == 0)) {
        mon("C08", "%s after %s: isEmpty disagrees with the reference set (%u members)", what, tok, rc);
    }
    arr[rc < 65536 ? rc : 65535] = 0xBEEF;
    uint32_t n = rc <= 65536 ? varintBitmapToArray(vb, arr) : 0;
    if (n != rc) {
        mon("C08", "%s after %s: toArray produced %u values, reference set has %u", what, tok, n, rc);
    } else {
        uint32_t k = 0;
        for (uint32_t v = 0; v < 65536 && k < n; v++) {
            if (r->bit[v]) {
                if (arr[k] != v) {
                    mon("C08", "%s after %s: toArray[%u] = %u, reference set has %u there", what, tok, k, arr[k], v);
                    break;
                }
                k++;
            }
        }
    }
    /* iteration: ascending, duplicate free, same members */
    varintBitmapIterator it = varintBitmapCreateIterator(vb);
    uint32_t cnt = 0;
    long prev = -1;
    while (varintBitmapIteratorNext(&it) && cnt <= 65536) {
        if ((long)it.currentValue <= prev || !r->bit[it.currentValue]) {
            mon("C08", "%s after %s: iteration yields %u after %ld (not ascending / not a member)", what, tok,
                it.currentValue, prev);
            break;
        }
        prev = it.currentValue;
        cnt++;
    }
    if (cnt != rc) {
        mon("C08", "%s after %s: iteration yields %u values, reference set has %u", what, tok, cnt, rc);
    }
    /* membership probes: boundaries and a stride */
    static const uint32_t probes[] = {0, 1, 7, 8, 255, 256, 4095, 4096, 4097, 32767, 32768, 65534, 65535};
    for (size_t i = 0; i < sizeof(probes) / sizeof(probes[0]); i++) {
        if (varintBitmapContains(vb, (uint16_t)probes[i]) != (r->bit[probes[i]] != 0)) {
            mon("C08", "%s after %s: contains(%u) disagrees with the reference set", what, tok, probes[i]);
        }
    }
    for (uint32_t v = 3; v < 65536; v += 257) {
        if (varintBitmapContains(vb, (uint16_t)v) != (r->bit[v] != 0)) {
            mon("C08", "%s after %s: contains(%u) disagrees with the reference set", what, tok, v);
            break;
        }
    }
}

static bool same_set(const varintBitmap *vb, const Ref *r) {
    static uint16_t arr[65536 + 8];
    uint32_t n = varintBitmapToArray(vb, arr);
    if (n != ref_card(r)) {
        return false;
    }
    for (uint32_t k = 0; k < n; k++) {
        if (!r->bit[arr[k]]) {
            return false;
        }
    }
    return true;
}

/* bitmap.hist tok tok ...
 *   add:v rem:v addr:min:max remr:min:max clear clone addm:v,v,v enc or and xor andnot swap
 *   prefix "b." applies the mutation to the second bitmap B. Binary ops compute op(A,B) and replace A.
 * prints r=<change reports of add/rem> ca= cb= ta= tb= ha= hb= (cardinalities, container types, digests) */
static void op_bitmap_hist(const VhLine *l) {
    varintBitmap *A = varintBitmapCreate(), *B = varintBitmapCreate();
    static Ref ra, rb, tmp;
    memset(&ra, 0, sizeof(ra));
    memset(&rb, 0, sizeof(rb));
    char rbuf[8192];
    size_t rl = 0;
    rbuf[0] = 0;
    for (int t = 1; t < l->n; t++) {
        char *tok = l->tok[t];
        bool onB = strncmp(tok, "b.", 2) == 0;
        char *op = onB ? tok + 2 : tok;
        varintBitmap **X = onB ? &B : &A;
        Ref *rx = onB ? &rb : &ra;
        uint64_t a0 = 0, a1 = 0;
        char *c = strchr(op, ':');
        if (c) {
            a0 = strtoull(c + 1, &c, 16);
            if (*c == ':') {
                a1 = strtoull(c + 1, &c, 16);
            }
        }
        int rep = -1;
        if (strncmp(op, "addr", 4) == 0) {
            varintBitmapAddRange(*X, (uint16_t)a0, (uint16_t)a1);
            for (uint64_t v = a0; v < a1; v++) {
                rx->bit[v] = 1;
            }
        } else if (strncmp(op, "addm", 4) == 0) {
            static uint16_t vals[4096];
            uint32_t k = 0;
            char *q = strchr(op, ':');
            while (q && k < 4096) {
                vals[k] = (uint16_t)strtoull(q + 1, &q, 16);
                rx->bit[vals[k]] = 1;
                k++;
                if (*q != ',') {
                    q = NULL;
                }
            }
            varintBitmapAddMany(*X, vals, k);
        } else if (strncmp(op, "add", 3) == 0) {
            rep = varintBitmapAdd(*X, (uint16_t)a0) ? 1 : 0;
            if (rep != (rx->bit[a0] ? 0 : 1)) {
                mon("C08", "add(%" PRIu64 ") reported %d but the value was %s", a0, rep, rx->bit[a0] ? "already present" : "absent");
            }
            rx->bit[a0] = 1;
        } else if (strncmp(op, "remr", 4) == 0) {
            varintBitmapRemoveRange(*X, (uint16_t)a0, (uint16_t)a1);
            for (uint64_t v = a0; v < a1; v++) {
                rx->bit[v] = 0;
            }
        } else if (strncmp(op, "rem", 3) == 0) {
            rep = varintBitmapRemove(*X, (uint16_t)a0) ? 1 : 0;
            if (rep != (rx->bit[a0] ? 1 : 0)) {
                mon("C08", "remove(%" PRIu64 ") reported %d but the value was %s", a0, rep, rx->bit[a0] ? "present" : "absent");
            }
            rx->bit[a0] = 0;
        } else if (strncmp(op, "druns", 5) == 0) {
            /* druns:s1-l1,s2-l2,... : X := deserialise(a well-formed RUNS container with SEVERAL runs) - the only way
             * such a container comes into being; whatever is done to it afterwards must treat it as the set it is */
            uint8_t wire[9 + 4 * 64];
            uint32_t nr = 0, card = 0;
            memset(rx, 0, sizeof(*rx));
            const char *q = strchr(op, ':');
            while (q && *q && nr < 64) {
                char *e2 = NULL;
                unsigned long st = strtoul(q + 1, &e2, 16);
                unsigned long ln = (*e2 == '-') ? strtoul(e2 + 1, &e2, 16) : 0;
                uint16_t s16 = (uint16_t)st, l16 = (uint16_t)ln;
                memcpy(wire + 9 + 4 * nr, &s16, 2);
                memcpy(wire + 9 + 4 * nr + 2, &l16, 2);
                for (unsigned long v = st; v < st + ln && v < 65536; v++) {
                    rx->bit[v] = 1;
                }
                card += (uint32_t)ln;
                nr++;
                q = (*e2 == ',') ? e2 : NULL;
            }
            wire[0] = 2;
            memcpy(wire + 1, &card, 4);
            memcpy(wire + 5, &nr, 4);
            uint8_t *e = exact_copy(wire, 9 + 4 * (size_t)nr);
            varintBitmap *d = varintBitmapDecode(e, 9 + 4 * (size_t)nr);
            free(e);
            if (d) {
                varintBitmapFree(*X);
                *X = d;
            } else {
                mon("C08", "deserialising a well-formed %u-run container failed", nr);
            }
        } else if (strcmp(op, "clear") == 0) {
            varintBitmapClear(*X);
            memset(rx, 0, sizeof(*rx));
        } else if (strcmp(op, "clone") == 0) {
            varintBitmap *cl = varintBitmapClone(*X);
            varintBitmapFree(*X);
            *X = cl;
        } else if (strcmp(op, "enc") == 0) {
            size_t sz = varintBitmapSizeBytes(*X) + 16;
            uint8_t *buf = malloc(sz + 8192 + 16);
            size_t len = varintBitmapEncode(*X, buf);
            uint8_t *e = exact_copy(buf, len);
            varintBitmap *d = varintBitmapDecode(e, len);
            free(e);
            free(buf);
            varintBitmapFree(*X);
            *X = d;
        } else if (strcmp(op, "swap") == 0) {
            varintBitmap *tb = A;
            A = B;
            B = tb;
            tmp = ra;
            ra = rb;
            rb = tmp;
        } else if (strcmp(op, "or") == 0 || strcmp(op, "and") == 0 || strcmp(op, "xor") == 0 || strcmp(op, "andnot") == 0) {
            varintBitmap *R = op[0] == 'o'   ? varintBitmapOr(A, B)
                              : op[0] == 'x' ? varintBitmapXor(A, B)
                              : op[3] == 'n' ? varintBitmapAndNot(A, B)
                                             : varintBitmapAnd(A, B);
            /* operands must be unchanged */
            if (!same_set(A, &ra) || !same_set(B, &rb)) {
                mon("C08", "%s modified one of its operands", op);
            }
            for (uint32_t v = 0; v < 65536; v++) {
                uint8_t x = ra.bit[v], y = rb.bit[v];
                ra.bit[v] = op[0] == 'o' ? (x | y) : op[0] == 'x' ? (x ^ y) : op[3] == 'n' ? (uint8_t)(x & !y) : (x & y);
            }
            varintBitmapFree(A);
            A = R;
        } else {
            continue;
        }
        if (rep >= 0 && rl + 4 < sizeof(rbuf)) {
            rbuf[rl++] = (char)('0' + rep);
            rbuf[rl] = 0;
        }
        compare("A", tok, A, &ra);
        compare("B", tok, B, &rb);
    }
    static uint16_t arr[65536 + 8];
    uint64_t h[2];
    varintBitmap *both[2] = {A, B};
    for (int k = 0; k < 2; k++) {
        uint32_t n = varintBitmapToArray(both[k], arr);
        uint64_t x = 0xcbf29ce484222325ULL;
        for (uint32_t i = 0; i < n; i++) {
            x = dg(x, arr[i]);
        }
        h[k] = x;
    }
    out("r=%s ca=%u cb=%u ta=%d tb=%d ha=%" PRIx64 " hb=%" PRIx64, rl ? rbuf : "-", varintBitmapCardinality(A),
        varintBitmapCardinality(B), (int)A->type, (int)B->type, h[0], h[1]);
    varintBitmapFree(A);
    varintBitmapFree(B);
}

const VhOp vh_bitmap_ops[] = {{"bitmap.hist", op_bitmap_hist}, {NULL, NULL}};
