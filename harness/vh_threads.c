/* C17: concurrent calls of the pure codecs. T threads share read-only input arrays and each owns its output
 * buffers; every thread runs I calls picked by its own PRNG from a menu covering the scalar varints, every
 * array codec, the float and adaptive layers and packed arrays / bitstreams on private storage. The digest of
 * every concurrent result is compared with the digest of the same call made alone before the threads start.
 * Built with -fsanitize=thread in the `tsan` configuration: a data race is a report (halt_on_error). */
#include "vh.h"

#include "varint.h"
#include "varintAdaptive.h"
#include "varintBP128.h"
#include "varintChained.h"
#include "varintChainedSimple.h"
#include "varintDelta.h"
#include "varintDict.h"
#include "varintElias.h"
#include "varintExternal.h"
#include "varintFOR.h"
#include "varintFloat.h"
#include "varintGroup.h"
#include "varintPFOR.h"
#include "varintRLE.h"
#include "varintTagged.h"
#include <pthread.h>

#define PACK_STORAGE_BITS 12
#define PACK_FUNCTION_PREFIX mt12_
#define PACK_STATIC
#include "varintPacked.h"

#include "varintBitstream.h" /* default slot type: uint64_t */

typedef struct {
    uint8_t *enc;
    size_t cap;
    uint64_t *dec;
    uint32_t *v32;
    uint32_t *d32;
} Priv;

static uint64_t hb(uint64_t h, const uint8_t *p, size_t n) {
    for (size_t i = 0; i < n; i++) {
        h = dg(h, p[i]);
    }
    return dg(h, n);
}
static uint64_t hv(uint64_t h, const uint64_t *p, size_t n) {
    for (size_t i = 0; i < n; i++) {
        h = dg(h, p[i]);
    }
    return dg(h, n);
}

typedef uint64_t (*CallFn)(const uint64_t *in, size_t n, Priv *p);
#define H0 0xcbf29ce484222325ULL

static uint64_t c_tagged(const uint64_t *in, size_t n, Priv *p) {
    uint64_t h = H0;
    for (size_t i = 0; i < n; i++) {
        varintWidth w = varintTaggedPut64(p->enc, in[i]);
        uint64_t v = 0;
        varintWidth r = varintTaggedGet64(p->enc, &v);
        h = dg(hb(h, p->enc, w), v ^ r);
    }
    return h;
}
static uint64_t c_external(const uint64_t *in, size_t n, Priv *p) {
    uint64_t h = H0;
    for (size_t i = 0; i < n; i++) {
        varintWidth w = varintExternalPut(p->enc, in[i]);
        h = dg(hb(h, p->enc, w), varintExternalGet(p->enc, w));
    }
    return h;
}
static uint64_t c_chained(const uint64_t *in, size_t n, Priv *p) {
    uint64_t h = H0;
    for (size_t i = 0; i < n; i++) {
        varintWidth w = varintChainedPutVarint(p->enc, in[i]);
        uint64_t v = 0;
        varintChainedGetVarint(p->enc, &v);
        h = dg(hb(h, p->enc, w), v);
    }
    return h;
}
static uint64_t c_csimple(const uint64_t *in, size_t n, Priv *p) {
    uint64_t h = H0;
    for (size_t i = 0; i < n; i++) {
        varintWidth w = varintChainedSimpleEncode64(p->enc, in[i]);
        uint64_t v = 0;
        varintChainedSimpleDecode64(p->enc, &v);
        h = dg(hb(h, p->enc, w), v);
    }
    return h;
}
static uint64_t c_delta(const uint64_t *in, size_t n, Priv *p) {
    size_t len = varintDeltaEncodeUnsigned(p->enc, in, n);
    varintDeltaDecodeUnsigned(p->enc, n, p->dec);
    return hv(hb(H0, p->enc, len), p->dec, n);
}
static uint64_t c_for(const uint64_t *in, size_t n, Priv *p) {
    varintFORMeta m;
    memset(&m, 0, sizeof(m));
    size_t len = varintFOREncode(p->enc, in, n, &m);
    size_t r = varintFORDecode(p->enc, p->dec, n);
    return hv(hb(H0, p->enc, len), p->dec, r);
}
static uint64_t c_pfor(const uint64_t *in, size_t n, Priv *p) {
    varintPFORMeta m, dm;
    memset(&m, 0, sizeof(m));
    size_t len = varintPFOREncode(p->enc, in, (uint32_t)n, 95, &m);
    memset(&dm, 0, sizeof(dm));
    varintPFORReadMeta(p->enc, &dm);
    size_t r = varintPFORDecode(p->enc, p->dec, &dm);
    return hv(hb(H0, p->enc, len), p->dec, r);
}
static uint64_t c_dict(const uint64_t *in, size_t n, Priv *p) {
    size_t len = varintDictEncode(p->enc, in, n);
    size_t r = varintDictDecodeInto(p->enc, len, p->dec, n);
    return hv(hb(H0, p->enc, len), p->dec, r);
}
static uint64_t c_rle(const uint64_t *in, size_t n, Priv *p) {
    varintRLEMeta m;
    memset(&m, 0, sizeof(m));
    size_t len = varintRLEEncodeWithHeader(p->enc, in, n, &m);
    size_t r = varintRLEDecodeWithHeader(p->enc, p->dec, n);
    return hv(hb(H0, p->enc, len), p->dec, r);
}
static uint64_t c_group(const uint64_t *in, size_t n, Priv *p) {
    uint8_t k = (uint8_t)(n > 60 ? 60 : n);
    size_t len = varintGroupEncode(p->enc, in, k);
    uint8_t cnt = 0;
    varintGroupDecode(p->enc, p->dec, &cnt, k);
    return hv(hb(H0, p->enc, len), p->dec, cnt);
}
static uint64_t c_gamma(const uint64_t *in, size_t n, Priv *p) {
    size_t k = n > 256 ? 256 : n;
    for (size_t i = 0; i < k; i++) {
        p->dec[n + i] = in[i] ? in[i] : 1; /* private scratch behind the decode area */
    }
    varintEliasMeta m;
    memset(&m, 0, sizeof(m));
    size_t len = varintEliasGammaEncodeArray(p->enc, p->dec + n, k, &m);
    size_t r = varintEliasGammaDecodeArray(p->enc, m.totalBits, p->dec, k);
    return hv(hb(H0, p->enc, len), p->dec, r);
}
static uint64_t c_edelta(const uint64_t *in, size_t n, Priv *p) {
    size_t k = n > 256 ? 256 : n;
    for (size_t i = 0; i < k; i++) {
        p->dec[n + i] = in[i] ? in[i] : 1;
    }
    varintEliasMeta m;
    memset(&m, 0, sizeof(m));
    size_t len = varintEliasDeltaEncodeArray(p->enc, p->dec + n, k, &m);
    size_t r = varintEliasDeltaDecodeArray(p->enc, m.totalBits, p->dec, k);
    return hv(hb(H0, p->enc, len), p->dec, r);
}
static uint64_t c_bp64(const uint64_t *in, size_t n, Priv *p) {
    varintBP128Meta m;
    memset(&m, 0, sizeof(m));
    size_t len = varintBP128DeltaEncode64(p->enc, in, n, &m);
    size_t r = varintBP128DeltaDecode64(p->enc, p->dec, n);
    return hv(hb(H0, p->enc, len), p->dec, r);
}
static uint64_t c_bp32(const uint64_t *in, size_t n, Priv *p) {
    for (size_t i = 0; i < n; i++) {
        p->v32[i] = (uint32_t)in[i];
    }
    varintBP128Meta m;
    memset(&m, 0, sizeof(m));
    size_t len = varintBP128Encode32(p->enc, p->v32, n, &m);
    size_t r = varintBP128Decode32(p->enc, p->d32, n);
    uint64_t h = hb(H0, p->enc, len);
    for (size_t i = 0; i < r; i++) {
        h = dg(h, p->d32[i]);
    }
    return h;
}
static uint64_t c_float(const uint64_t *in, size_t n, Priv *p) {
    size_t len = varintFloatEncode(p->enc, (const double *)in, n, VARINT_FLOAT_PRECISION_HIGH, VARINT_FLOAT_MODE_COMMON_EXPONENT);
    varintFloatDecode(p->enc, n, (double *)p->dec);
    return hv(hb(H0, p->enc, len), p->dec, n);
}
static uint64_t c_adaptive(const uint64_t *in, size_t n, Priv *p) {
    varintAdaptiveMeta m;
    memset(&m, 0, sizeof(m));
    size_t len = varintAdaptiveEncode(p->enc, in, n, &m);
    size_t r = varintAdaptiveDecode(p->enc, p->dec, n, NULL);
    return hv(hb(H0, p->enc, len), p->dec, r);
}
static uint64_t c_packed(const uint64_t *in, size_t n, Priv *p) {
    size_t k = n > 512 ? 512 : n;
    memset(p->enc, 0, k * 2 + 16);
    for (size_t i = 0; i < k; i++) {
        mt12_12Set(p->enc, (uint32_t)i, (uint16_t)(in[i] & 0xFFF));
    }
    uint64_t h = hb(H0, p->enc, (k * 12 + 7) / 8);
    for (size_t i = 0; i < k; i++) {
        h = dg(h, mt12_12Get(p->enc, (uint32_t)i));
    }
    return h;
}
static uint64_t c_bitstream(const uint64_t *in, size_t n, Priv *p) {
    size_t k = n > 256 ? 256 : n;
    vbits *w = (vbits *)p->dec;
    memset(w, 0, (k + 2) * sizeof(vbits));
    size_t off = 3;
    for (size_t i = 0; i < k; i++) {
        size_t bits = 1 + (size_t)(in[i] % 61);
        varintBitstreamSet(w, off, bits, in[i] & ((1ULL << bits) - 1));
        off += bits;
    }
    return hv(H0, w, k + 2);
}

static const struct {
    const char *name;
    CallFn fn;
} MENU[] = {{"tagged", c_tagged},   {"external", c_external}, {"chained", c_chained}, {"csimple", c_csimple},
            {"delta", c_delta},     {"for", c_for},           {"pfor", c_pfor},       {"dict", c_dict},
            {"rle", c_rle},         {"group", c_group},       {"gamma", c_gamma},     {"edelta", c_edelta},
            {"bp64", c_bp64},       {"bp32", c_bp32},         {"float", c_float},     {"adaptive", c_adaptive},
            {"packed", c_packed},   {"bitstream", c_bitstream}};
#define NMENU (sizeof(MENU) / sizeof(MENU[0]))
#define NIN 6

typedef struct {
    const uint64_t *const *in;
    size_t n;
    const uint64_t *ref; /* NMENU x NIN */
    uint64_t seed;
    size_t iters;
    long only; /* >= 0: every call is this MENU entry */
    size_t bad;
    size_t firstbad;
    Priv p;
} Arg;

static void priv_init(Priv *p, size_t n) {
    p->cap = n * 24 + 16384;
    p->enc = malloc(p->cap);
    p->dec = malloc((2 * n + 600) * sizeof(uint64_t));
    p->v32 = malloc((n + 8) * sizeof(uint32_t));
    p->d32 = malloc((n + 8) * sizeof(uint32_t));
}
static void priv_free(Priv *p) {
    free(p->enc);
    free(p->dec);
    free(p->v32);
    free(p->d32);
}

static void *worker(void *a_) {
    Arg *a = a_;
    uint64_t st = a->seed;
    for (size_t i = 0; i < a->iters; i++) {
        uint64_t r = sm64(&st);
        size_t c = a->only >= 0 ? (size_t)a->only : (size_t)(r % NMENU), k = (size_t)((r >> 20) % NIN);
        uint64_t h = MENU[c].fn(a->in[k], a->n, &a->p);
        if (h != a->ref[c * NIN + k]) {
            if (!a->bad) {
                a->firstbad = c * NIN + k;
            }
            a->bad++;
        }
    }
    return NULL;
}

/* mt threads=<T> iters=<I> seed=<S> n=<len> */
static void op_mt(const VhLine *l) {
    size_t T = (size_t)p_u64(kw(l, "threads")), I = (size_t)p_u64(kw(l, "iters")), n = (size_t)p_u64(kw(l, "n"));
    uint64_t seed = p_u64(kw(l, "seed"));
    long only = -1;
    if (kw(l, "only")) {
        for (size_t c = 0; c < NMENU; c++) {
            if (strcmp(MENU[c].name, kw(l, "only")) == 0) {
                only = (long)c;
            }
        }
    }
    if (T < 1 || T > 64 || n < 1 || n > 400000 || (kw(l, "only") && only < 0)) {
        out("bad-op");
        return;
    }
    uint64_t *in[NIN];
    uint64_t st = seed;
    for (int k = 0; k < NIN; k++) {
        in[k] = malloc(n * sizeof(uint64_t));
        uint64_t base = sm64(&st) >> (k * 9 % 50);
        for (size_t i = 0; i < n; i++) {
            uint64_t r = sm64(&st);
            switch (k) {
            case 0: in[k][i] = r; break;                                 /* full range */
            case 1: in[k][i] = base + i * 3; break;                      /* ascending */
            case 2: in[k][i] = r % 7; break;                             /* few distinct */
            case 3: in[k][i] = (r % 100 == 0) ? r : 1000 + r % 200; break; /* clustered with outliers */
            case 4: in[k][i] = i < 65000 ? i : r % 65536; break;          /* dense small ascending */
            default: in[k][i] = 0x3FF0000000000000ULL + (r >> 14); break; /* doubles near 1..2 */
            }
        }
    }
    uint64_t *ref = malloc(NMENU * NIN * sizeof(uint64_t));
    Priv p0;
    priv_init(&p0, n);
    for (size_t c = 0; c < NMENU; c++) {
        for (size_t k = 0; k < NIN; k++) {
            ref[c * NIN + k] = (only < 0 || (long)c == only) ? MENU[c].fn(in[k], n, &p0) : 0;
        }
    }
    /* the same call made twice alone gives the same digest */
    size_t unstable = 0;
    for (size_t c = 0; c < NMENU; c++) {
        for (size_t k = 0; k < NIN; k++) {
            if ((only < 0 || (long)c == only) && MENU[c].fn(in[k], n, &p0) != ref[c * NIN + k]) {
                unstable++;
            }
        }
    }
    priv_free(&p0);
    pthread_t th[64];
    Arg args[64];
    for (size_t t = 0; t < T; t++) {
        args[t].in = (const uint64_t *const *)in;
        args[t].n = n;
        args[t].ref = ref;
        args[t].seed = seed * 1315423911u + t * 2654435761u;
        args[t].iters = I;
        args[t].only = only;
        args[t].bad = 0;
        args[t].firstbad = 0;
        priv_init(&args[t].p, n);
    }
    for (size_t t = 0; t < T; t++) {
        pthread_create(&th[t], NULL, worker, &args[t]);
    }
    size_t bad = 0;
    for (size_t t = 0; t < T; t++) {
        pthread_join(th[t], NULL);
        if (args[t].bad) {
            mon("C17", "thread %zu: %zu of %zu concurrent call(s) differ from the same call made alone, first: %s on input %zu",
                t, args[t].bad, I, MENU[args[t].firstbad / NIN].name, args[t].firstbad % NIN);
        }
        bad += args[t].bad;
        priv_free(&args[t].p);
    }
    if (unstable) {
        mon("C17", "%zu call(s) give different results when repeated alone", unstable);
    }
    out("calls=%zx bad=%zx", T * I, bad + unstable);
    free(ref);
    for (int k = 0; k < NIN; k++) {
        free(in[k]);
    }
}

const VhOp vh_thread_ops[] = {{"mt", op_mt}, {NULL, NULL}};
