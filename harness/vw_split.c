/* Wrapper functions around the statement macros of src/varintSplit*.h — NOT part of the harness build.
 * tools/c2lean2.py translates these functions (clang expands the macros from /repo's CURRENT headers), so the Lean
 * definitions in lean/Varint/Gen/CSplit.lean are the macros' bodies as they are in the working tree. */
#include "varint.h"
#include "varintExternal.h"
#include "varintSplit.h"
#include "varintSplitFull.h"
#include "varintSplitFull16.h"
#include "varintSplitFullNoZero.h"

uint8_t vw_splitPut(uint8_t *dst, uint64_t val) {
    uint8_t len = 0;
    varintSplitPut_(dst, len, val);
    return len;
}
uint8_t vw_splitLength(uint64_t val) {
    uint8_t len = 0;
    varintSplitLength_(len, val);
    return len;
}
uint8_t vw_splitGet(const uint8_t *p, uint64_t *out) {
    uint8_t n = 0;
    uint64_t v = 0;
    varintSplitGet_(p, n, v);
    *out = v;
    return n;
}
uint8_t vw_splitGetLen(const uint8_t *p) {
    uint8_t n = 0;
    varintSplitGetLen_(p, n);
    return n;
}

/* varintSplitFull16.h */
uint8_t vw_split16Put(uint8_t *dst, uint64_t val) {
    uint8_t len = 0;
    varintSplitFull16Put_(dst, len, val);
    return len;
}
uint8_t vw_split16Length(uint64_t val) {
    uint8_t len = 0;
    varintSplitFull16Length_(len, val);
    return len;
}
uint8_t vw_split16Get(const uint8_t *p, uint64_t *out) {
    uint8_t n = 0;
    uint64_t v = 0;
    varintSplitFull16Get_(p, n, v);
    *out = v;
    return n;
}
uint8_t vw_split16GetLen(const uint8_t *p) {
    uint8_t n = 0;
    varintSplitFull16GetLen_(p, n);
    return n;
}
uint8_t vw_split16GetLenQuick(const uint8_t *p) {
    return (uint8_t)varintSplitFull16GetLenQuick_(p);
}

/* varintSplitFull.h */
uint8_t vw_splitFullPut(uint8_t *dst, uint64_t val) {
    uint8_t len = 0;
    varintSplitFullPut_(dst, len, val);
    return len;
}
uint8_t vw_splitFullLength(uint64_t val) {
    uint8_t len = 0;
    varintSplitFullLength_(len, val);
    return len;
}
uint8_t vw_splitFullGet(const uint8_t *p, uint64_t *out) {
    uint8_t n = 0;
    uint64_t v = 0;
    varintSplitFullGet_(p, n, v);
    *out = v;
    return n;
}
uint8_t vw_splitFullGetLen(const uint8_t *p) {
    uint8_t n = 0;
    varintSplitFullGetLen_(p, n);
    return n;
}
uint8_t vw_splitFullGetLenQuick(const uint8_t *p) {
    return (uint8_t)varintSplitFullGetLenQuick_(p);
}

/* varintSplitFullNoZero.h */
uint8_t vw_splitNZPut(uint8_t *dst, uint64_t val) {
    uint8_t len = 0;
    varintSplitFullNoZeroPut_(dst, len, val);
    return len;
}
uint8_t vw_splitNZLength(uint64_t val) {
    uint8_t len = 0;
    varintSplitFullNoZeroLength_(len, val);
    return len;
}
uint8_t vw_splitNZGet(const uint8_t *p, uint64_t *out) {
    uint8_t n = 0;
    uint64_t v = 0;
    varintSplitFullNoZeroGet_(p, n, v);
    *out = v;
    return n;
}
uint8_t vw_splitNZGetLen(const uint8_t *p) {
    uint8_t n = 0;
    varintSplitFullNoZeroGetLen_(p, n);
    return n;
}
uint8_t vw_splitNZGetLenQuick(const uint8_t *p) {
    return (uint8_t)varintSplitFullNoZeroGetLenQuick_(p);
}
