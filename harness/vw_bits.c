/* Wrapper functions around the statement macros of src/varintBitstream.h — NOT part of the harness build; read only by
 * tools/c2lean2.py (clang expands the macros from /repo's CURRENT header). */
#include <stdint.h>
#include <stddef.h>
#include "varintBitstream.h"

/* applied by callers to negative values only */
uint64_t vw_bitsPrepareSigned(int64_t val, uint32_t width) {
    _varintBitstreamPrepareSigned(val, width);
    return (uint64_t)val;
}
int64_t vw_bitsRestoreSigned(uint64_t stored, uint32_t width) {
    int64_t result = (int64_t)stored;
    _varintBitstreamRestoreSigned(result, width);
    return result;
}
