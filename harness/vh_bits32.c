#include "vh.h"
#define VBITS uint32_t
#define VBITSVAL uint32_t
#define VH_W 32
#include "vh_bits.inc"
void (*const vh_bits_set_32)(const VhLine *) = op_bits_set_32;
void (*const vh_bits_far_32)(const VhLine *) = op_bits_far_32;
