/* C14: every length-taking decoder on arbitrary bytes. The input lives (a) in a heap block of exactly
 * the declared size (ASan red zone right behind it) and (b) at the end of a mapping whose next page is
 * PROT_NONE, so a load at or beyond the declared size is a report / a fault in every build
 * configuration. Allocation requests are observed through the interposer of vh_alloc.c. */
#include "vh.h"
#include "varintBitmap.h"
#include "varintDict.h"
#include "varintElias.h"
#include "varintRLE.h"
#include <sys/mman.h>
#include <unistd.h>

void vh_track_begin(long fail_at);
void vh_track_end(void);
extern size_t vh_nalloc, vh_maxreq, vh_refused, vh_live;

typedef struct {
    uint8_t *map;
    size_t maplen;
    uint8_t *p; /* n bytes ending exactly at the protected page */
} Guarded;

static Guarded guard_copy(const uint8_t *src, size_t n) {
    Guarded g;
    size_t pg = (size_t)sysconf(_SC_PAGESIZE);
    size_t body = (n + pg - 1) / pg * pg;
    if (body == 0) {
        body = pg;
    }
    g.maplen = body + pg;
    g.map = mmap(NULL, g.maplen, PROT_READ | PROT_WRITE, MAP_PRIVATE | MAP_ANONYMOUS, -1, 0);
    if (g.map == MAP_FAILED) {
        abort();
    }
    memset(g.map, 0x5A, body);
    mprotect(g.map + body, pg, PROT_NONE);
    g.p = g.map + body - n;
    if (n) {
        memcpy(g.p, src, n);
    }
    return g;
}
static void guard_free(Guarded *g) {
    munmap(g->map, g->maplen);
}

static uint64_t digest_vals(const uint64_t *v, size_t n) {
    uint64_t h = 0xcbf29ce484222325ULL;
    for (size_t i = 0; i < n; i++) {
        h = dg(h, v[i]);
    }
    return h;
}

#define OG 8
#define PAT 0xA5A5A5A5A5A5A5A5ULL
static uint64_t *cap_alloc(size_t cap) {
    uint64_t *p = malloc((cap + OG) * sizeof(uint64_t));
    for (size_t i = 0; i < cap + OG; i++) {
        p[i] = PAT;
    }
    return p;
}
static void cap_check(const char *nm, const uint64_t *p, size_t cap, size_t ret) {
    for (size_t i = 0; i < OG; i++) {
        if (p[cap + i] != PAT) {
            mon("C14", "%s wrote element %zu of an output with capacity %zu", nm, cap + i, cap);
            break;
        }
    }
    if (ret > cap) {
        mon("C14", "%s returned %zu values for capacity %zu", nm, ret, cap);
    }
}
static void alloc_check(const char *nm, size_t n) {
    if (vh_refused) {
        mon("C14", "%s requested an allocation of %zu bytes for a %zu-byte input", nm, vh_maxreq, n);
    }
    if (vh_live) {
        mon("C18", "%s left %zu block(s) allocated", nm, vh_live);
    }
}

/* b.dict hex:<bytes> : varintDictDecode on exactly these bytes */
static void op_b_dict(const VhLine *l) {
    uint8_t *raw = NULL;
    size_t n = p_bytes(arg(l, 1), &raw);
    uint8_t *e = exact_copy(raw, n);
    Guarded g = guard_copy(raw, n);
    size_t cnt = 0xDEAD, cnt2 = 0xDEAD;
    vh_track_begin(0);
    uint64_t *r = varintDictDecode(e, n, &cnt);
    size_t maxreq = vh_maxreq;
    if (r) {
        vh_track_end();
        out("r=ok cnt=%zx v=#%" PRIx64 " alloc=%zx", cnt, digest_vals(r, cnt), maxreq);
        vh_track = 1;
        free(r);
    } else {
        out("r=null alloc=%zx", maxreq);
    }
    vh_track_end();
    alloc_check("varintDictDecode", n);
    if (n > 0 && cnt != 0xDEAD && !r) {
        mon("C14", "varintDictDecode failed but stored a count");
    }
    uint64_t *r2 = varintDictDecode(g.p, n, &cnt2);
    if ((r == NULL) != (r2 == NULL) || (r2 && cnt2 != cnt)) {
        mon("C14", "varintDictDecode: result depends on where the %zu input bytes live", n);
    }
    free(r2);
    guard_free(&g);
    free(e);
    free(raw);
}

/* b.dictinto cap=<c> hex:<bytes> */
static void op_b_dictinto(const VhLine *l) {
    uint8_t *raw = NULL;
    size_t n = p_bytes(arg(l, 2), &raw);
    size_t cap = (size_t)p_u64(kw(l, "cap"));
    uint8_t *e = exact_copy(raw, n);
    Guarded g = guard_copy(raw, n);
    uint64_t *o = cap_alloc(cap), *o2 = cap_alloc(cap);
    vh_track_begin(0);
    size_t r = varintDictDecodeInto(e, n, o, cap);
    vh_track_end();
    out("r=%zx v=#%" PRIx64 " alloc=%zx", r, digest_vals(o, r <= cap ? r : 0), vh_maxreq);
    alloc_check("varintDictDecodeInto", n);
    cap_check("varintDictDecodeInto", o, cap, r);
    size_t r2 = varintDictDecodeInto(g.p, n, o2, cap);
    if (r2 != r || (r <= cap && memcmp(o, o2, r * sizeof(uint64_t)) != 0)) {
        mon("C14", "varintDictDecodeInto: result depends on where the %zu input bytes live", n);
    }
    guard_free(&g);
    free(o);
    free(o2);
    free(e);
    free(raw);
}

/* b.gamma / b.delta bits=<srcBits> cap=<c> hex:<bytes>: the input block has ceil(bits/8) bytes */
static void elias(const VhLine *l, bool delta) {
    const char *nm = delta ? "varintEliasDeltaDecodeArray" : "varintEliasGammaDecodeArray";
    uint8_t *raw = NULL;
    size_t len = p_bytes(arg(l, 3), &raw);
    size_t bits = (size_t)p_u64(kw(l, "bits"));
    size_t cap = (size_t)p_u64(kw(l, "cap"));
    size_t n = (bits + 7) / 8;
    if (n > len) { /* generator error: declared size larger than the data supplied */
        out("bad-op");
        free(raw);
        return;
    }
    uint8_t *e = exact_copy(raw, n);
    Guarded g = guard_copy(raw, n);
    uint64_t *o = cap_alloc(cap), *o2 = cap_alloc(cap);
    vh_track_begin(0);
    size_t r = delta ? varintEliasDeltaDecodeArray(e, bits, o, cap) : varintEliasGammaDecodeArray(e, bits, o, cap);
    vh_track_end();
    if (r <= 24) {
        out("r=%zx", r);
        out_u64s("v", o, r <= cap ? r : 0);
    } else {
        out("r=%zx v=#%" PRIx64, r, digest_vals(o, r <= cap ? r : 0));
    }
    alloc_check(nm, n);
    cap_check(nm, o, cap, r);
    /* bits of the last byte beyond srcBits must not influence anything: flip them */
    if (bits % 8 != 0 && n > 0) {
        g.p[n - 1] ^= (uint8_t)(0xFF >> (bits % 8));
    }
    size_t r2 = delta ? varintEliasDeltaDecodeArray(g.p, bits, o2, cap) : varintEliasGammaDecodeArray(g.p, bits, o2, cap);
    if (r2 != r || (r <= cap && memcmp(o, o2, r * sizeof(uint64_t)) != 0)) {
        mon("C14", "%s: result depends on bits at or beyond srcBits=%zu", nm, bits);
    }
    guard_free(&g);
    free(o);
    free(o2);
    free(e);
    free(raw);
}
static void op_b_gamma(const VhLine *l) {
    elias(l, false);
}
static void op_b_delta(const VhLine *l) {
    elias(l, true);
}

static void describe_bitmap(const varintBitmap *vb, char *dst, size_t dlen) {
    uint64_t h = 0xcbf29ce484222325ULL;
    switch (vb->type) {
    case VARINT_BITMAP_ARRAY:
        for (uint32_t i = 0; i < vb->cardinality; i++) {
            h = dg(h, vb->container.array.values[i]);
        }
        snprintf(dst, dlen, "ty=0 card=%x p=#%" PRIx64, vb->cardinality, h);
        break;
    case VARINT_BITMAP_BITMAP:
        for (size_t i = 0; i < VARINT_BITMAP_BITMAP_SIZE; i++) {
            h = dg(h, vb->container.bitmap.bits[i]);
        }
        snprintf(dst, dlen, "ty=1 card=%x p=#%" PRIx64, vb->cardinality, h);
        break;
    case VARINT_BITMAP_RUNS:
        for (uint32_t i = 0; i < vb->container.runs.numRuns * 2; i++) {
            h = dg(h, vb->container.runs.runs[i]);
        }
        snprintf(dst, dlen, "ty=2 card=%x runs=%x p=#%" PRIx64, vb->cardinality, vb->container.runs.numRuns, h);
        break;
    default:
        snprintf(dst, dlen, "ty=%x", (unsigned)vb->type);
    }
}

/* b.bitmap hex:<bytes> : varintBitmapDecode(buffer, len) */
static void op_b_bitmap(const VhLine *l) {
    uint8_t *raw = NULL;
    size_t n = p_bytes(arg(l, 1), &raw);
    uint8_t *e = exact_copy(raw, n);
    Guarded g = guard_copy(raw, n);
    char d1[128] = "r=null", d2[128] = "r=null";
    vh_track_begin(0);
    varintBitmap *vb = varintBitmapDecode(e, n);
    size_t maxreq = vh_maxreq;
    if (vb) {
        vh_track = 0;
        describe_bitmap(vb, d1, sizeof(d1));
        vh_track = 1;
        varintBitmapFree(vb);
    }
    vh_track_end();
    out("%s alloc=%zx", d1, maxreq);
    alloc_check("varintBitmapDecode", n);
    varintBitmap *vb2 = varintBitmapDecode(g.p, n);
    if (vb2) {
        describe_bitmap(vb2, d2, sizeof(d2));
        varintBitmapFree(vb2);
    }
    if (strcmp(d1, d2) != 0) {
        mon("C14", "varintBitmapDecode: result depends on where the %zu input bytes live", n);
    }
    guard_free(&g);
    free(e);
    free(raw);
}

/* b.rle hex:<bytes> : varintRLEGetRunCount(src, encodedSize) */
static void op_b_rle(const VhLine *l) {
    uint8_t *raw = NULL;
    size_t n = p_bytes(arg(l, 1), &raw);
    uint8_t *e = exact_copy(raw, n);
    Guarded g = guard_copy(raw, n);
    vh_track_begin(0);
    size_t r = varintRLEGetRunCount(e, n);
    vh_track_end();
    out("r=%zx", r);
    alloc_check("varintRLEGetRunCount", n);
    if (r > n / 2) {
        mon("C14", "varintRLEGetRunCount counted %zu runs in %zu bytes", r, n);
    }
    size_t r2 = varintRLEGetRunCount(g.p, n);
    if (r2 != r) {
        mon("C14", "varintRLEGetRunCount: result depends on where the %zu input bytes live", n);
    }
    guard_free(&g);
    free(e);
    free(raw);
}

const VhOp vh_mem_ops[] = {{"b.dict", op_b_dict},   {"b.dictinto", op_b_dictinto}, {"b.gamma", op_b_gamma},
                           {"b.delta", op_b_delta}, {"b.bitmap", op_b_bitmap},     {"b.rle", op_b_rle},
                           {NULL, NULL}};
