/* C18: k-th allocation failure sweeps. For one API call the harness first counts its allocation requests N
 * (all granted), then repeats the call N times refusing request k = 1..N and classifies each outcome:
 *   F  documented failure indication, nothing leaked, a long-lived object unchanged and still usable
 *   S  success, result identical to the all-granted run
 *   C  success, result different but verified correct (decodes to the input)
 *   V  void API: the result is incomplete and the failure cannot be reported (known finding D35)
 *   X  success with a wrong result / inconsistent object  -> monitor failure
 * Result line: n=<N> o=<letters>; `k=<i>` restricts the sweep to one k (replay). Crashes are seen by the
 * orchestrator (ASan / signal), leaks through the live-block count of vh_alloc.c. */
#include "vh.h"

#include "varintAdaptive.h"
#include "varintBitmap.h"
#include "varintDict.h"
#include "varintFloat.h"
#include "varintPFOR.h"

extern uint64_t *vh_parse_array(const VhLine *l, int *argi, size_t *n);
void vh_track_begin(long fail_at);
void vh_track_pause(void);
void vh_track_resume(void);
void vh_track_end(void);
extern size_t vh_nalloc, vh_live, vh_failed;
extern long vh_fail_at;

typedef struct Case Case;
struct Case {
    const char *name;
    bool voidapi;
    /* inputs */
    uint64_t *v;
    size_t n;
    uint64_t *v2;
    size_t n2;
    int p1, p2;
    uint8_t *enc; /* a valid encoding prepared without failures */
    size_t enclen;
    /* per-run state */
    uint8_t *dst;
    size_t dstcap;
    size_t ret;
    uint64_t *outv;
    void *obj;
    varintBitmap *A, *B, *X, *R;
    const char *bop;
    uint64_t a0, a1;
    uint16_t *many;
    uint32_t nmany;
    int rep;
    bool need_out; /* the caller-provided output array, allocated outside the tracked region */
    void (*prepare)(Case *);
    int (*call)(Case *);
    uint64_t (*digest)(Case *);
    int (*correct)(Case *);
    int (*failcheck)(Case *);
    int (*usable)(Case *); /* long-lived object still consistent and working (whatever its contents) */
    void (*release)(Case *);
};

static uint64_t hbytes(const uint8_t *p, size_t n) {
    uint64_t h = 0xcbf29ce484222325ULL;
    for (size_t i = 0; i < n; i++) {
        h = dg(h, p[i]);
    }
    return dg(h, n);
}
static uint64_t hvals(const uint64_t *p, size_t n) {
    uint64_t h = 0xcbf29ce484222325ULL;
    for (size_t i = 0; i < n; i++) {
        h = dg(h, p[i]);
    }
    return dg(h, n);
}

static int ok_false(Case *c);

static void sweep(const VhLine *l, Case *c) {
    static char letters[1 << 16];
    long only = kw(l, "k") ? (long)p_u64(kw(l, "k")) : 0;
    c->prepare(c);
    vh_track_begin(0);
    int ok0 = c->call(c);
    size_t N = vh_nalloc;
    vh_track_pause();
    uint64_t d0 = ok0 ? c->digest(c) : 0;
    if (ok0 && c->correct != ok_false && !c->correct(c)) {
        mon("C18", "%s: wrong result without any allocation failure", c->name);
    }
    vh_track_resume();
    c->release(c);
    vh_track_end();
    if (vh_live) {
        mon("C18", "%s: %zu block(s) still allocated after an undisturbed call", c->name, vh_live);
    }
    if (!ok0) {
        out("n=%zx o=- base=fail", N);
        return;
    }
    size_t li = 0;
    for (size_t k = 1; k <= N && k < sizeof(letters) - 1; k++) {
        if (only && (long)k != only) {
            continue;
        }
        c->prepare(c);
        vh_track_begin((long)k);
        int ok = c->call(c);
        vh_fail_at = 0;
        size_t fired = vh_failed;
        vh_track_pause();
        char ch;
        if (ok) {
            uint64_t d = c->digest(c);
            if (d == d0) {
                ch = 'S';
            } else if (c->voidapi) {
                ch = 'V';
                mon("C18", "%s: void API cannot report the failed allocation %zu of %zu: the result is incomplete", c->name,
                    k, N);
                if (c->usable && !c->usable(c)) {
                    ch = 'X';
                    mon("C18", "%s: allocation %zu of %zu failed and the object is inconsistent or unusable afterwards",
                        c->name, k, N);
                }
            } else if (c->correct(c)) {
                ch = 'C';
            } else {
                ch = 'X';
                mon("C18", "%s: allocation %zu of %zu failed, the call reported success but its result is wrong", c->name, k, N);
            }
        } else {
            ch = 'F';
            if (c->failcheck && !c->failcheck(c)) {
                ch = 'X';
                mon("C18", "%s: allocation %zu of %zu failed: object inconsistent or unusable after the reported failure",
                    c->name, k, N);
            }
        }
        if (!fired) {
            ch = '?'; /* the k-th request was never made on this path */
        }
        vh_track_resume();
        c->release(c);
        vh_track_end();
        if (vh_live) {
            mon("C18", "%s: allocation %zu of %zu failed and %zu block(s) leaked", c->name, k, N, vh_live);
        }
        letters[li++] = ch;
    }
    letters[li] = 0;
    out("n=%zx o=%s", N, li ? letters : "-");
}

/* ---------------------------------------------------------------- dictionary */
static void prep_dst(Case *c) {
    c->dst = malloc(c->dstcap + 64);
    memset(c->dst, 0xEE, c->dstcap + 64);
    c->ret = 0;
    c->outv = NULL;
    if (c->need_out) {
        c->outv = malloc((c->n + 1) * 8);
        memset(c->outv, 0xCD, (c->n + 1) * 8);
    }
}
static void rel_dst(Case *c) {
    free(c->dst);
    free(c->outv);
    c->dst = NULL;
    c->outv = NULL;
}
static uint64_t dig_dst(Case *c) {
    return hbytes(c->dst, c->ret);
}
static int call_dict_enc(Case *c) {
    c->ret = varintDictEncode(c->dst, c->v, c->n);
    return c->ret > 0;
}
static int ok_dict_enc(Case *c) {
    uint64_t *o = malloc((c->n + 1) * 8);
    size_t r = varintDictDecodeInto(c->dst, c->ret, o, c->n);
    int ok = r == c->n && memcmp(o, c->v, c->n * 8) == 0;
    free(o);
    return ok;
}
static int call_dict_size(Case *c) {
    c->ret = varintDictEncodedSize(c->v, c->n);
    return c->ret > 0;
}
static uint64_t dig_ret(Case *c) {
    return c->ret;
}
static int ok_true(Case *c) {
    (void)c;
    return 1;
}
static int ok_false(Case *c) {
    (void)c;
    return 0;
}
static int call_dict_dec(Case *c) {
    size_t cnt = 0;
    c->outv = varintDictDecode(c->enc, c->enclen, &cnt);
    c->ret = cnt;
    return c->outv != NULL;
}
static uint64_t dig_outv(Case *c) {
    return hvals(c->outv, c->ret);
}
static int ok_outv(Case *c) {
    return c->ret == c->n && memcmp(c->outv, c->v, c->n * 8) == 0;
}
static int call_dict_into(Case *c) {
    c->ret = varintDictDecodeInto(c->enc, c->enclen, c->outv, c->n);
    return c->ret > 0;
}

/* dict.build: a dictionary built from v, then rebuilt from v2 under failure */
static void prep_build(Case *c) {
    varintDict *d = varintDictCreate();
    varintDictBuild(d, c->v, c->n);
    c->obj = d;
}
static int call_build(Case *c) {
    return varintDictBuild((varintDict *)c->obj, c->v2, c->n2) == 0;
}
static uint64_t dig_build(Case *c) {
    varintDict *d = c->obj;
    return dg(hvals(d->values, d->size), d->indexWidth);
}
static int dict_holds(varintDict *d, const uint64_t *v, size_t n) {
    for (size_t i = 0; i < n; i++) {
        int32_t ix = varintDictFind(d, v[i]);
        if (ix < 0 || varintDictLookup(d, (uint32_t)ix) != v[i]) {
            return 0;
        }
    }
    for (uint32_t i = 1; i < d->size; i++) {
        if (d->values[i - 1] >= d->values[i]) {
            return 0;
        }
    }
    return d->size <= d->capacity;
}
static int ok_build(Case *c) {
    return dict_holds(c->obj, c->v2, c->n2);
}
static int fail_build(Case *c) {
    varintDict *d = c->obj;
    /* unchanged: still the dictionary of v; usable: encodes v, and can be rebuilt */
    if (!dict_holds(d, c->v, c->n)) {
        return 0;
    }
    uint8_t *buf = malloc(c->n * 20 + d->size * 9 + 64);
    size_t w = varintDictEncodeWithDict(buf, d, c->v, c->n);
    uint64_t *o = malloc((c->n + 1) * 8);
    size_t r = w ? varintDictDecodeInto(buf, w, o, c->n) : 0;
    int ok = r == c->n && memcmp(o, c->v, c->n * 8) == 0;
    free(o);
    free(buf);
    if (ok && varintDictBuild(d, c->v2, c->n2) != 0) {
        ok = 0;
    }
    return ok && dict_holds(d, c->v2, c->n2);
}
static void rel_build(Case *c) {
    varintDictFree(c->obj);
    c->obj = NULL;
}

/* ---------------------------------------------------------------- PFOR */
static varintPFORMeta g_pm;
static int call_pfor_enc(Case *c) {
    memset(&g_pm, 0, sizeof(g_pm));
    c->ret = varintPFOREncode(c->dst, c->v, (uint32_t)c->n, (uint32_t)c->p1, &g_pm);
    return c->ret > 0;
}
static int ok_pfor_enc(Case *c) {
    varintPFORMeta m;
    memset(&m, 0, sizeof(m));
    varintPFORReadMeta(c->dst, &m);
    if (m.count != c->n) {
        return 0;
    }
    uint64_t *o = malloc((c->n + 1) * 8);
    size_t r = varintPFORDecode(c->dst, o, &m);
    int ok = r == c->n && memcmp(o, c->v, c->n * 8) == 0;
    free(o);
    return ok;
}
static int call_pfor_compute(Case *c) {
    memset(&g_pm, 0x5A, sizeof(g_pm));
    varintPFORComputeThreshold(c->v, (uint32_t)c->n, (uint32_t)c->p1, &g_pm);
    return g_pm.count == c->n; /* the analysis zeroes the metadata when it cannot allocate */
}
static uint64_t dig_pm(Case *c) {
    (void)c;
    return dg(dg(dg(dg(g_pm.min, g_pm.width), g_pm.count), g_pm.exceptionCount), g_pm.thresholdValue);
}

/* ---------------------------------------------------------------- float */
static int call_float_enc(Case *c) {
    c->ret = varintFloatEncode(c->dst, (const double *)c->v, c->n, (varintFloatPrecision)c->p1,
                               (varintFloatEncodingMode)c->p2);
    return c->ret > 0;
}
static int call_float_dec(Case *c) {
    c->ret = varintFloatDecode(c->enc, c->n, (double *)c->outv);
    return c->ret > 0;
}
static uint64_t dig_fdec(Case *c) {
    return dg(hvals(c->outv, c->n), c->ret);
}

/* ---------------------------------------------------------------- adaptive */
static int call_ad_enc(Case *c) {
    varintAdaptiveMeta m;
    memset(&m, 0, sizeof(m));
    c->ret = c->p1 < 0 ? varintAdaptiveEncode(c->dst, c->v, c->n, &m)
                       : varintAdaptiveEncodeWith(c->dst, c->v, c->n, (varintAdaptiveEncodingType)c->p1, &m);
    return c->ret > 0;
}
static int ok_ad_enc(Case *c) {
    uint64_t *o = malloc((c->n + 1) * 8);
    size_t r = varintAdaptiveDecode(c->dst, o, c->n, NULL);
    int ok = r == c->n && memcmp(o, c->v, c->n * 8) == 0;
    free(o);
    return ok;
}
static int call_ad_dec(Case *c) {
    c->ret = varintAdaptiveDecode(c->enc, c->outv, c->n, NULL);
    return c->ret > 0;
}

/* ---------------------------------------------------------------- bitmap */
static uint64_t bm_digest(const varintBitmap *vb) {
    static uint16_t arr[65536 + 8];
    uint32_t n = varintBitmapToArray(vb, arr);
    uint64_t h = 0xcbf29ce484222325ULL;
    for (uint32_t i = 0; i < n; i++) {
        h = dg(h, arr[i]);
    }
    return dg(h, n);
}
static int bm_consistent(const varintBitmap *vb) {
    static uint16_t arr[65536 + 8];
    uint32_t n = varintBitmapToArray(vb, arr);
    if (n != varintBitmapCardinality(vb)) {
        return 0;
    }
    for (uint32_t i = 0; i < n; i++) {
        if ((i && arr[i - 1] >= arr[i]) || !varintBitmapContains(vb, arr[i])) {
            return 0;
        }
    }
    return 1;
}
static void bm_apply(varintBitmap **X, char *op) {
    uint64_t a0 = 0, a1 = 0;
    char *q = strchr(op, ':');
    if (q) {
        a0 = strtoull(q + 1, &q, 16);
        if (*q == ':') {
            a1 = strtoull(q + 1, &q, 16);
        }
    }
    if (strncmp(op, "addr", 4) == 0) {
        varintBitmapAddRange(*X, (uint16_t)a0, (uint16_t)a1);
    } else if (strncmp(op, "addm", 4) == 0) {
        char *p = strchr(op, ':');
        while (p) {
            varintBitmapAdd(*X, (uint16_t)strtoull(p + 1, &p, 16));
            if (*p != ',') {
                p = NULL;
            }
        }
    } else if (strncmp(op, "add", 3) == 0) {
        varintBitmapAdd(*X, (uint16_t)a0);
    } else if (strncmp(op, "remr", 4) == 0) {
        varintBitmapRemoveRange(*X, (uint16_t)a0, (uint16_t)a1);
    } else if (strncmp(op, "rem", 3) == 0) {
        varintBitmapRemove(*X, (uint16_t)a0);
    } else if (strcmp(op, "clear") == 0) {
        varintBitmapClear(*X);
    }
}
static void prep_bm(Case *c) {
    c->X = varintBitmapClone(c->A);
    c->R = NULL;
    c->rep = -1;
}
static int call_bm(Case *c) {
    const char *op = c->bop;
    if (strncmp(op, "addr", 4) == 0) {
        varintBitmapAddRange(c->X, (uint16_t)c->a0, (uint16_t)c->a1);
        return 1;
    }
    if (strncmp(op, "addm", 4) == 0) {
        varintBitmapAddMany(c->X, c->many, c->nmany);
        return 1;
    }
    if (strncmp(op, "add", 3) == 0) {
        bool had = varintBitmapContains(c->X, (uint16_t)c->a0);
        c->rep = varintBitmapAdd(c->X, (uint16_t)c->a0);
        return c->rep || had; /* false for an absent value is the failure indication */
    }
    if (strncmp(op, "remr", 4) == 0) {
        varintBitmapRemoveRange(c->X, (uint16_t)c->a0, (uint16_t)c->a1);
        return 1;
    }
    if (strncmp(op, "rem", 3) == 0) {
        bool had = varintBitmapContains(c->X, (uint16_t)c->a0);
        c->rep = varintBitmapRemove(c->X, (uint16_t)c->a0);
        return c->rep || !had;
    }
    if (strcmp(op, "create") == 0) {
        c->R = varintBitmapCreate();
    } else if (strcmp(op, "clone") == 0) {
        c->R = varintBitmapClone(c->X);
    } else if (strcmp(op, "or") == 0) {
        c->R = varintBitmapOr(c->X, c->B);
    } else if (strcmp(op, "and") == 0) {
        c->R = varintBitmapAnd(c->X, c->B);
    } else if (strcmp(op, "xor") == 0) {
        c->R = varintBitmapXor(c->X, c->B);
    } else if (strcmp(op, "andnot") == 0) {
        c->R = varintBitmapAndNot(c->X, c->B);
    } else if (strcmp(op, "dec") == 0) {
        c->R = varintBitmapDecode(c->enc, c->enclen);
    }
    return c->R != NULL;
}
static bool bm_ptr_op(const Case *c) {
    return strcmp(c->bop, "create") == 0 || strcmp(c->bop, "clone") == 0 || strcmp(c->bop, "or") == 0 ||
           strcmp(c->bop, "and") == 0 || strcmp(c->bop, "xor") == 0 || strcmp(c->bop, "andnot") == 0 ||
           strcmp(c->bop, "dec") == 0;
}
static uint64_t dig_bm(Case *c) {
    const varintBitmap *t = bm_ptr_op(c) ? c->R : c->X;
    return dg(bm_digest(t), bm_consistent(t) ? 1 : 0);
}
static uint64_t g_bm_expect; /* digest of the all-granted result: a successful run must equal it */
static int ok_bm(Case *c) {
    /* a bitmap call that reports success has exactly one correct result */
    return dig_bm(c) == g_bm_expect || g_bm_expect == 0;
}
static int fail_bm(Case *c) {
    /* after a reported failure the operand is untouched, consistent and usable */
    if (!bm_consistent(c->X) || bm_digest(c->X) != bm_digest(c->A)) {
        return 0;
    }
    uint16_t probe[3] = {1, 30000, 65535};
    for (int i = 0; i < 3; i++) {
        bool had = varintBitmapContains(c->X, probe[i]);
        bool r = varintBitmapAdd(c->X, probe[i]);
        if (r == had || !varintBitmapContains(c->X, probe[i])) {
            return 0;
        }
    }
    return bm_consistent(c->X);
}
static int usable_bm(Case *c) {
    if (!bm_consistent(c->X)) {
        return 0;
    }
    uint16_t probe[4] = {1, 30000, 65535, 2};
    for (int i = 0; i < 4; i++) {
        bool had = varintBitmapContains(c->X, probe[i]);
        bool r = varintBitmapAdd(c->X, probe[i]);
        if (r == had || !varintBitmapContains(c->X, probe[i])) {
            return 0;
        }
    }
    if (!varintBitmapRemove(c->X, probe[0]) || varintBitmapContains(c->X, probe[0])) {
        return 0;
    }
    return bm_consistent(c->X);
}
static void rel_bm(Case *c) {
    varintBitmapFree(c->X);
    varintBitmapFree(c->R);
    c->X = c->R = NULL;
}

/* ---------------------------------------------------------------- ops */
static void with_array(const VhLine *l, Case *c, int ai) {
    c->v = vh_parse_array(l, &ai, &c->n);
}

static void op_oom_dict(const VhLine *l) {
    Case c;
    memset(&c, 0, sizeof(c));
    const char *what = kw(l, "op") ? kw(l, "op") : "enc";
    with_array(l, &c, 2);
    if (c.n == 0) {
        out("empty");
        free(c.v);
        return;
    }
    c.dstcap = c.n * 20 + 64;
    c.prepare = prep_dst;
    c.release = rel_dst;
    c.correct = ok_true;
    if (strcmp(what, "enc") == 0) {
        c.name = "varintDictEncode";
        c.call = call_dict_enc;
        c.digest = dig_dst;
        c.correct = ok_dict_enc;
    } else if (strcmp(what, "size") == 0) {
        c.name = "varintDictEncodedSize";
        c.call = call_dict_size;
        c.digest = dig_ret;
        c.correct = ok_false; /* a size is either the size or 0 */
    } else {
        uint8_t *buf = malloc(c.dstcap);
        c.enclen = varintDictEncode(buf, c.v, c.n);
        c.enc = exact_copy(buf, c.enclen);
        free(buf);
        c.digest = dig_outv;
        c.correct = ok_outv;
        if (strcmp(what, "dec") == 0) {
            c.name = "varintDictDecode";
            c.call = call_dict_dec;
        } else {
            c.name = "varintDictDecodeInto";
            c.call = call_dict_into;
            c.need_out = true;
        }
    }
    sweep(l, &c);
    free(c.enc);
    free(c.v);
}

static void op_oom_dictbuild(const VhLine *l) {
    Case c;
    memset(&c, 0, sizeof(c));
    int ai = 1;
    c.v = vh_parse_array(l, &ai, &c.n);
    c.v2 = vh_parse_array(l, &ai, &c.n2);
    if (c.n == 0 || c.n2 == 0) {
        out("empty");
    } else {
        c.name = "varintDictBuild";
        c.prepare = prep_build;
        c.call = call_build;
        c.digest = dig_build;
        c.correct = ok_build;
        c.failcheck = fail_build;
        c.release = rel_build;
        sweep(l, &c);
    }
    free(c.v);
    free(c.v2);
}

static void op_oom_pfor(const VhLine *l) {
    Case c;
    memset(&c, 0, sizeof(c));
    const char *what = kw(l, "op") ? kw(l, "op") : "enc";
    c.p1 = (int)p_u64(kw(l, "t") ? kw(l, "t") : "5f");
    with_array(l, &c, 3);
    if (c.n == 0) {
        out("empty");
        free(c.v);
        return;
    }
    c.dstcap = c.n * 20 + 64;
    c.prepare = prep_dst;
    c.release = rel_dst;
    if (strcmp(what, "enc") == 0) {
        c.name = "varintPFOREncode";
        c.call = call_pfor_enc;
        c.digest = dig_dst;
        c.correct = ok_pfor_enc;
    } else {
        c.name = "varintPFORComputeThreshold";
        c.call = call_pfor_compute;
        c.digest = dig_pm;
        c.correct = ok_false;
    }
    sweep(l, &c);
    free(c.v);
}

static void op_oom_float(const VhLine *l) {
    Case c;
    memset(&c, 0, sizeof(c));
    const char *what = kw(l, "op") ? kw(l, "op") : "enc";
    c.p1 = (int)p_u64(kw(l, "p"));
    c.p2 = (int)p_u64(kw(l, "m"));
    with_array(l, &c, 4);
    if (c.n == 0) {
        out("empty");
        free(c.v);
        return;
    }
    c.dstcap = varintFloatMaxEncodedSize(c.n, (varintFloatPrecision)c.p1) + 64;
    c.prepare = prep_dst;
    c.release = rel_dst;
    c.correct = ok_false; /* a float call has one result: it either equals the undisturbed one or is a failure */
    if (strcmp(what, "enc") == 0) {
        c.name = "varintFloatEncode";
        c.call = call_float_enc;
        c.digest = dig_dst;
    } else {
        uint8_t *buf = malloc(c.dstcap);
        c.enclen = varintFloatEncode(buf, (const double *)c.v, c.n, (varintFloatPrecision)c.p1, (varintFloatEncodingMode)c.p2);
        c.enc = exact_copy(buf, c.enclen);
        free(buf);
        c.name = "varintFloatDecode";
        c.call = call_float_dec;
        c.need_out = true;
        c.digest = dig_fdec;
    }
    sweep(l, &c);
    free(c.enc);
    free(c.v);
}

static void op_oom_adaptive(const VhLine *l) {
    Case c;
    memset(&c, 0, sizeof(c));
    const char *what = kw(l, "op") ? kw(l, "op") : "enc";
    c.p1 = kw(l, "t") && strcmp(kw(l, "t"), "auto") != 0 ? (int)p_u64(kw(l, "t")) : -1;
    with_array(l, &c, 3);
    if (c.n == 0) {
        out("empty");
        free(c.v);
        return;
    }
    c.dstcap = varintAdaptiveMaxSize(c.n) + 8200;
    c.prepare = prep_dst;
    c.release = rel_dst;
    if (strcmp(what, "enc") == 0) {
        c.name = c.p1 < 0 ? "varintAdaptiveEncode" : "varintAdaptiveEncodeWith";
        c.call = call_ad_enc;
        c.digest = dig_dst;
        c.correct = ok_ad_enc;
    } else {
        uint8_t *buf = malloc(c.dstcap);
        varintAdaptiveMeta m;
        c.enclen = c.p1 < 0 ? varintAdaptiveEncode(buf, c.v, c.n, &m)
                            : varintAdaptiveEncodeWith(buf, c.v, c.n, (varintAdaptiveEncodingType)c.p1, &m);
        c.enc = exact_copy(buf, c.enclen);
        free(buf);
        c.name = "varintAdaptiveDecode";
        c.call = call_ad_dec;
        c.need_out = true;
        c.digest = dig_outv;
        c.correct = ok_outv;
    }
    sweep(l, &c);
    free(c.enc);
    free(c.v);
}

/* oom.bitmap op=<final op> <history tokens>: the history (add:v rem:v addr:a:b remr:a:b addm:.. clear, "b."
 * prefix for the second operand) runs undisturbed; the final op is swept on a clone of A */
static void op_oom_bitmap(const VhLine *l) {
    Case c;
    memset(&c, 0, sizeof(c));
    static char opbuf[1 << 16];
    static uint16_t many[8192];
    snprintf(opbuf, sizeof(opbuf), "%s", kw(l, "op") ? kw(l, "op") : "create");
    c.bop = opbuf;
    c.A = varintBitmapCreate();
    c.B = varintBitmapCreate();
    for (int t = 1; t < l->n; t++) {
        char *tok = l->tok[t];
        if (strchr(tok, '=') && strncmp(tok, "op=", 3) == 0) {
            continue;
        }
        if (strncmp(tok, "k=", 2) == 0) {
            continue;
        }
        if (strncmp(tok, "b.", 2) == 0) {
            bm_apply(&c.B, tok + 2);
        } else {
            bm_apply(&c.A, tok);
        }
    }
    char *q = strchr(opbuf, ':');
    if (q) {
        if (strncmp(opbuf, "addm", 4) == 0) {
            char *p = q;
            while (p && c.nmany < 8192) {
                many[c.nmany++] = (uint16_t)strtoull(p + 1, &p, 16);
                if (*p != ',') {
                    p = NULL;
                }
            }
            c.many = many;
        } else {
            c.a0 = strtoull(q + 1, &q, 16);
            if (*q == ':') {
                c.a1 = strtoull(q + 1, &q, 16);
            }
        }
    }
    c.voidapi = strncmp(opbuf, "addr", 4) == 0 || strncmp(opbuf, "addm", 4) == 0 || strncmp(opbuf, "remr", 4) == 0;
    if (strcmp(opbuf, "dec") == 0) {
        uint8_t *buf = malloc(varintBitmapSizeBytes(c.A) + 8192 + 64);
        c.enclen = varintBitmapEncode(c.A, buf);
        c.enc = exact_copy(buf, c.enclen);
        free(buf);
    }
    static char nm[96];
    snprintf(nm, sizeof(nm), "varintBitmap %.40s", opbuf);
    c.name = nm;
    c.prepare = prep_bm;
    c.call = call_bm;
    c.digest = dig_bm;
    c.correct = ok_bm;
    c.failcheck = bm_ptr_op(&c) ? NULL : fail_bm;
    c.usable = bm_ptr_op(&c) ? NULL : usable_bm;
    c.release = rel_bm;
    /* the all-granted result, for ok_bm */
    g_bm_expect = 0;
    prep_bm(&c);
    if (call_bm(&c)) {
        g_bm_expect = dig_bm(&c);
    }
    rel_bm(&c);
    sweep(l, &c);
    free(c.enc);
    varintBitmapFree(c.A);
    varintBitmapFree(c.B);
}

const VhOp vh_oom_ops[] = {{"oom.dict", op_oom_dict},   {"oom.dictbuild", op_oom_dictbuild}, {"oom.pfor", op_oom_pfor},
                           {"oom.float", op_oom_float}, {"oom.adaptive", op_oom_adaptive},   {"oom.bitmap", op_oom_bitmap},
                           {NULL, NULL}};
