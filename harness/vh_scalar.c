/* Scalar varint families: tagged, external LE/BE, chained, chained-simple, four split families.
 * Each `<fam>.all v` op exercises every entry point of the family on one value, prints what
 * the implementation produced (diffed against the Lean model) and runs the C01/C04/C12 monitors
 * directly on the implementation. */
#include "vh.h"

#include "varint.h"
#include "varintChained.h"
#include "varintChainedSimple.h"
#include "varintExternal.h"
#include "varintExternalBigEndian.h"
#include "varintSplit.h"
#include "varintSplitFull.h"
#include "varintSplitFull16.h"
#include "varintSplitFullNoZero.h"
#include "varintTagged.h"

varintWidth varintTaggedGetVarint32(const uint8_t *z, uint32_t *pResult);
varintWidth varintTaggedPutVarint32(uint8_t *p, uint32_t v);

/* Macro hygiene: the second invocation (the `pb` copy) of every statement macro passes its value and pointer
 * arguments as UNPARENTHESISED conditional expressions - the operator of lowest precedence an argument can
 * have - so a macro that uses a parameter without parentheses computes something else for the second copy
 * and the two-fill comparison (CHECK_EXTENT) or the decode monitors report it. vh_one is 1 at run time. */
extern volatile int vh_one;
#define HY(x) vh_one ? (x) : 0
#define HYP(p) vh_one ? (p) : (p)

#define GUARD 24
#define BUFSZ (GUARD + 8 + 16 + GUARD)

/* A destination window with guard bytes on both sides. The encoder is run twice with two
 * complementary fills; a byte is "written" iff it ends up equal under both fills. */
typedef struct {
    uint8_t a[BUFSZ], b[BUFSZ];
    uint8_t *pa, *pb; /* destination pointers (GUARD + align) */
} Win;

static void win_init(Win *w) {
    memset(w->a, 0xA5, BUFSZ);
    memset(w->b, 0x5A, BUFSZ);
    w->pa = w->a + GUARD + vh_align;
    w->pb = w->b + GUARD + vh_align;
}
/* returns true iff exactly the offsets [lo, hi) relative to the destination were written */
static bool win_written_exactly(const Win *w, long lo, long hi) {
    long base = GUARD + vh_align;
    for (long i = 0; i < BUFSZ; i++) {
        long rel = i - base;
        bool written = (w->a[i] == w->b[i]);
        bool expect = (rel >= lo && rel < hi);
        if (written != expect) {
            return false;
        }
    }
    return true;
}
#define CHECK_EXTENT(prop, w, lo, hi, what)                                                        \
    do {                                                                                           \
        if (!win_written_exactly((w), (lo), (hi))) {                                               \
            mon(prop, "%s: bytes written are not exactly [%ld,%ld) of the destination", what,      \
                (long)(lo), (long)(hi));                                                           \
        }                                                                                          \
    } while (0)

static void chk_len(const char *fam, int lo, int hi, int n, int pl, int gl, int dl) {
    if (!(n == pl && n == gl && n == dl)) {
        mon("C01", "%s: lengths disagree put=%d predicted=%d fromByte=%d get=%d", fam, n, pl, gl, dl);
    }
    if (n < lo || n > hi) {
        mon("C01", "%s: length %d outside documented range %d-%d", fam, n, lo, hi);
    }
}
static void chk_rt(const char *fam, uint64_t v, uint64_t dv) {
    if (v != dv) {
        mon("C01", "%s: value %" PRIx64 " decodes as %" PRIx64, fam, v, dv);
    }
}

/* ------------------------------------------------------------------ tagged */
static void op_tagged_all(const VhLine *l) {
    uint64_t v = p_u64(arg(l, 1));
    Win w;
    win_init(&w);
    int n = (int)varintTaggedPut64(w.pa, v);
    int n2 = (int)varintTaggedPut64(w.pb, v);
    (void)n2;
    CHECK_EXTENT("C01", &w, 0, n, "tagged.put");
    uint8_t *e = exact_copy(w.pa, (size_t)n);
    int pl = (int)varintTaggedLen(v);
    int plq = (int)varintTaggedLenQuick(v);
    int gl = (int)varintTaggedGetLen(e);
    int glq = (int)varintTaggedGetLenQuick_(e);
    uint64_t dv = 0;
    int dl = (int)varintTaggedGet64(e, &dv);
    uint64_t dq = varintTaggedGet64Quick_(e);
    uint64_t drv = varintTaggedGet64ReturnValue(e);
    out("n=%d", n);
    out_hex("b", e, (size_t)n);
    out("pl=%d plq=%d gl=%d glq=%d dv=%" PRIx64 " dl=%d dq=%" PRIx64 " drv=%" PRIx64, pl, plq, gl, glq,
        dv, dl, dq, drv);
    chk_len("tagged", 1, 9, n, pl, gl, dl);
    if (plq != n || glq != n) {
        mon("C01", "tagged: quick length forms disagree plq=%d glq=%d n=%d", plq, glq, n);
    }
    chk_rt("tagged", v, dv);
    chk_rt("tagged.quick", v, dq);
    chk_rt("tagged.retval", v, drv);
    if (v <= UINT32_MAX) {
        Win w2;
        win_init(&w2);
        int m = (int)varintTaggedPutVarint32(w2.pa, (uint32_t)v);
        varintTaggedPutVarint32(w2.pb, (uint32_t)v);
        CHECK_EXTENT("C01", &w2, 0, m, "tagged.put32");
        uint32_t v32 = 0;
        uint8_t *e2 = exact_copy(w2.pa, (size_t)m);
        int l32 = (int)varintTaggedGetVarint32(e2, &v32);
        out_hex("p32", e2, (size_t)m);
        out("g32=%" PRIx32 ",%d", v32, l32);
        if (v32 != (uint32_t)v || l32 != m || m != n) {
            mon("C01", "tagged 32-bit entry points: v=%" PRIx64 " got %" PRIx32 " len %d/%d", v, v32, l32, m);
        }
        free(e2);
    }
    free(e);
}

static bool tagged_fixed_legal(uint64_t v, int width) {
    int minw = (int)varintTaggedLen(v);
    return width == minw || (width >= 4 && width >= minw && width <= 9);
}

static void op_tagged_fixed(const VhLine *l) {
    uint64_t v = p_u64(arg(l, 1));
    int width = (int)p_u64(arg(l, 2));
    Win w, q;
    win_init(&w);
    win_init(&q);
    int n = (int)varintTaggedPut64FixedWidth(w.pa, v, (varintWidth)width);
    varintTaggedPut64FixedWidth(w.pb, v, (varintWidth)width);
    varintTaggedPut64FixedWidthQuick_(q.pa, v, width);
    varintTaggedPut64FixedWidthQuick_(HYP(q.pb), HY(v), HY(width));
    out("n=%d", n);
    out_hex("b", w.pa, (size_t)n);
    out_hex("qb", q.pa, (size_t)n);
    CHECK_EXTENT("C01", &w, 0, n, "tagged.putfixed");
    CHECK_EXTENT("C01", &q, 0, n, "tagged.putfixedquick");
    if (memcmp(w.pa, q.pa, (size_t)(n > 0 ? n : 0)) != 0) {
        mon("C01", "tagged fixed width quick macro differs from function (w=%d)", width);
    }
    /* decode only where the width is legal for the value (otherwise the bytes announce another length) */
    if (n >= 1 && tagged_fixed_legal(v, width)) {
        uint8_t *e = exact_copy(w.pa, (size_t)n);
        uint64_t dv = 0;
        int dl = (int)varintTaggedGet64(e, &dv);
        out("dv=%" PRIx64 " dl=%d", dv, dl);
        if (dv != v || dl != width || n != width) {
            mon("C01", "tagged fixed width %d of %" PRIx64 " decodes as %" PRIx64 " len %d (ret %d)", width, v, dv,
                dl, n);
        }
        free(e);
    }
}

/* tagged.getn hex:<bytes> <n>   bounded reader on an exact-size copy of the first min(n,len) bytes */
static void op_tagged_getn(const VhLine *l) {
    uint8_t *raw = NULL;
    size_t len = p_bytes(arg(l, 1), &raw);
    int32_t n = (int32_t)p_i64(arg(l, 2));
    size_t have = (n > 0 && (size_t)n < len) ? (size_t)n : (n > 0 ? len : 0);
    uint8_t *e = exact_copy(raw, have);
    uint64_t res = 0xDEADBEEFCAFEF00DULL;
    int r = (int)varintTaggedGet(e, n, &res);
    if (r == 0) {
        out("r=0 v=-");
        if (res != 0xDEADBEEFCAFEF00DULL) {
            mon("C14", "tagged bounded reader returned 0 but modified the result");
        }
    } else {
        out("r=%d v=%" PRIx64, r, res);
        if (r > n) {
            mon("C14", "tagged bounded reader consumed %d bytes of a %d-byte input", r, n);
        }
    }
    /* C14: a varint cut short of its announced length is reported as 0 */
    if (have >= 1 && n >= 1) {
        int announced = (int)varintTaggedGetLenQuick_(e);
        if ((announced > n) != (r == 0)) {
            mon("C14", "tagged bounded reader: announced %d declared %d returned %d", announced, n, r);
        }
    }
    free(e);
    free(raw);
}

/* tagged.add <v> <amount decimal> <force 0|1> [slot width]: slot holds enc(v) (or the legal
 * fixed-width form of v when a width is given) followed by guard bytes */
static void op_tagged_add(const VhLine *l) {
    uint64_t v = p_u64(arg(l, 1));
    int64_t amount = p_i64(arg(l, 2));
    int force = (int)p_u64(arg(l, 3));
    int slotw = l->n > 4 ? (int)p_u64(arg(l, 4)) : 0;
    uint8_t buf[GUARD + 16 + GUARD], before[sizeof(buf)];
    memset(buf, 0xC3, sizeof(buf));
    uint8_t *p = buf + GUARD;
    int orig;
    if (slotw && tagged_fixed_legal(v, slotw)) {
        orig = (int)varintTaggedPut64FixedWidth(p, v, (varintWidth)slotw);
    } else {
        orig = (int)varintTaggedPut64(p, v);
    }
    memcpy(before, buf, sizeof(buf));
    int r = force ? (int)varintTaggedAddGrow(p, amount) : (int)varintTaggedAddNoGrow(p, amount);
    bool changed = memcmp(before, buf, sizeof(buf)) != 0;
    out("r=%d", r);
    /* what is stored now */
    uint64_t now = 0;
    int nl = (int)varintTaggedGet64(p, &now);
    out("now=%" PRIx64 " nl=%d ch=%d", now, nl, changed ? 1 : 0);
    /* monitors (C12) */
    __int128 sum = (__int128)(int64_t)v + (__int128)amount;
    bool ovf = sum > INT64_MAX || sum < INT64_MIN;
    long hi_changed = -1;
    for (long i = 0; i < (long)sizeof(buf); i++) {
        if (buf[i] != before[i]) {
            hi_changed = i - GUARD;
        }
    }
    for (long i = 0; i < GUARD; i++) {
        if (buf[i] != before[i]) {
            mon("C12", "tagged.add wrote before the slot");
        }
    }
    if (ovf) {
        if (r != 0 || changed) {
            mon("C12", "tagged.add overflow not reported as 0/untouched (r=%d changed=%d)", r, changed);
        }
    } else {
        uint64_t want = (uint64_t)(int64_t)sum;
        int need = (int)varintTaggedLen(want);
        if (!force && need > orig) {
            if (changed) {
                mon("C12", "tagged.addNoGrow modified the buffer although the sum needs %d > %d bytes", need, orig);
            }
            if (r != need) {
                mon("C12", "tagged.addNoGrow returned %d, width required is %d", r, need);
            }
        } else {
            if (now != want || r != nl || r != need) {
                mon("C12", "tagged.add stored %" PRIx64 " (len %d) want %" PRIx64 " returned %d", now, nl, want, r);
            }
            if (r > 9) {
                mon("C12", "tagged.add grew beyond 9 bytes");
            }
        }
        if (!force && hi_changed >= orig) {
            mon("C12", "tagged.addNoGrow modified byte %ld beyond current width %d", hi_changed, orig);
        }
        if (hi_changed >= 9) {
            mon("C12", "tagged.add modified byte %ld beyond the family maximum", hi_changed);
        }
    }
}

/* ------------------------------------------------------------------ external LE / BE */
static void op_ext_all(const VhLine *l) {
    uint64_t v = p_u64(arg(l, 1));
    bool be = strncmp(arg(l, 0), "extbe", 5) == 0;
    const char *fam = be ? "extbe" : "ext";
    Win w;
    win_init(&w);
    int n = be ? (int)varintExternalBigEndianPut(w.pa, v) : (int)varintExternalPut(w.pa, v);
    if (be) {
        varintExternalBigEndianPut(w.pb, v);
    } else {
        varintExternalPut(w.pb, v);
    }
    CHECK_EXTENT("C01", &w, 0, n, fam);
    uint8_t *e = exact_copy(w.pa, (size_t)n);
    varintWidth pl;
    if (be) {
        varintExternalBigEndianUnsignedEncoding(v, pl);
    } else {
        varintExternalUnsignedEncoding(v, pl);
    }
    uint64_t dv = be ? varintExternalBigEndianGet(e, (varintWidth)n) : varintExternalGet(e, (varintWidth)n);
    out("n=%d", n);
    out_hex("b", e, (size_t)n);
    out("pl=%d dv=%" PRIx64, (int)pl, dv);
    if (!be && v <= (uint64_t)INT64_MAX) {
        int sl = (int)varintExternalLen(v);
        out("sl=%d", sl);
        if (sl != n) {
            mon("C01", "ext: varintExternalLen=%d but put wrote %d", sl, n);
        }
    }
    chk_len(fam, 1, 8, n, (int)pl, n, n);
    chk_rt(fam, v, dv);
    free(e);
}

static void op_ext_fixed(const VhLine *l) {
    uint64_t v = p_u64(arg(l, 1));
    int width = (int)p_u64(arg(l, 2));
    bool be = strncmp(arg(l, 0), "extbe", 5) == 0;
    const char *fam = be ? "extbe.fixed" : "ext.fixed";
    if (width < 1 || width > 8) {
        out("bad-width");
        return;
    }
    Win w, q, m;
    win_init(&w);
    win_init(&q);
    win_init(&m);
    if (be) {
        varintExternalBigEndianPutFixedWidth(w.pa, v, (varintWidth)width);
        varintExternalBigEndianPutFixedWidth(w.pb, v, (varintWidth)width);
        varintExternalBigEndianPutFixedWidthQuick_(q.pa, v, width);
        varintExternalBigEndianPutFixedWidthQuick_(HYP(q.pb), HY(v), HY(width));
    } else {
        varintExternalPutFixedWidth(w.pa, v, (varintWidth)width);
        varintExternalPutFixedWidth(w.pb, v, (varintWidth)width);
        varintExternalPutFixedWidthQuick_(q.pa, v, width);
        varintExternalPutFixedWidthQuick_(HYP(q.pb), HY(v), HY(width));
        varintExternalPutFixedWidthQuickMedium_(m.pa, v, width);
        varintExternalPutFixedWidthQuickMedium_(HYP(m.pb), HY(v), HY(width));
    }
    CHECK_EXTENT("C01", &w, 0, width, fam);
    CHECK_EXTENT("C01", &q, 0, width, fam);
    out_hex("b", w.pa, (size_t)width);
    out_hex("qb", q.pa, (size_t)width);
    uint8_t *e = exact_copy(w.pa, (size_t)width);
    uint64_t dv, qv = 0, mv = 0, mrv = 0;
    if (be) {
        dv = varintExternalBigEndianGet(e, (varintWidth)width);
        varintExternalBigEndianGetQuick_(e, width, qv);
        out("dv=%" PRIx64 " qv=%" PRIx64, dv, qv);
    } else {
        CHECK_EXTENT("C01", &m, 0, width, fam);
        out_hex("mb", m.pa, (size_t)width);
        dv = varintExternalGet(e, (varintWidth)width);
        varintExternalGetQuick_(e, width, qv);
        varintExternalGetQuickMedium_(e, width, mv);
        mrv = varintExternalGetQuickMediumReturnValue_(e, width);
        out("dv=%" PRIx64 " qv=%" PRIx64 " mv=%" PRIx64 " mrv=%" PRIx64, dv, qv, mv, mrv);
        if (memcmp(w.pa, m.pa, (size_t)width) != 0 || mv != dv || mrv != dv) {
            mon("C01", "%s: medium quick forms differ from function form (w=%d)", fam, width);
        }
    }
    varintWidth minw;
    varintExternalUnsignedEncoding(v, minw);
    if (width >= (int)minw) {
        chk_rt(fam, v, dv);
    }
    if (memcmp(w.pa, q.pa, (size_t)width) != 0 || qv != dv) {
        mon("C01", "%s: quick forms differ from function form (w=%d)", fam, width);
    }
    free(e);
}

/* ext.add <v> <width> <amount> <force> : slot of `width` bytes then guards */
static void op_ext_add(const VhLine *l) {
    uint64_t v = p_u64(arg(l, 1));
    int width = (int)p_u64(arg(l, 2));
    int64_t amount = p_i64(arg(l, 3));
    int force = (int)p_u64(arg(l, 4));
    uint8_t buf[GUARD + 16 + GUARD], before[sizeof(buf)];
    memset(buf, 0xC3, sizeof(buf));
    uint8_t *p = buf + GUARD;
    varintExternalPutFixedWidth(p, v, (varintWidth)width);
    memcpy(before, buf, sizeof(buf));
    int r = force ? (int)varintExternalAddGrow(p, (varintWidth)width, amount)
                  : (int)varintExternalAddNoGrow(p, (varintWidth)width, amount);
    bool changed = memcmp(before, buf, sizeof(buf)) != 0;
    long hi_changed = -1;
    for (long i = 0; i < (long)sizeof(buf); i++) {
        if (buf[i] != before[i]) {
            hi_changed = i - GUARD;
        }
    }
    out("r=%d", r);
    if (r >= 1 && r <= 8) {
        out("now=%" PRIx64, varintExternalGet(p, (varintWidth)r));
    } else {
        out("now=-");
    }
    out("ch=%d hi=%ld", changed ? 1 : 0, hi_changed);
    __int128 sum = (__int128)(int64_t)v + (__int128)amount;
    bool ovf = sum > INT64_MAX || sum < INT64_MIN;
    for (long i = 0; i < GUARD; i++) {
        if (buf[i] != before[i]) {
            mon("C12", "ext.add wrote before the slot");
        }
    }
    if (ovf) {
        if (r != 0 || changed) {
            mon("C12", "ext.add overflow not reported as 0/untouched (r=%d changed=%d)", r, changed);
        }
    } else {
        uint64_t want = (uint64_t)(int64_t)sum;
        varintWidth need;
        varintExternalUnsignedEncoding(want, need);
        if (!force && (int)need > width) {
            if (changed) {
                mon("C12", "ext.addNoGrow modified the buffer although the sum needs %d > %d bytes", (int)need, width);
            }
            if (r != (int)need) {
                mon("C12", "ext.addNoGrow returned %d, width required is %d", r, (int)need);
            }
        } else {
            uint64_t now = (r >= 1 && r <= 8) ? varintExternalGet(p, (varintWidth)r) : 0;
            if (r != (int)need || now != want) {
                mon("C12", "ext.add stored %" PRIx64 " want %" PRIx64 " returned %d need %d", now, want, r, (int)need);
            }
        }
        if (!force && hi_changed >= width) {
            mon("C12", "ext.addNoGrow modified byte %ld beyond current width %d", hi_changed, width);
        }
        if (hi_changed >= 8) {
            mon("C12", "ext.add modified byte %ld beyond the family maximum", hi_changed);
        }
    }
}

/* signed.rt <w> <s decimal>: prepare, store in w bytes, load, restore */
static void op_signed_rt(const VhLine *l) {
    int width = (int)p_u64(arg(l, 1));
    int64_t s = p_i64(arg(l, 2));
    uint8_t buf[8] = {0};
    int64_t back = 0;
    uint64_t field = 0;
    switch (width) {
    case 3: {
        int32_t v = (int32_t)s;
        varintPrepareSigned32to24_(v);
        field = (uint64_t)(uint32_t)v;
        varintExternalPutFixedWidth(buf, (uint64_t)(uint32_t)v, VARINT_WIDTH_24B);
        int32_t r = (int32_t)varintExternalGet(buf, VARINT_WIDTH_24B);
        varintRestoreSigned24to32_(r);
        back = r;
        break;
    }
    case 5: {
        int64_t v = s;
        varintPrepareSigned64to40_(v);
        field = (uint64_t)v;
        varintExternalPutFixedWidth(buf, (uint64_t)v, VARINT_WIDTH_40B);
        int64_t r = (int64_t)varintExternalGet(buf, VARINT_WIDTH_40B);
        varintRestoreSigned40to64_(r);
        back = r;
        break;
    }
    case 6: {
        int64_t v = s;
        varintPrepareSigned64to48_(v);
        field = (uint64_t)v;
        varintExternalPutFixedWidth(buf, (uint64_t)v, VARINT_WIDTH_48B);
        int64_t r = (int64_t)varintExternalGet(buf, VARINT_WIDTH_48B);
        varintRestoreSigned48to64_(r);
        back = r;
        break;
    }
    case 7: {
        int64_t v = s;
        varintPrepareSigned64to56_(v);
        field = (uint64_t)v;
        varintExternalPutFixedWidth(buf, (uint64_t)v, VARINT_WIDTH_56B);
        int64_t r = (int64_t)varintExternalGet(buf, VARINT_WIDTH_56B);
        varintRestoreSigned56to64_(r);
        back = r;
        break;
    }
    default:
        out("bad-width");
        return;
    }
    out("f=%" PRIx64 " back=%" PRId64, field, back);
    if (back != s) {
        mon("C01", "signed helper width %d: %" PRId64 " restored as %" PRId64, width, s, back);
    }
}

/* ------------------------------------------------------------------ chained */
static void op_chained_all(const VhLine *l) {
    uint64_t v = p_u64(arg(l, 1));
    Win w;
    win_init(&w);
    int n = (int)varintChainedPutVarint(w.pa, v);
    varintChainedPutVarint(w.pb, v);
    CHECK_EXTENT("C01", &w, 0, n, "chained.put");
    uint8_t *e = exact_copy(w.pa, (size_t)n);
    int pl = (int)varintChainedVarintLen(v);
    uint64_t dv = 0;
    int dl = (int)varintChainedGetVarint(e, &dv);
    out("n=%d", n);
    out_hex("b", e, (size_t)n);
    out("pl=%d dv=%" PRIx64 " dl=%d", pl, dv, dl);
    chk_len("chained", 1, 9, n, pl, dl, dl);
    chk_rt("chained", v, dv);
    {
        uint32_t v32 = 0;
        int l32 = (int)varintChained_getVarint32(e, v32);
        out("g32=%" PRIx32 ",%d", v32, l32);
        if (v <= UINT32_MAX && (v32 != (uint32_t)v || l32 != n)) {
            mon("C01", "chained 32-bit read of %" PRIx64 " gave %" PRIx32 " len %d", v, v32, l32);
        }
    }
    if (v <= UINT32_MAX) {
        Win w2;
        win_init(&w2);
        int m = (int)varintChained_putVarint32(w2.pa, (uint32_t)v);
        int m2 = (int)varintChained_putVarint32(w2.pb, (uint32_t)v);
        (void)m2;
        CHECK_EXTENT("C01", &w2, 0, m, "chained.put32");
        out_hex("p32", w2.pa, (size_t)m);
        if (m != n || memcmp(w2.pa, e, (size_t)n) != 0) {
            mon("C01", "chained put32 macro differs from put64");
        }
    }
    free(e);
}
/* chained.dec hex:<bytes>  (any bytes; the reader stops at most after 9) */
static void op_chained_dec(const VhLine *l) {
    uint8_t *raw = NULL;
    size_t len = p_bytes(arg(l, 1), &raw);
    (void)len;
    uint64_t dv = 0;
    int dl = (int)varintChainedGetVarint(raw, &dv);
    uint32_t v32 = 0;
    int l32 = (int)varintChained_getVarint32(raw, v32);
    out("dv=%" PRIx64 " dl=%d g32=%" PRIx32 ",%d", dv, dl, v32, l32);
    free(raw);
}

/* ------------------------------------------------------------------ chained simple */
static void op_csimple_all(const VhLine *l) {
    uint64_t v = p_u64(arg(l, 1));
    Win w;
    win_init(&w);
    int n = (int)varintChainedSimpleEncode64(w.pa, v);
    varintChainedSimpleEncode64(w.pb, v);
    CHECK_EXTENT("C01", &w, 0, n, "csimple.put");
    uint8_t *e = exact_copy(w.pa, (size_t)n);
    int pl = (int)varintChainedSimpleLength(v);
    uint64_t dv = 0;
    int dl = (int)varintChainedSimpleDecode64(e, &dv);
    out("n=%d", n);
    out_hex("b", e, (size_t)n);
    out("pl=%d dv=%" PRIx64 " dl=%d", pl, dv, dl);
    chk_len("csimple", 1, 9, n, pl, dl, dl);
    chk_rt("csimple", v, dv);
    if (v <= UINT32_MAX) {
        Win w2;
        win_init(&w2);
        int m = (int)varintChainedSimpleEncode32(w2.pa, (uint32_t)v);
        varintChainedSimpleEncode32(w2.pb, (uint32_t)v);
        CHECK_EXTENT("C01", &w2, 0, m, "csimple.put32");
        uint8_t *e2 = exact_copy(w2.pa, (size_t)m);
        uint32_t v32 = 0;
        int l32 = (int)varintChainedSimpleDecode32(e2, &v32);
        out_hex("p32", e2, (size_t)m);
        out("g32=%" PRIx32 ",%d", v32, l32);
        if (v32 != (uint32_t)v || l32 != m || m != n) {
            mon("C01", "csimple 32-bit entry points: v=%" PRIx64 " got %" PRIx32 " len %d/%d/%d", v, v32, l32, m, n);
        }
        free(e2);
    }
    free(e);
}
static void op_csimple_dec(const VhLine *l) {
    uint8_t *raw = NULL;
    p_bytes(arg(l, 1), &raw);
    uint64_t dv = 0;
    int dl = (int)varintChainedSimpleDecode64(raw, &dv);
    uint32_t v32 = 0;
    int l32 = (int)varintChainedSimpleDecode32(raw, &v32);
    out("dv=%" PRIx64 " dl=%d g32=%" PRIx32 ",%d", dv, dl, v32, l32);
    free(raw);
}

/* ------------------------------------------------------------------ split families */
#define SPLIT_ALL(NAME, FAM, PFX, LO, HI, HASREV)                                                  \
    static void op_##NAME##_all(const VhLine *l) {                                                 \
        uint64_t v = p_u64(arg(l, 1));                                                             \
        Win w;                                                                                     \
        win_init(&w);                                                                              \
        int n = 0, n2 = 0;                                                                         \
        PFX##Put_(w.pa, n, v);                                                                     \
        PFX##Put_(HYP(w.pb), n2, HY(v));                                                                    \
        CHECK_EXTENT("C01", &w, 0, n, FAM ".put");                                                 \
        uint8_t *e = exact_copy(w.pa, (size_t)n);                                                  \
        int pl = 0;                                                                                \
        PFX##Length_(pl, v);                                                                       \
        int gl = 0;                                                                                \
        PFX##GetLen_(e, gl);                                                                       \
        int glq = (int)PFX##GetLenQuick_(e);                                                       \
        uint64_t dv = 0;                                                                           \
        int dl = 0;                                                                                \
        PFX##Get_(e, dl, dv);                                                                      \
        out("n=%d", n);                                                                            \
        out_hex("b", e, (size_t)n);                                                                \
        out("pl=%d gl=%d glq=%d dv=%" PRIx64 " dl=%d", pl, gl, glq, dv, dl);                        \
        chk_len(FAM, LO, HI, n, pl, gl, dl);                                                       \
        if (glq != n) {                                                                            \
            mon("C01", FAM ": GetLenQuick=%d but %d bytes were written", glq, n);                  \
        }                                                                                          \
        chk_rt(FAM, v, dv);                                                                        \
        free(e);                                                                                   \
        HASREV                                                                                     \
    }

#define SPLIT_REV(FAM, RPFX)                                                                       \
    {                                                                                              \
        Win r, f;                                                                                  \
        win_init(&r);                                                                              \
        win_init(&f);                                                                              \
        int rn = 0, rn2 = 0, fn = 0, fn2 = 0;                                                      \
        /* PutReversed_: dst is the LAST byte; place it so that the varint occupies [0, n) */      \
        RPFX##PutReversed_(r.pa + n - 1, rn, v);                                                   \
        RPFX##PutReversed_(HYP(r.pb + n - 1), rn2, HY(v));                                                  \
        RPFX##PutForward_(f.pa, fn, v);                                                            \
        RPFX##PutForward_(HYP(f.pb), fn2, HY(v));                                                           \
        CHECK_EXTENT("C01", &r, 0, rn, FAM ".putReversed");                                        \
        CHECK_EXTENT("C01", &f, 0, fn, FAM ".putReversedForward");                                 \
        uint8_t *re = exact_copy(r.pa, (size_t)rn);                                                \
        uint64_t rv = 0;                                                                           \
        int rl = 0;                                                                                \
        RPFX##Get_(re + rn - 1, rl, rv);                                                           \
        out("rn=%d fn=%d", rn, fn);                                                                \
        out_hex("rb", re, (size_t)rn);                                                             \
        out_hex("fb", f.pa, (size_t)fn);                                                           \
        out("rv=%" PRIx64 " rl=%d", rv, rl);                                                       \
        if (rn != n || fn != n || rl != n) {                                                       \
            mon("C01", FAM " reversed: lengths disagree fwd=%d rev=%d revfwd=%d get=%d", n, rn, fn, rl); \
        }                                                                                          \
        if (rn == fn && memcmp(re, f.pa, (size_t)rn) != 0) {                                       \
            mon("C01", FAM " reversed: PutReversed and PutForward layouts differ");                \
        }                                                                                          \
        chk_rt(FAM ".reversed", v, rv);                                                            \
        free(re);                                                                                  \
    }

SPLIT_ALL(split, "split", varintSplit, 1, 9, SPLIT_REV("split", varintSplitReversed))
SPLIT_ALL(sfull, "sfull", varintSplitFull, 1, 9, SPLIT_REV("sfull", varintSplitFullReversed))
SPLIT_ALL(snz, "snz", varintSplitFullNoZero, 1, 9, SPLIT_REV("snz", varintSplitFullNoZeroReversed))
SPLIT_ALL(s16, "s16", varintSplitFull16, 2, 9, )

/* <fam>.dec hex:<bytes>: decode bytes the format admits (type byte with payload width 1..8) */
#define SPLIT_DEC(NAME, PFX)                                                                       \
    static void op_##NAME##_dec(const VhLine *l) {                                                 \
        uint8_t *raw = NULL;                                                                       \
        p_bytes(arg(l, 1), &raw);                                                                  \
        uint64_t dv = 0;                                                                           \
        int dl = 0;                                                                                \
        PFX##Get_(raw, dl, dv);                                                                    \
        int gl = 0;                                                                                \
        PFX##GetLen_(raw, gl);                                                                     \
        int glq = (int)PFX##GetLenQuick_(raw);                                                     \
        out("dv=%" PRIx64 " dl=%d gl=%d glq=%d", dv, dl, gl, glq);                                 \
        free(raw);                                                                                 \
    }
SPLIT_DEC(split, varintSplit)
SPLIT_DEC(sfull, varintSplitFull)
SPLIT_DEC(snz, varintSplitFullNoZero)
SPLIT_DEC(s16, varintSplitFull16)

/* tagged.dec hex: arbitrary 9+ bytes */
static void op_tagged_dec(const VhLine *l) {
    uint8_t *raw = NULL;
    p_bytes(arg(l, 1), &raw);
    uint64_t dv = 0;
    int dl = (int)varintTaggedGet64(raw, &dv);
    int gl = (int)varintTaggedGetLen(raw);
    uint64_t dq = varintTaggedGet64Quick_(raw);
    out("dv=%" PRIx64 " dl=%d gl=%d dq=%" PRIx64, dv, dl, gl, dq);
    free(raw);
}

/* tagged.cmp <a> <b>: sign of memcmp over the encodings (C05) */
static int sgn(int x) {
    return x < 0 ? -1 : x > 0 ? 1 : 0;
}
static void op_tagged_cmp(const VhLine *l) {
    uint64_t a = p_u64(arg(l, 1)), b = p_u64(arg(l, 2));
    uint8_t ba[9], bb[9];
    int la = (int)varintTaggedPut64(ba, a), lb = (int)varintTaggedPut64(bb, b);
    int m = la < lb ? la : lb;
    int c = sgn(memcmp(ba, bb, (size_t)m));
    if (c == 0) {
        c = sgn(la - lb);
    }
    int want = a < b ? -1 : a > b ? 1 : 0;
    out("c=%d", c);
    if (c != want) {
        mon("C05", "memcmp order of tagged(%" PRIx64 ") vs tagged(%" PRIx64 ") is %d, numeric order %d", a, b, c, want);
    }
    /* prefix-freeness: within the common length the encodings already differ unless equal */
    if (a != b && memcmp(ba, bb, (size_t)m) == 0) {
        mon("C05", "tagged(%" PRIx64 ") is a prefix of tagged(%" PRIx64 ")", la < lb ? a : b, la < lb ? b : a);
    }
    /* keys built with the public inline encoder (varintTaggedLenQuick + ...FixedWidthQuick_), its value passed
     * as an expression (macro hygiene, see HY): they must be the same keys, so they sort the same way */
    {
        uint8_t qa[9], qb[9];
        memset(qa, 0xA5, sizeof(qa));
        memset(qb, 0xA5, sizeof(qb));
        int wa = (int)varintTaggedLenQuick(a), wb = (int)varintTaggedLenQuick(b);
        varintTaggedPut64FixedWidthQuick_(HYP(qa), HY(a), HY(wa));
        varintTaggedPut64FixedWidthQuick_(HYP(qb), HY(b), HY(wb));
        if (wa != la || wb != lb || memcmp(qa, ba, (size_t)la) != 0 || memcmp(qb, bb, (size_t)lb) != 0) {
            mon("C05", "inline (quick-macro) tagged key of %" PRIx64 " or %" PRIx64
                       " differs from varintTaggedPut64's bytes: such keys do not sort numerically",
                a, b);
        }
    }
}
/* tagged.cmpt k a1..ak b1..bk : composite keys */
static void op_tagged_cmpt(const VhLine *l) {
    int k = (int)p_u64(arg(l, 1));
    uint8_t ka[9 * 16], kb[9 * 16];
    if (k < 1 || k > 16) {
        out("bad-arity");
        return;
    }
    size_t la = 0, lb = 0;
    int want = 0;
    for (int i = 0; i < k; i++) {
        uint64_t a = p_u64(arg(l, 2 + i)), b = p_u64(arg(l, 2 + k + i));
        la += varintTaggedPut64(ka + la, a);
        lb += varintTaggedPut64(kb + lb, b);
        if (want == 0) {
            want = a < b ? -1 : a > b ? 1 : 0;
        }
    }
    size_t m = la < lb ? la : lb;
    int c = sgn(memcmp(ka, kb, m));
    if (c == 0) {
        c = la < lb ? -1 : la > lb ? 1 : 0;
    }
    out("c=%d", c);
    if (c != want) {
        mon("C05", "memcmp order of composite keys is %d, tuple order %d", c, want);
    }
    /* a field of a composite key re-encoded in place (same value, last field first - how an in-place update or a
     * right-to-left assembly writes it) must leave the key as it is: an encoder that stores beyond the varint's
     * length clobbers the next field and equal tuples stop being equal keys */
    {
        uint8_t kc[9 * 16 + 16];
        memcpy(kc, ka, la);
        size_t offs[16], o = 0;
        for (int i = 0; i < k; i++) {
            offs[i] = o;
            o += varintTaggedLen(p_u64(arg(l, 2 + i)));
        }
        for (int i = k - 1; i >= 0; i--) {
            varintTaggedPut64(kc + offs[i], p_u64(arg(l, 2 + i)));
            if (memcmp(kc, ka, la) != 0) {
                mon("C05", "re-encoding field %d of a composite key in place changed another field: equal tuples no "
                           "longer have equal keys", i);
                break;
            }
        }
    }
}

/* ------------------------------------------------------------------ sweeps (digest only) */
static uint64_t shape(uint64_t *st) {
    uint64_t x = sm64(st);
    uint64_t k = sm64(st) & 63;
    return x >> k;
}
#define FEED(h, p, n)                                                                              \
    do {                                                                                           \
        for (int _i = 0; _i < (n); _i++) {                                                         \
            h = dg(h, (p)[_i]);                                                                    \
        }                                                                                          \
    } while (0)

static void op_sweep(const VhLine *l) {
    const char *fam = arg(l, 1);
    uint64_t st = p_u64(arg(l, 2));
    uint64_t cnt = p_u64(arg(l, 3));
    uint64_t h = 0xcbf29ce484222325ULL;
    uint64_t bad = 0, firstbad = 0;
    uint8_t buf[32];
    for (uint64_t i = 0; i < cnt; i++) {
        uint64_t v = shape(&st);
        uint64_t dv = 0;
        int n = 0, dl = 0, pl = 0;
        memset(buf, 0, sizeof(buf));
        if (strcmp(fam, "tagged") == 0) {
            n = (int)varintTaggedPut64(buf, v);
            dl = (int)varintTaggedGet64(buf, &dv);
            pl = (int)varintTaggedLen(v);
        } else if (strcmp(fam, "ext") == 0) {
            n = (int)varintExternalPut(buf, v);
            dv = varintExternalGet(buf, (varintWidth)n);
            dl = pl = n;
        } else if (strcmp(fam, "extbe") == 0) {
            n = (int)varintExternalBigEndianPut(buf, v);
            dv = varintExternalBigEndianGet(buf, (varintWidth)n);
            dl = pl = n;
        } else if (strcmp(fam, "chained") == 0) {
            n = (int)varintChainedPutVarint(buf, v);
            dl = (int)varintChainedGetVarint(buf, &dv);
            pl = (int)varintChainedVarintLen(v);
        } else if (strcmp(fam, "csimple") == 0) {
            n = (int)varintChainedSimpleEncode64(buf, v);
            dl = (int)varintChainedSimpleDecode64(buf, &dv);
            pl = (int)varintChainedSimpleLength(v);
        } else if (strcmp(fam, "split") == 0) {
            varintSplitPut_(buf, n, v);
            varintSplitGet_(buf, dl, dv);
            varintSplitLength_(pl, v);
        } else if (strcmp(fam, "sfull") == 0) {
            varintSplitFullPut_(buf, n, v);
            varintSplitFullGet_(buf, dl, dv);
            varintSplitFullLength_(pl, v);
        } else if (strcmp(fam, "snz") == 0) {
            if (v == 0) {
                v = 1;
            }
            varintSplitFullNoZeroPut_(buf, n, v);
            varintSplitFullNoZeroGet_(buf, dl, dv);
            varintSplitFullNoZeroLength_(pl, v);
        } else if (strcmp(fam, "s16") == 0) {
            varintSplitFull16Put_(buf, n, v);
            varintSplitFull16Get_(buf, dl, dv);
            varintSplitFull16Length_(pl, v);
        } else {
            out("bad-family");
            return;
        }
        h = dg(h, (uint64_t)n);
        FEED(h, buf, n);
        if (dv != v || dl != n || pl != n) {
            if (!bad) {
                firstbad = v;
            }
            bad++;
        }
    }
    out("digest=%" PRIx64, h);
    if (bad) {
        mon("C01", "sweep %s: %" PRIu64 " values failed round trip/length agreement, first %" PRIx64, fam, bad, firstbad);
    }
}

/* ------------------------------------------------------------------ per-length maxima (C04) */
static int fam_len(const char *fam, uint64_t v) {
    int pl = 0;
    if (strcmp(fam, "tagged") == 0) {
        return (int)varintTaggedLen(v);
    } else if (strcmp(fam, "ext") == 0) {
        varintWidth w;
        varintExternalUnsignedEncoding(v, w);
        return (int)w;
    } else if (strcmp(fam, "chained") == 0) {
        return (int)varintChainedVarintLen(v);
    } else if (strcmp(fam, "split") == 0) {
        varintSplitLength_(pl, v);
    } else if (strcmp(fam, "sfull") == 0) {
        varintSplitFullLength_(pl, v);
    } else if (strcmp(fam, "snz") == 0) {
        varintSplitFullNoZeroLength_(pl, v);
    } else if (strcmp(fam, "s16") == 0) {
        varintSplitFull16Length_(pl, v);
    }
    return pl;
}
/* maxcell <fam> <k> <m> : is m the largest value the family stores in k bytes? (README cells) */
static void op_maxcell(const VhLine *l) {
    const char *fam = arg(l, 1);
    int k = (int)p_u64(arg(l, 2));
    uint64_t m = p_u64(arg(l, 3));
    int a = fam_len(fam, m), b = m == UINT64_MAX ? 10 : fam_len(fam, m + 1);
    out("l=%d l1=%d", a, b);
    if (!(a <= k && k < b)) {
        mon("C04", "documented %d-byte maximum of %s is %" PRIu64 " but the code needs %d bytes for it and %d for the next value", k,
            fam, m, a, b);
    }
}
/* hdrmax <fam> <k> : the header constant for the k-byte maximum, as compiled */
static void op_hdrmax(const VhLine *l) {
    const char *fam = arg(l, 1);
    int k = (int)p_u64(arg(l, 2));
    static const uint64_t tg[10] = {0, VARINT_TAGGED_MAX_1, VARINT_TAGGED_MAX_2, VARINT_TAGGED_MAX_3,
                                    VARINT_TAGGED_MAX_4, VARINT_TAGGED_MAX_5, VARINT_TAGGED_MAX_6,
                                    VARINT_TAGGED_MAX_7, VARINT_TAGGED_MAX_8, VARINT_TAGGED_MAX_9};
    static const uint64_t sf[10] = {0, VARINT_SPLIT_FULL_STORAGE_1, VARINT_SPLIT_FULL_STORAGE_2, 0,
                                    VARINT_SPLIT_FULL_STORAGE_4, VARINT_SPLIT_FULL_STORAGE_5,
                                    VARINT_SPLIT_FULL_STORAGE_6, VARINT_SPLIT_FULL_STORAGE_7,
                                    VARINT_SPLIT_FULL_STORAGE_8, VARINT_SPLIT_FULL_STORAGE_9};
    static const uint64_t nz[10] = {0, VARINT_SPLIT_FULL_NO_ZERO_STORAGE_1, VARINT_SPLIT_FULL_NO_ZERO_STORAGE_2, 0,
                                    VARINT_SPLIT_FULL_NO_ZERO_STORAGE_4, VARINT_SPLIT_FULL_NO_ZERO_STORAGE_5,
                                    VARINT_SPLIT_FULL_NO_ZERO_STORAGE_6, VARINT_SPLIT_FULL_NO_ZERO_STORAGE_7,
                                    VARINT_SPLIT_FULL_NO_ZERO_STORAGE_8, VARINT_SPLIT_FULL_NO_ZERO_STORAGE_9};
    if (k < 1 || k > 9 || (k == 3 && strcmp(fam, "tagged") != 0)) {
        out("bad-k");
        return;
    }
    uint64_t m = strcmp(fam, "tagged") == 0 ? tg[k] : strcmp(fam, "sfull") == 0 ? sf[k] : nz[k];
    int a = fam_len(fam, m), b = m == UINT64_MAX ? 10 : fam_len(fam, m + 1);
    out("m=%" PRIx64 " l=%d l1=%d", m, a, b);
    if (!(a <= k && k < b)) {
        mon("C04", "header constant for the %d-byte maximum of %s is %" PRIu64 " but the code needs %d bytes for it and %d for the next value",
            k, fam, m, a, b);
    }
}

const VhOp vh_scalar_ops[] = {{"maxcell", op_maxcell},
                              {"hdrmax", op_hdrmax},{"tagged.all", op_tagged_all},
                              {"tagged.fixed", op_tagged_fixed},
                              {"tagged.getn", op_tagged_getn},
                              {"tagged.add", op_tagged_add},
                              {"tagged.dec", op_tagged_dec},
                              {"tagged.cmp", op_tagged_cmp},
                              {"tagged.cmpt", op_tagged_cmpt},
                              {"ext.all", op_ext_all},
                              {"extbe.all", op_ext_all},
                              {"ext.fixed", op_ext_fixed},
                              {"extbe.fixed", op_ext_fixed},
                              {"ext.add", op_ext_add},
                              {"signed.rt", op_signed_rt},
                              {"chained.all", op_chained_all},
                              {"chained.dec", op_chained_dec},
                              {"csimple.all", op_csimple_all},
                              {"csimple.dec", op_csimple_dec},
                              {"split.all", op_split_all},
                              {"sfull.all", op_sfull_all},
                              {"snz.all", op_snz_all},
                              {"s16.all", op_s16_all},
                              {"split.dec", op_split_dec},
                              {"sfull.dec", op_sfull_dec},
                              {"snz.dec", op_snz_dec},
                              {"s16.dec", op_s16_dec},
                              {"sweep", op_sweep},
                              {NULL, NULL}};
