/* Wrapper functions around the statement macros of src/varintExternal.h — NOT part of the harness build; read only by
 * tools/c2lean2.py (clang expands the macros from /repo's CURRENT header). The value argument of the put macro is an
 * expression with a low-precedence operator (macro hygiene). */
#include "varint.h"
#include "varintExternal.h"

void vw_extPutFixedQuick(uint8_t *dst, uint64_t lo, uint64_t hi, varintWidth w) {
    varintExternalPutFixedWidthQuick_(dst, lo | hi, w);
}
uint64_t vw_extGetQuick(const uint8_t *p, varintWidth w) {
    uint64_t r = 0;
    varintExternalGetQuick_(p, w, r);
    return r;
}
