/* Allocation interposer (link-time --wrap, see wrap.flags): while vh_track is set it records every
 * request the library makes, can fail the k-th one (C18) and refuses absurd sizes (C14) so that a
 * hostile count is observed as a result instead of taking the machine down. */
#include "vh.h"
#include <malloc.h>

void *__real_malloc(size_t);
void *__real_calloc(size_t, size_t);
void *__real_realloc(void *, size_t);
void __real_free(void *);

int vh_poison = -1;     /* C15: residue byte written into fresh and released blocks */
int vh_track;
size_t vh_nalloc;       /* allocation requests seen while tracking */
size_t vh_maxreq;       /* largest request */
size_t vh_refused;      /* requests above vh_refuse_above */
size_t vh_refuse_above = (size_t)1 << 31;
long vh_fail_at;        /* 1-based index of the request that fails; 0 = none */
size_t vh_failed;       /* how many failures were injected */

#define LIVE_SLOTS (1u << 16)
static void *live[LIVE_SLOTS];
size_t vh_live;         /* blocks obtained while tracking and not yet freed */

static void live_add(void *p) {
    if (!p) {
        return;
    }
    size_t h = ((uintptr_t)p >> 4) & (LIVE_SLOTS - 1);
    for (size_t i = 0; i < LIVE_SLOTS; i++) {
        size_t s = (h + i) & (LIVE_SLOTS - 1);
        if (!live[s] || live[s] == (void *)1) {
            live[s] = p;
            vh_live++;
            return;
        }
    }
}
static void live_del(void *p) {
    if (!p) {
        return;
    }
    size_t h = ((uintptr_t)p >> 4) & (LIVE_SLOTS - 1);
    for (size_t i = 0; i < LIVE_SLOTS; i++) {
        size_t s = (h + i) & (LIVE_SLOTS - 1);
        if (live[s] == p) {
            live[s] = (void *)1; /* tombstone */
            vh_live--;
            return;
        }
        if (!live[s]) {
            return;
        }
    }
}

void vh_track_begin(long fail_at) {
    memset(live, 0, sizeof(live));
    vh_live = 0;
    vh_nalloc = vh_maxreq = vh_refused = vh_failed = 0;
    vh_fail_at = fail_at;
    vh_track = 1;
}
void vh_track_pause(void) {
    vh_track = 0;
}
void vh_track_resume(void) {
    vh_track = 1;
}
void vh_track_end(void) {
    vh_track = 0;
    vh_fail_at = 0;
}

static bool admit(size_t sz) {
    vh_nalloc++;
    if (sz > vh_maxreq) {
        vh_maxreq = sz;
    }
    if (sz > vh_refuse_above) {
        vh_refused++;
        return false;
    }
    if (vh_fail_at && (long)vh_nalloc == vh_fail_at) {
        vh_failed++;
        return false;
    }
    return true;
}

static void *poisoned(void *p, size_t sz) {
    if (p && vh_poison >= 0 && sz) {
        memset(p, vh_poison, sz);
    }
    return p;
}

void *__wrap_malloc(size_t sz) {
    if (!vh_track) {
        return poisoned(__real_malloc(sz), sz);
    }
    if (!admit(sz)) {
        return NULL;
    }
    void *p = poisoned(__real_malloc(sz), sz);
    live_add(p);
    return p;
}
void *__wrap_calloc(size_t n, size_t sz) {
    if (!vh_track) {
        return __real_calloc(n, sz);
    }
    size_t tot;
    if (__builtin_mul_overflow(n, sz, &tot)) {
        tot = SIZE_MAX;
    }
    if (!admit(tot)) {
        return NULL;
    }
    void *p = __real_calloc(n, sz);
    live_add(p);
    return p;
}
void *__wrap_realloc(void *old, size_t sz) {
    if (!vh_track) {
        return __real_realloc(old, sz);
    }
    if (!admit(sz)) {
        return NULL; /* old block stays valid, as with the real realloc */
    }
    void *p = __real_realloc(old, sz);
    if (p) {
        live_del(old);
        live_add(p);
    }
    return p;
}
/* page-straddling placements handed out by exact_copy (vh_main.c) are not heap blocks */
extern uint8_t *vh_place_lo, *vh_place_hi;
void __wrap_free(void *p) {
    if (p && (uint8_t *)p >= vh_place_lo && (uint8_t *)p < vh_place_hi) {
        return;
    }
    if (vh_track) {
        live_del(p);
    }
    if (p && vh_poison >= 0) {
        memset(p, vh_poison ^ 0xFF, malloc_usable_size(p));
    }
    __real_free(p);
}
