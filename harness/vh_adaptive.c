/* varintAdaptive: automatic and forced encodings (C06, C03, C13, C16). */
#include "vh.h"

#include "varintAdaptive.h"

extern uint64_t *vh_parse_array(const VhLine *l, int *argi, size_t *n);

#define CANARY 256
#define OGUARD 8
static const char *const ENC[] = {"DELTA", "FOR", "PFOR", "DICT", "BITMAP", "TAGGED", "GROUP"};

static void show(const char *key, const uint8_t *p, size_t n) {
    if (n <= 96) {
        out_hex(key, p, n);
    } else {
        uint64_t h = 0xcbf29ce484222325ULL;
        for (size_t i = 0; i < n; i++) {
            h = dg(h, p[i]);
        }
        out("%s=#%" PRIx64, key, h);
    }
}
static uint64_t *oalloc(size_t cap) {
    uint64_t *p = malloc((cap + OGUARD) * sizeof(uint64_t));
    for (size_t i = 0; i < cap + OGUARD; i++) {
        p[i] = 0xA5A5A5A5A5A5A5A5ULL;
    }
    return p;
}
static bool ooverrun(const uint64_t *p, size_t cap) {
    for (size_t i = 0; i < OGUARD; i++) {
        if (p[cap + i] != 0xA5A5A5A5A5A5A5A5ULL) {
            return true;
        }
    }
    return false;
}
static size_t fdiff(const uint64_t *a, const uint64_t *b, size_t n) {
    for (size_t i = 0; i < n; i++) {
        if (a[i] != b[i]) {
            return i;
        }
    }
    return n;
}

/* The adaptive meta is an OUTPUT: what it held before the call must not influence the bytes produced. The meta is
 * first filled by encoding a different array of the SAME length (values shifted / reversed), the way a caller
 * re-using one meta for equal-sized blocks would, then the real array is encoded with it and the bytes are
 * compared with the fresh-meta encoding. type < 0 = automatic selection. */
static void residue_check(const char *tag, int type, const uint64_t *v, size_t n, const uint8_t *ref, size_t reflen, size_t cap) {
    if (n == 0) {
        return;
    }
    for (int variant = 0; variant < 3; variant++) {
        uint64_t *w = malloc(n * sizeof(uint64_t));
        for (size_t i = 0; i < n; i++) {
            w[i] = variant == 0 ? v[i] + 5000 : variant == 1 ? v[n - 1 - i] : (v[i] >> 1) + 3;
        }
        uint8_t *d1 = malloc(cap), *d2 = malloc(cap);
        varintAdaptiveMeta m;
        memset(&m, 0, sizeof(m));
        if (type < 0) {
            (void)varintAdaptiveEncode(d1, w, n, &m);
        } else {
            (void)varintAdaptiveEncodeWith(d1, w, n, (varintAdaptiveEncodingType)type, &m);
        }
        size_t l2 = type < 0 ? varintAdaptiveEncode(d2, v, n, &m)
                             : varintAdaptiveEncodeWith(d2, v, n, (varintAdaptiveEncodingType)type, &m);
        if (l2 != reflen || memcmp(d2, ref, reflen) != 0) {
            mon("C06", "%s: encoding with a meta that was used before for another array of the same length gives "
                "different bytes (%zu vs %zu, variant %d): the result depends on the meta's previous content", tag, l2, reflen, variant);
            mon("C15", "%s: result depends on the previous content of the output meta (variant %d)", tag, variant);
            free(d1); free(d2); free(w);
            return;
        }
        free(d1); free(d2); free(w);
    }
}

/* the decoder's own answer (count + values), for the correspondence with the model's Adaptive.decodeAll */
static void show_decoded(const uint8_t *enc, size_t len, size_t n) {
    uint8_t *e = exact_copy(enc, len);
    uint64_t *o = oalloc(n);
    size_t r = varintAdaptiveDecode(e, o, n, NULL);
    out("r=%zu", r);
    show("d", (const uint8_t *)o, (r < n ? r : n) * 8);
    free(o);
    free(e);
}

/* decode checks shared by both ops */
static void decode_checks(const char *tag, int type, const uint8_t *enc, size_t len, const uint64_t *v, size_t n) {
    uint8_t *e = exact_copy(enc, len);
    uint64_t *o = oalloc(n);
    varintAdaptiveMeta dm;
    memset(&dm, 0, sizeof(dm));
    size_t r = varintAdaptiveDecode(e, o, n, &dm);
    if (r != n || fdiff(o, v, n) != n) {
        mon("C06", "%s (%s): decode returned %zu of %zu, first differing element %zu", tag, ENC[type % 7], r, n, fdiff(o, v, n < r ? n : r));
    }
    if (ooverrun(o, n)) {
        mon("C13", "%s (%s): decoder wrote past %zu elements", tag, ENC[type % 7], n);
    }
    if ((int)dm.encodingType != type) {
        mon("C06", "%s: decoder reports encoding %d, stream was written as %d", tag, (int)dm.encodingType, type);
    }
    free(o);
    /* smaller capacities */
    size_t caps[6];
    size_t nc = 0;
    caps[nc++] = 0;
    if (n >= 2) {
        caps[nc++] = 1;
    }
    if (n / 2 > 1) {
        caps[nc++] = n / 2;
    }
    if (n >= 3) {
        caps[nc++] = n - 1;
    }
    for (size_t c = 0; c < nc; c++) {
        size_t cap = caps[c];
        if (cap >= n) {
            continue;
        }
        if (cap == 0 && type == 0) {
            continue; /* DELTA with count 0 decodes nothing; nothing to check */
        }
        uint64_t *oc = oalloc(cap);
        size_t rc = varintAdaptiveDecode(e, oc, cap, NULL);
        if (ooverrun(oc, cap)) {
            mon("C13", "%s (%s): decoder wrote past capacity %zu (count %zu)", tag, ENC[type % 7], cap, n);
        } else if (rc > cap || fdiff(oc, v, rc) != rc) {
            mon("C13", "%s (%s): capacity %zu < count %zu: returned %zu values that are not a prefix", tag, ENC[type % 7], cap, n, rc);
        }
        free(oc);
    }
    free(e);
}

/* adaptive.rt <array> */
static void op_adaptive_rt(const VhLine *l) {
    int ai = 1;
    size_t n;
    uint64_t *v = vh_parse_array(l, &ai, &n);
    size_t adv = varintAdaptiveMaxSize(n);
    uint8_t *d = malloc(adv + CANARY);
    memset(d, 0xEE, adv + CANARY);
    varintAdaptiveMeta m;
    memset(&m, 0x5B, sizeof(m));
    size_t len = varintAdaptiveEncode(d, v, n, &m);
    out("sel=%d len=%zu", (int)m.encodingType, len);
    show("b", d, len);
    out("adv=%zu m=%zu,%zu", adv, m.originalCount, m.encodedSize);
    for (int i = CANARY - 1; i >= 0; i--) {
        if (d[adv + (size_t)i] != 0xEE) {
            mon("C03", "adaptive encoder (%s) wrote %d byte(s) past varintAdaptiveMaxSize = %zu", ENC[(int)m.encodingType % 7], i + 1, adv);
            break;
        }
    }
    if (len > adv) {
        mon("C03", "adaptive encoder (%s) returned %zu bytes, varintAdaptiveMaxSize = %zu", ENC[(int)m.encodingType % 7], len, adv);
    }
    if (len >= 1) {
        if (d[0] != (uint8_t)m.encodingType || (int)varintAdaptiveGetEncodingType(d) != (int)m.encodingType) {
            mon("C06", "first output byte %d does not name the reported encoding %d", d[0], (int)m.encodingType);
        }
        if (m.originalCount != n || m.encodedSize != len) {
            mon("C16", "adaptive meta {count %zu size %zu} but %zu values were encoded into %zu bytes", m.originalCount, m.encodedSize, n, len);
        }
        varintAdaptiveMeta rm;
        memset(&rm, 0, sizeof(rm));
        varintAdaptiveReadMeta(d, &rm);
        if ((int)rm.encodingType != (int)m.encodingType) {
            mon("C16", "adaptiveReadMeta reports encoding %d, written %d", (int)rm.encodingType, (int)m.encodingType);
        }
        if (n && (rm.originalCount != n || rm.encodedSize != len)) {
            mon("C16", "adaptiveReadMeta %s: {count %zu size %zu} but the stream holds %zu values in %zu bytes", ENC[(int)m.encodingType % 7],
                rm.originalCount, rm.encodedSize, n, len);
        }
        if (n) {
            decode_checks("adaptive", (int)m.encodingType, d, len, v, n);
            residue_check("adaptive", -1, v, n, d, len, adv + CANARY);
            show_decoded(d, len, n);
        }
    }
    free(d);
    free(v);
}

/* adaptive.with t=<type> <array> : forced encoding (caller guarantees the documented domain) */
static void op_adaptive_with(const VhLine *l) {
    int type = (int)p_u64(kw(l, "t"));
    int ai = 1;
    while (ai < l->n && strchr(l->tok[ai], '=')) {
        ai++;
    }
    size_t n;
    uint64_t *v = vh_parse_array(l, &ai, &n);
    size_t adv = varintAdaptiveMaxSize(n) + 8200; /* forced BITMAP may need its 8 KiB container */
    uint8_t *d = malloc(adv + CANARY);
    memset(d, 0xEE, adv + CANARY);
    varintAdaptiveMeta m;
    memset(&m, 0x5B, sizeof(m));
    size_t len = varintAdaptiveEncodeWith(d, v, n, (varintAdaptiveEncodingType)type, &m);
    out("len=%zu", len);
    show("b", d, len);
    out("m=%d,%zu,%zu", (int)m.encodingType, m.originalCount, m.encodedSize);
    if (len >= 1 && n) {
        if (d[0] != type || (int)m.encodingType != type || m.originalCount != n || m.encodedSize != len) {
            mon("C06", "forced %s: header byte %d / meta {type %d count %zu size %zu} for %zu values in %zu bytes", ENC[type % 7], d[0],
                (int)m.encodingType, m.originalCount, m.encodedSize, n, len);
        }
        decode_checks("adaptive.with", type, d, len, v, n);
        residue_check("adaptive.with", type, v, n, d, len, adv + CANARY);
        show_decoded(d, len, n);
    }
    free(d);
    free(v);
}

const VhOp vh_adaptive_ops[] = {{"adaptive.rt", op_adaptive_rt}, {"adaptive.with", op_adaptive_with}, {NULL, NULL}};
