/* Integer-array codecs: delta, FOR, PFOR, group, dict, RLE, Elias, BP128.
 * `<codec>.rt <array> [t=..]` encodes into a buffer of exactly the advertised size followed by a
 * canary, decodes an exact-size heap copy of the bytes the encoder reported, exercises random access,
 * capacities and metadata, prints what the model must reproduce and runs the C02/C03/C13/C16 monitors. */
#include "vh.h"

#include "varintBP128.h"
#include "varintDelta.h"
#include "varintDict.h"
#include "varintElias.h"
#include "varintFOR.h"
#include "varintGroup.h"
#include "varintPFOR.h"
#include "varintRLE.h"

#define CANARY 256
#define SHOWMAX 96

/* ------------------------------------------------------------------ array arguments */
/* either "n v1 .. vn" (hex) or "@shape:seed:n:lo:range" (hex fields) generated identically by the driver */
uint64_t *vh_parse_array(const VhLine *l, int *argi, size_t *n) {
    const char *t = arg(l, *argi);
    if (t[0] == '@') {
        char shape = t[1];
        uint64_t f[4] = {0, 0, 0, 0};
        const char *p = t + 2;
        for (int k = 0; k < 4 && *p == ':'; k++) {
            f[k] = strtoull(p + 1, (char **)&p, 16);
        }
        uint64_t st = f[0], cnt = f[1], lo = f[2], range = f[3];
        uint64_t *v = malloc((cnt ? cnt : 1) * sizeof(uint64_t));
        uint64_t step = cnt ? range / cnt : 0;
        uint64_t prev = lo;
        for (uint64_t i = 0; i < cnt; i++) {
            uint64_t r = sm64(&st);
            uint64_t base = range == UINT64_MAX ? r : r % (range + 1);
            uint64_t x;
            switch (shape) {
            case 'a':
                x = lo + step * i + r % (step + 1);
                break;
            case 'd':
                x = lo + step * (cnt - 1 - i) + r % (step + 1);
                break;
            case 'c':
                x = lo;
                break;
            case 'u':
                x = (i == 0 || (r & 7) == 0) ? lo + (range == UINT64_MAX ? (r >> 3) : (r >> 3) % (range + 1)) : prev;
                break;
            case 'p':
                x = lo + (i % 16) * (range / 16);
                break;
            case 'o':
                x = (i == cnt / 2) ? lo + range : lo + r % 16;
                break;
            default:
                x = lo + base;
            }
            v[i] = x;
            prev = x;
        }
        *n = (size_t)cnt;
        (*argi)++;
        return v;
    }
    size_t cnt = (size_t)p_u64(t);
    uint64_t *v = malloc((cnt ? cnt : 1) * sizeof(uint64_t));
    for (size_t i = 0; i < cnt; i++) {
        v[i] = p_u64(arg(l, *argi + 1 + (int)i));
    }
    *argi += 1 + (int)cnt;
    *n = cnt;
    return v;
}

static void out_buf(const char *key, const uint8_t *p, size_t n) {
    if (n <= SHOWMAX) {
        out_hex(key, p, n);
    } else {
        uint64_t h = 0xcbf29ce484222325ULL;
        for (size_t i = 0; i < n; i++) {
            h = dg(h, p[i]);
        }
        out("%s=#%" PRIx64, key, h);
    }
}

/* destination of `adv` bytes followed by a canary */
static uint8_t *dst_alloc(size_t adv) {
    uint8_t *p = malloc(adv + CANARY);
    memset(p, 0xEE, adv + CANARY);
    return p;
}
static long dst_overrun(const uint8_t *p, size_t adv) {
    for (long i = CANARY - 1; i >= 0; i--) {
        if (p[adv + (size_t)i] != 0xEE) {
            return i + 1; /* bytes past the advertised size that were modified */
        }
    }
    return 0;
}
#define C03_CHECK(name, p, adv, len)                                                               \
    do {                                                                                           \
        long _o = dst_overrun((p), (adv));                                                         \
        if (_o) {                                                                                  \
            mon("C03", "%s wrote %ld byte(s) past the advertised size %zu", name, _o, (size_t)(adv)); \
        }                                                                                          \
        if ((size_t)(len) > (size_t)(adv)) {                                                       \
            mon("C03", "%s returned %zu bytes, advertised %zu", name, (size_t)(len), (size_t)(adv)); \
        }                                                                                          \
    } while (0)

/* output array of `cap` elements followed by guard elements */
#define OGUARD 8
static uint64_t *out_alloc(size_t cap) {
    uint64_t *p = malloc((cap + OGUARD) * sizeof(uint64_t));
    for (size_t i = 0; i < cap + OGUARD; i++) {
        p[i] = 0xA5A5A5A5A5A5A5A5ULL;
    }
    return p;
}
static bool out_overrun(const uint64_t *p, size_t cap) {
    for (size_t i = 0; i < OGUARD; i++) {
        if (p[cap + i] != 0xA5A5A5A5A5A5A5A5ULL) {
            return true;
        }
    }
    return false;
}
static bool same(const uint64_t *a, const uint64_t *b, size_t n) {
    return n == 0 || memcmp(a, b, n * sizeof(uint64_t)) == 0;
}
static size_t first_diff(const uint64_t *a, const uint64_t *b, size_t n) {
    for (size_t i = 0; i < n; i++) {
        if (a[i] != b[i]) {
            return i;
        }
    }
    return n;
}
/* capacities exercised for C13 */
static size_t caps_of(size_t n, size_t *caps) {
    size_t k = 0;
    caps[k++] = 0;
    if (n >= 1) {
        caps[k++] = 1;
    }
    if (n / 2 > 1) {
        caps[k++] = n / 2;
    }
    if (n >= 3) {
        caps[k++] = n - 1;
    }
    if (n >= 130) {
        caps[k++] = 128;
        caps[k++] = 129;
    }
    return k;
}
/* indices for random access: all if small, else 64 spread + ends */
static size_t idx_of(size_t n, size_t *idx) {
    size_t k = 0;
    if (n <= 300) {
        for (size_t i = 0; i < n; i++) {
            idx[k++] = i;
        }
        return k;
    }
    uint64_t st = n * 2654435761ULL;
    idx[k++] = 0;
    idx[k++] = n - 1;
    idx[k++] = n / 2;
    idx[k++] = 127;
    idx[k++] = 128;
    idx[k++] = 240;
    idx[k++] = 241;
    for (int i = 0; i < 57; i++) {
        idx[k++] = sm64(&st) % n;
    }
    return k;
}

/* ------------------------------------------------------------------ delta */
static void op_delta_rt(const VhLine *l) {
    bool uns = strncmp(arg(l, 0), "deltau", 6) == 0;
    const char *nm = uns ? "deltaU" : "delta";
    int ai = 1;
    size_t n;
    uint64_t *v = vh_parse_array(l, &ai, &n);
    size_t adv = varintDeltaMaxEncodedSize(n);
    uint8_t *d = dst_alloc(adv);
    size_t len = uns ? varintDeltaEncodeUnsigned(d, v, n) : varintDeltaEncode(d, (const int64_t *)v, n);
    out("len=%zu", len);
    out_buf("b", d, len);
    out("adv=%zu", adv);
    C03_CHECK(nm, d, adv, len);
    uint8_t *e = exact_copy(d, len);
    uint64_t *o = out_alloc(n);
    size_t used = uns ? varintDeltaDecodeUnsigned(e, n, o) : varintDeltaDecode(e, n, (int64_t *)o);
    if (!same(o, v, n)) {
        mon("C02", "%s: element %zu of %zu differs after decode", nm, first_diff(o, v, n), n);
    }
    if (used != len) {
        mon("C02", "%s: decoder consumed %zu bytes, encoder wrote %zu", nm, used, len);
    }
    if (out_overrun(o, n)) {
        mon("C13", "%s: decoder wrote past %zu elements", nm, n);
    }
    free(o);
    free(e);
    free(d);
    free(v);
}

/* zigzag <int64 decimal> */
static void op_zigzag(const VhLine *l) {
    int64_t s = p_i64(arg(l, 1));
    uint64_t z = varintDeltaZigZag(s);
    int64_t back = varintDeltaZigZagDecode(z);
    out("z=%" PRIx64 " back=%" PRId64, z, back);
    uint64_t want = s >= 0 ? 2 * (uint64_t)s : 2 * (uint64_t)(-(s + 1)) + 1;
    if (z != want) {
        mon("C04", "zig-zag of %" PRId64 " is %" PRIx64 ", definition gives %" PRIx64, s, z, want);
    }
    if (back != s) {
        mon("C02", "zig-zag of %" PRId64 " decodes as %" PRId64, s, back);
    }
}

/* ------------------------------------------------------------------ FOR */
static void for_meta_truth(const char *nm, const varintFORMeta *m, const uint64_t *v, size_t n, size_t len) {
    uint64_t mn = v[0], mx = v[0];
    for (size_t i = 1; i < n; i++) {
        if (v[i] < mn) {
            mn = v[i];
        }
        if (v[i] > mx) {
            mx = v[i];
        }
    }
    varintWidth w;
    varintExternalUnsignedEncoding(mx - mn, w);
    if (m->minValue != mn || m->maxValue != mx || m->range != mx - mn || m->count != n || m->encodedSize != len ||
        (size_t)m->offsetWidth != (size_t)w) {
        mon("C16", "%s meta {min %" PRIx64 " max %" PRIx64 " range %" PRIx64 " count %zu size %zu width %d} but data has "
                   "{%" PRIx64 " %" PRIx64 " %" PRIx64 " %zu %zu %d}",
            nm, m->minValue, m->maxValue, m->range, m->count, m->encodedSize, (int)m->offsetWidth, mn, mx, mx - mn, n, len,
            (int)w);
    }
}

static void op_for_rt(const VhLine *l) {
    bool batch = strncmp(arg(l, 0), "forb", 4) == 0;
    const char *nm = batch ? "FORbatch" : "FOR";
    int ai = 1;
    size_t n;
    uint64_t *v = vh_parse_array(l, &ai, &n);
    if (n == 0) {
        out("empty");
        free(v);
        return;
    }
    varintFORMeta am;
    memset(&am, 0, sizeof(am));
    if (batch) {
        varintFORBatchAnalyze(v, n, &am);
    } else {
        varintFORAnalyze(v, n, &am);
    }
    size_t adv = varintFORSize(&am);
    uint8_t *d = dst_alloc(adv);
    varintFORMeta m;
    memset(&m, 0, sizeof(m)); /* count 0 != n: the encoder analyses itself */
    size_t len = batch ? varintFORBatchEncode(d, v, n, &m) : varintFOREncode(d, v, n, &m);
    out("len=%zu", len);
    out_buf("b", d, len);
    out("adv=%zu m=%" PRIx64 ",%" PRIx64 ",%" PRIx64 ",%zu,%zu,%d", adv, m.minValue, m.maxValue, m.range, m.count,
        m.encodedSize, (int)m.offsetWidth);
    C03_CHECK(nm, d, adv, len);
    if (len != adv) {
        mon("C03", "%s: size predictor %zu is documented exact but %zu bytes were written", nm, adv, len);
    }
    for_meta_truth(nm, &m, v, n, len);
    for_meta_truth("FORAnalyze", &am, v, n, len);
    uint8_t *e = exact_copy(d, len);
    /* header accessors */
    varintFORMeta rm;
    memset(&rm, 0, sizeof(rm));
    varintFORReadMetadata(e, &rm);
    uint64_t gmin = varintFORGetMinValue(e);
    size_t gcnt = varintFORGetCount(e);
    int gw = (int)varintFORGetOffsetWidth(e);
    out("h=%" PRIx64 ",%zu,%d,%zu", gmin, gcnt, gw, rm.encodedSize);
    if (gmin != m.minValue || gcnt != n || gw != (int)m.offsetWidth || rm.minValue != gmin || rm.count != n ||
        (int)rm.offsetWidth != gw || rm.encodedSize != len) {
        mon("C16", "%s header accessors {min %" PRIx64 " count %zu width %d size %zu} disagree with the encoded data "
                   "{%" PRIx64 " %zu %d %zu}",
            nm, gmin, gcnt, gw, rm.encodedSize, m.minValue, n, (int)m.offsetWidth, len);
    }
    /* full decode, exact capacity */
    uint64_t *o = out_alloc(n);
    size_t r = batch ? varintFORBatchDecode(e, o, n) : varintFORDecode(e, o, n);
    if (r != n || !same(o, v, n)) {
        mon("C02", "%s: decode returned %zu of %zu, first differing element %zu", nm, r, n, first_diff(o, v, n));
    }
    if (out_overrun(o, n)) {
        mon("C13", "%s: decoder wrote past capacity %zu", nm, n);
    }
    free(o);
    /* smaller capacities: documented failure (0), nothing written beyond cap */
    size_t caps[8];
    size_t nc = caps_of(n, caps);
    for (size_t c = 0; c < nc; c++) {
        if (caps[c] >= n) {
            continue;
        }
        uint64_t *oc = out_alloc(caps[c]);
        size_t rc = batch ? varintFORBatchDecode(e, oc, caps[c]) : varintFORDecode(e, oc, caps[c]);
        if (out_overrun(oc, caps[c])) {
            mon("C13", "%s: decoder wrote past capacity %zu (count %zu)", nm, caps[c], n);
        }
        if (rc != 0) {
            mon("C13", "%s: capacity %zu < count %zu but decode returned %zu instead of 0", nm, caps[c], n, rc);
        }
        free(oc);
    }
    /* random access and block reader */
    size_t idx[400];
    size_t ni = idx_of(n, idx);
    for (size_t k = 0; k < ni; k++) {
        uint64_t g = varintFORGetAt(e, idx[k]);
        if (g != v[idx[k]]) {
            mon("C02", "%s: GetAt(%zu) = %" PRIx64 ", element is %" PRIx64, nm, idx[k], g, v[idx[k]]);
            break;
        }
    }
    for (size_t k = 0; k < ni && k < 24; k++) {
        size_t start = idx[k];
        size_t bsz = 1 + (idx[(k + 1) % ni] % 40);
        uint64_t *ob = out_alloc(bsz);
        size_t rb = varintFORDecodeBlock(e, ob, start, bsz);
        size_t want = start + bsz > n ? n - start : bsz;
        if (rb != want || !same(ob, v + start, want)) {
            mon("C02", "%s: DecodeBlock(start %zu, size %zu) returned %zu, expected %zu matching elements", nm, start, bsz,
                rb, want);
        }
        if (out_overrun(ob, bsz)) {
            mon("C13", "%s: DecodeBlock wrote past its block size", nm);
        }
        free(ob);
    }
    free(e);
    free(d);
    free(v);
}

/* ------------------------------------------------------------------ PFOR */
static void op_pfor_rt(const VhLine *l) {
    int ai = 1;
    size_t n;
    uint64_t *v = vh_parse_array(l, &ai, &n);
    const char *ts = kw(l, "t");
    uint32_t t = ts ? (uint32_t)p_u64(ts) : 95;
    if (n == 0 || n > UINT32_MAX) {
        out("empty");
        free(v);
        return;
    }
    varintPFORMeta pm;
    memset(&pm, 0, sizeof(pm));
    varintPFORComputeThreshold(v, (uint32_t)n, t, &pm);
    size_t adv = varintPFORSize(&pm);
    uint8_t *d = dst_alloc(adv);
    varintPFORMeta m;
    memset(&m, 0, sizeof(m));
    size_t len = varintPFOREncode(d, v, (uint32_t)n, t, &m);
    out("len=%zu", len);
    out_buf("b", d, len);
    out("adv=%zu m=%" PRIx64 ",%" PRIx64 ",%" PRIx64 ",%d,%u,%u", adv, m.min, m.exceptionMarker, m.thresholdValue,
        (int)m.width, m.count, m.exceptionCount);
    C03_CHECK("PFOR", d, adv, len);
    /* C16: exception count = number of values above the threshold = patches written */
    uint32_t above = 0;
    uint64_t mn = v[0];
    for (size_t i = 0; i < n; i++) {
        if (v[i] > m.thresholdValue) {
            above++;
        }
        if (v[i] < mn) {
            mn = v[i];
        }
    }
    if (m.exceptionCount != above || m.count != n || m.min != mn) {
        mon("C16", "PFOR meta {count %u exceptions %u min %" PRIx64 "} but data has {%zu %u %" PRIx64 "}", m.count,
            m.exceptionCount, m.min, n, above, mn);
    }
    uint8_t *e = exact_copy(d, len);
    varintPFORMeta rm;
    memset(&rm, 0, sizeof(rm));
    size_t hl = varintPFORReadMeta(e, &rm);
    out("h=%" PRIx64 ",%d,%u,%u,%zu", rm.min, (int)rm.width, rm.count, rm.exceptionCount, hl);
    if (rm.min != m.min || rm.width != m.width || rm.count != n || rm.exceptionCount != above) {
        mon("C16", "PFOR ReadMeta {min %" PRIx64 " width %d count %u exceptions %u} disagrees with the data", rm.min,
            (int)rm.width, rm.count, rm.exceptionCount);
    }
    uint64_t *o = out_alloc(n);
    varintPFORMeta dm;
    memset(&dm, 0, sizeof(dm)); /* width 0: decoder reads the header itself */
    size_t r = varintPFORDecode(e, o, &dm);
    if (r != n || !same(o, v, n)) {
        mon("C02", "PFOR t=%u: decode returned %zu of %zu, first differing element %zu", t, r, n, first_diff(o, v, n));
    }
    if (out_overrun(o, n)) {
        mon("C13", "PFOR: decoder wrote past %zu elements", n);
    }
    free(o);
    size_t idx[400];
    size_t ni = idx_of(n, idx);
    for (size_t k = 0; k < ni; k++) {
        uint64_t g = varintPFORGetAt(e, (uint32_t)idx[k], &rm);
        if (g != v[idx[k]]) {
            mon("C02", "PFOR t=%u: GetAt(%zu) = %" PRIx64 ", element is %" PRIx64, t, idx[k], g, v[idx[k]]);
            break;
        }
    }
    free(e);
    free(d);
    free(v);
}

/* ------------------------------------------------------------------ group */
static void op_group_rt(const VhLine *l) {
    int ai = 1;
    size_t n;
    uint64_t *v = vh_parse_array(l, &ai, &n);
    if (n > 255) {
        out("too-many");
        free(v);
        return;
    }
    size_t adv = varintGroupSize(v, (uint8_t)n);
    uint8_t *d = dst_alloc(adv);
    size_t len = varintGroupEncode(d, v, (uint8_t)n);
    out("len=%zu", len);
    out_buf("b", d, len);
    out("adv=%zu", adv);
    C03_CHECK("group", d, adv, len);
    if (len != adv) {
        mon("C03", "group: size predictor %zu is documented exact but %zu bytes were written", adv, len);
    }
    if (len == 0) {
        if (n >= 1 && n <= 64) {
            mon("C02", "group: %zu fields rejected", n);
        }
        free(d);
        free(v);
        return;
    }
    uint8_t *e = exact_copy(d, len);
    size_t gs = varintGroupGetSize(e);
    int fc = (int)varintGroupGetFieldCount(e);
    out("gs=%zu fc=%d", gs, fc);
    if (gs != len || fc != (int)n) {
        mon("C16", "group: self-measured size %zu / field count %d, encoder wrote %zu bytes for %zu fields", gs, fc, len, n);
    }
    uint64_t *o = out_alloc(n);
    uint8_t cnt = 0;
    size_t r = varintGroupDecode(e, o, &cnt, n);
    if (r != len || cnt != n || !same(o, v, n)) {
        mon("C02", "group: decode consumed %zu of %zu bytes, %d of %zu fields, first differing %zu", r, len, (int)cnt, n,
            first_diff(o, v, n));
    }
    if (out_overrun(o, n)) {
        mon("C13", "group: decoder wrote past %zu fields", n);
    }
    free(o);
    size_t caps[8];
    size_t nc = caps_of(n, caps);
    for (size_t c = 0; c < nc; c++) {
        if (caps[c] >= n) {
            continue;
        }
        uint64_t *oc = out_alloc(caps[c]);
        uint8_t cc = 0;
        size_t rc = varintGroupDecode(e, oc, &cc, caps[c]);
        if (out_overrun(oc, caps[c])) {
            mon("C13", "group: decoder wrote past capacity %zu (fields %zu)", caps[c], n);
        }
        if (rc != 0) {
            mon("C13", "group: capacity %zu < fields %zu but decode returned %zu instead of 0", caps[c], n, rc);
        }
        free(oc);
    }
    for (size_t i = 0; i < n; i++) {
        uint64_t g = 0;
        size_t rr = varintGroupGetField(e, (uint8_t)i, &g);
        int fw = (int)varintGroupGetFieldWidth(e, (uint8_t)i);
        if (rr == 0 || g != v[i]) {
            mon("C02", "group: GetField(%zu) = %" PRIx64 " (ret %zu), field is %" PRIx64, i, g, rr, v[i]);
            break;
        }
        varintWidth aw;
        varintExternalUnsignedEncoding(v[i], aw);
        int nw = aw <= 1 ? 1 : aw <= 2 ? 2 : aw <= 4 ? 4 : 8;
        if (fw != nw) {
            mon("C16", "group: GetFieldWidth(%zu) = %d, stored width is %d", i, fw, nw);
            break;
        }
    }
    free(e);
    free(d);
    free(v);
}

/* ------------------------------------------------------------------ dict */
static void op_dict_rt(const VhLine *l) {
    int ai = 1;
    size_t n;
    uint64_t *v = vh_parse_array(l, &ai, &n);
    size_t adv = varintDictEncodedSize(v, n);
    uint8_t *d = dst_alloc(adv);
    size_t len = varintDictEncode(d, v, n);
    out("len=%zu", len);
    out_buf("b", d, len);
    out("adv=%zu", adv);
    C03_CHECK("dict", d, adv, len);
    if (len != adv) {
        mon("C03", "dict: size predictor %zu is documented exact but %zu bytes were written", adv, len);
    }
    if (n == 0) {
        free(d);
        free(v);
        return;
    }
    uint8_t *e = exact_copy(d, len);
    size_t oc = 0;
    uint64_t *o = varintDictDecode(e, len, &oc);
    if (!o || oc != n || !same(o, v, n)) {
        mon("C02", "dict: Decode returned %s, %zu of %zu, first differing %zu", o ? "values" : "NULL", oc, n,
            o ? first_diff(o, v, oc < n ? oc : n) : 0);
    }
    free(o);
    uint64_t *o2 = out_alloc(n);
    size_t r2 = varintDictDecodeInto(e, len, o2, n);
    if (r2 != n || !same(o2, v, n)) {
        mon("C02", "dict: DecodeInto returned %zu of %zu, first differing %zu", r2, n, first_diff(o2, v, n));
    }
    if (out_overrun(o2, n)) {
        mon("C13", "dict: DecodeInto wrote past %zu elements", n);
    }
    free(o2);
    size_t caps[8];
    size_t nc = caps_of(n, caps);
    for (size_t c = 0; c < nc; c++) {
        if (caps[c] >= n) {
            continue;
        }
        uint64_t *ocp = out_alloc(caps[c]);
        size_t rc = varintDictDecodeInto(e, len, ocp, caps[c]);
        if (out_overrun(ocp, caps[c])) {
            mon("C13", "dict: DecodeInto wrote past capacity %zu (count %zu)", caps[c], n);
        }
        if (rc != 0) {
            mon("C13", "dict: capacity %zu < count %zu but DecodeInto returned %zu instead of 0", caps[c], n, rc);
        }
        free(ocp);
    }
    free(e);
    free(d);
    free(v);
}

/* ------------------------------------------------------------------ RLE */
/* rle.cap cap=<hex> hdr=<0|1> total=<hex> <len1> <val1> <len2> <val2> ... : a HOSTILE run-length stream (any run
 * lengths, also 0 and values close to 2^64; with hdr=1 preceded by the declared total) followed by an end marker,
 * decoded into an output block of exactly `cap` elements (ASan) - whatever the stream declares, at most `cap`
 * elements may be written (C13) */
static void op_rle_cap(const VhLine *l) {
    size_t cap = (size_t)p_u64(kw(l, "cap"));
    int hdr = kw(l, "hdr") ? (int)p_u64(kw(l, "hdr")) : 0;
    uint64_t total = kw(l, "total") ? p_u64(kw(l, "total")) : 0;
    int first = 1;
    while (first < l->n && strchr(l->tok[first], '=')) {
        first++;
    }
    int pairs = (l->n - first) / 2;
    uint8_t *enc = calloc(1, (size_t)pairs * 18 + 64);
    size_t n = 0;
    if (hdr) {
        n += varintTaggedPut64(enc + n, total);
    }
    for (int i = 0; i < pairs; i++) {
        n += varintTaggedPut64(enc + n, p_u64(l->tok[first + 2 * i]));
        n += varintTaggedPut64(enc + n, p_u64(l->tok[first + 2 * i + 1]));
    }
    /* the zero padding is the end marker (run length 0) */
    uint64_t *o = malloc(cap ? cap * sizeof(uint64_t) : 1);
    for (size_t i = 0; i < cap; i++) {
        o[i] = 0xDDDDDDDDDDDDDDDDULL;
    }
    size_t r = hdr ? varintRLEDecodeWithHeader(enc, o, cap) : varintRLEDecode(enc, o, cap);
    out("n=%zu v=", r);
    for (size_t i = 0; i < r && i < cap && i < 12; i++) {
        out("%" PRIx64, o[i]);
    }
    if (r > 0 && r <= cap) {
        out("last=%" PRIx64, o[r - 1]);
    }
    if (r > cap) {
        mon("C13", "RLE%s decoder reports %zu elements for a capacity of %zu", hdr ? " (header)" : "", r, cap);
    }
    for (size_t i = r; i < cap; i++) {
        if (o[i] != 0xDDDDDDDDDDDDDDDDULL) {
            mon("C13", "RLE%s decoder returned %zu but modified output element %zu", hdr ? " (header)" : "", r, i);
            break;
        }
    }
    free(o);
    free(enc);
}

static void op_rle_rt(const VhLine *l) {
    bool hdr = strncmp(arg(l, 0), "rleh", 4) == 0;
    const char *nm = hdr ? "RLEheader" : "RLE";
    int ai = 1;
    size_t n;
    uint64_t *v = vh_parse_array(l, &ai, &n);
    size_t adv = varintRLEMaxSize(n);
    size_t exact = varintRLESize(v, n);
    uint8_t *d = dst_alloc(adv);
    varintRLEMeta m;
    memset(&m, 0, sizeof(m));
    size_t len = hdr ? varintRLEEncodeWithHeader(d, v, n, &m) : varintRLEEncode(d, v, n, &m);
    out("len=%zu", len);
    out_buf("b", d, len);
    out("adv=%zu sz=%zu m=%zu,%zu,%zu", adv, exact, m.count, m.runCount, m.encodedSize);
    C03_CHECK(nm, d, adv, len);
    if (!hdr && len != exact) {
        mon("C03", "RLE: size predictor %zu is documented exact but %zu bytes were written", exact, len);
    }
    size_t runs = 0;
    for (size_t i = 0; i < n; i++) {
        if (i == 0 || v[i] != v[i - 1]) {
            runs++;
        }
    }
    if (m.count != n || m.runCount != runs || m.encodedSize != len) {
        mon("C16", "%s meta {count %zu runs %zu size %zu} but data has {%zu %zu %zu}", nm, m.count, m.runCount, m.encodedSize,
            n, runs, len);
    }
    varintRLEMeta am;
    memset(&am, 0, sizeof(am));
    varintRLEAnalyze(v, n, &am);
    {
        /* ground truth for the analysed size: what the headerless encoder really writes */
        size_t body = hdr ? len - (n ? (size_t)varintTaggedLen(n) : 1) : len;
        if (am.count != n || am.runCount != runs || am.encodedSize != body) {
            mon("C16", "RLEAnalyze {count %zu runs %zu size %zu} but data has {%zu %zu %zu}", am.count, am.runCount,
                am.encodedSize, n, runs, body);
        }
    }
    if (n == 0) {
        free(d);
        free(v);
        return;
    }
    uint8_t *e = exact_copy(d, len);
    if (hdr) {
        size_t gc = varintRLEGetCount(e);
        out("gc=%zu", gc);
        if (gc != n) {
            mon("C16", "RLE GetCount = %zu, elements %zu", gc, n);
        }
    } else {
        size_t grc = varintRLEGetRunCount(e, len);
        out("grc=%zu", grc);
        if (grc != runs) {
            mon("C16", "RLE GetRunCount = %zu, runs %zu", grc, runs);
        }
    }
    uint64_t *o = out_alloc(n);
    size_t r = hdr ? varintRLEDecodeWithHeader(e, o, n) : varintRLEDecode(e, o, n);
    if (r != n || !same(o, v, n)) {
        mon("C02", "%s: decode returned %zu of %zu, first differing %zu", nm, r, n, first_diff(o, v, n));
    }
    if (out_overrun(o, n)) {
        mon("C13", "%s: decoder wrote past %zu elements", nm, n);
    }
    free(o);
    size_t caps[8];
    size_t nc = caps_of(n, caps);
    for (size_t c = 0; c < nc; c++) {
        if (caps[c] >= n) {
            continue;
        }
        uint64_t *oc = out_alloc(caps[c]);
        size_t rc = hdr ? varintRLEDecodeWithHeader(e, oc, caps[c]) : varintRLEDecode(e, oc, caps[c]);
        if (out_overrun(oc, caps[c])) {
            mon("C13", "%s: decoder wrote past capacity %zu (count %zu)", nm, caps[c], n);
        }
        if (hdr ? rc != 0 : (rc != caps[c] || !same(oc, v, caps[c]))) {
            mon("C13", "%s: capacity %zu < count %zu: returned %zu (%s expected)", nm, caps[c], n, rc,
                hdr ? "0" : "a correct prefix");
        }
        free(oc);
    }
    if (!hdr) {
        size_t idx[400];
        size_t ni = idx_of(n, idx);
        for (size_t k = 0; k < ni; k++) {
            uint64_t g = varintRLEGetAt(e, idx[k]);
            if (g != v[idx[k]]) {
                mon("C02", "RLE: GetAt(%zu) = %" PRIx64 ", element is %" PRIx64, idx[k], g, v[idx[k]]);
                break;
            }
        }
    }
    free(e);
    free(d);
    free(v);
}

/* ------------------------------------------------------------------ Elias */
static void op_elias_rt(const VhLine *l) {
    bool dl = strncmp(arg(l, 0), "edelta", 6) == 0;
    const char *nm = dl ? "EliasDelta" : "EliasGamma";
    int ai = 1;
    size_t n;
    uint64_t *v = vh_parse_array(l, &ai, &n);
    for (size_t i = 0; i < n; i++) {
        if (v[i] == 0) {
            v[i] = 1; /* domain: values >= 1 (the driver applies the same clamp) */
        }
    }
    size_t adv = dl ? varintEliasDeltaMaxBytes(n) : varintEliasGammaMaxBytes(n);
    uint8_t *d = dst_alloc(adv);
    varintEliasMeta m;
    memset(&m, 0, sizeof(m));
    size_t len = dl ? varintEliasDeltaEncodeArray(d, v, n, &m) : varintEliasGammaEncodeArray(d, v, n, &m);
    out("len=%zu", len);
    out_buf("b", d, len);
    out("adv=%zu m=%zu,%zu,%zu", adv, m.count, m.totalBits, m.encodedBytes);
    C03_CHECK(nm, d, adv, len);
    size_t bits = 0;
    for (size_t i = 0; i < n; i++) {
        bits += dl ? varintEliasDeltaBits(v[i]) : varintEliasGammaBits(v[i]);
    }
    if (m.count != n || m.totalBits != bits || m.encodedBytes != (bits + 7) / 8 || m.encodedBytes != len) {
        mon("C16", "%s meta {count %zu bits %zu bytes %zu} but data has {%zu %zu %zu} and %zu bytes were written", nm, m.count,
            m.totalBits, m.encodedBytes, n, bits, (bits + 7) / 8, len);
    }
    if (n) {
        uint8_t *e = exact_copy(d, len);
        uint64_t *o = out_alloc(n);
        size_t r = dl ? varintEliasDeltaDecodeArray(e, m.totalBits, o, n) : varintEliasGammaDecodeArray(e, m.totalBits, o, n);
        if (r != n || !same(o, v, n)) {
            mon("C02", "%s: decode returned %zu of %zu, first differing %zu", nm, r, n, first_diff(o, v, n));
        }
        if (out_overrun(o, n)) {
            mon("C13", "%s: decoder wrote past %zu elements", nm, n);
        }
        free(o);
        size_t caps[8];
        size_t nc = caps_of(n, caps);
        for (size_t c = 0; c < nc; c++) {
            if (caps[c] >= n) {
                continue;
            }
            uint64_t *oc = out_alloc(caps[c]);
            size_t rc =
                dl ? varintEliasDeltaDecodeArray(e, m.totalBits, oc, caps[c]) : varintEliasGammaDecodeArray(e, m.totalBits, oc, caps[c]);
            if (out_overrun(oc, caps[c])) {
                mon("C13", "%s: decoder wrote past capacity %zu (count %zu)", nm, caps[c], n);
            }
            if (rc != caps[c] || !same(oc, v, caps[c])) {
                mon("C13", "%s: capacity %zu < count %zu: returned %zu, a correct prefix expected", nm, caps[c], n, rc);
            }
            free(oc);
        }
        free(e);
    }
    free(d);
    free(v);
}

/* ------------------------------------------------------------------ BP128 */
static void op_bp_rt(const VhLine *l) {
    const char *op = arg(l, 0);
    bool is64 = strstr(op, "64") != NULL, isd = strncmp(op, "bpd", 3) == 0;
    const char *nm = isd ? (is64 ? "BP128Delta64" : "BP128Delta32") : (is64 ? "BP128_64" : "BP128_32");
    int ai = 1;
    size_t n;
    uint64_t *v = vh_parse_array(l, &ai, &n);
    uint32_t *v32 = malloc((n ? n : 1) * sizeof(uint32_t));
    for (size_t i = 0; i < n; i++) {
        if (!is64) {
            v[i] &= 0xffffffffULL;
        }
        v32[i] = (uint32_t)v[i];
    }
    size_t adv = varintBP128MaxBytes(n);
    uint8_t *d = dst_alloc(adv);
    varintBP128Meta m;
    memset(&m, 0x5B, sizeof(m)); /* stale contents: every defined field must be overwritten */
    size_t len;
    if (is64) {
        len = isd ? varintBP128DeltaEncode64(d, v, n, &m) : varintBP128Encode64(d, v, n, &m);
    } else {
        len = isd ? varintBP128DeltaEncode32(d, v32, n, &m) : varintBP128Encode32(d, v32, n, &m);
    }
    out("len=%zu", len);
    out_buf("b", d, len);
    out("adv=%zu m=%zu,%zu,%zu,%zu,%d", adv, m.count, m.blockCount, m.encodedBytes, m.lastBlockSize, (int)m.maxBitWidth);
    C03_CHECK(nm, d, adv, len);
    if (n) {
        size_t packed = isd ? n - 1 : n; /* values that go into blocks */
        size_t blocks = (packed + 127) / 128;
        size_t last = packed % 128 ? packed % 128 : 128;
        if (m.count != n || m.encodedBytes != len || m.blockCount != blocks || m.lastBlockSize != last) {
            mon("C16", "%s meta {count %zu blocks %zu bytes %zu last %zu} but data has {%zu %zu %zu %zu}", nm, m.count,
                m.blockCount, m.encodedBytes, m.lastBlockSize, n, blocks, len, last);
        }
        uint8_t *e = exact_copy(d, len);
        if (is64 && !isd) {
            size_t gc = varintBP128GetCount(e, len);
            out("gc=%zu", gc);
            if (gc != n) {
                mon("C16", "BP128 GetCount = %zu, elements %zu", gc, n);
            }
        }
        size_t caps[8];
        size_t nc = caps_of(n, caps);
        caps[nc++] = n;
        for (size_t c = 0; c < nc; c++) {
            size_t cap = caps[c];
            uint64_t *o = out_alloc(cap);
            uint32_t *o32 = malloc((cap + OGUARD) * sizeof(uint32_t));
            for (size_t i = 0; i < cap + OGUARD; i++) {
                o32[i] = 0xA5A5A5A5U;
            }
            size_t r;
            if (is64) {
                r = isd ? varintBP128DeltaDecode64(e, o, cap) : varintBP128Decode64(e, o, cap);
            } else {
                r = isd ? varintBP128DeltaDecode32(e, o32, cap) : varintBP128Decode32(e, o32, cap);
                for (size_t i = 0; i < cap; i++) {
                    o[i] = o32[i];
                }
                for (size_t i = 0; i < OGUARD; i++) {
                    if (o32[cap + i] != 0xA5A5A5A5U) {
                        mon("C13", "%s: decoder wrote past capacity %zu (count %zu)", nm, cap, n);
                        break;
                    }
                }
            }
            if (is64 && out_overrun(o, cap)) {
                mon("C13", "%s: decoder wrote past capacity %zu (count %zu)", nm, cap, n);
            }
            if (cap == n) {
                if (r != n || !same(o, v, n)) {
                    mon("C02", "%s: decode returned %zu of %zu, first differing %zu", nm, r, n, first_diff(o, v, n));
                }
            } else if (r > cap || !same(o, v, r)) {
                mon("C13", "%s: capacity %zu < count %zu: returned %zu values that are not a prefix", nm, cap, n, r);
            }
            free(o32);
            free(o);
        }
        free(e);
    }
    free(v32);
    free(d);
    free(v);
}

const VhOp vh_array_ops[] = {{"delta.rt", op_delta_rt},   {"deltau.rt", op_delta_rt}, {"zigzag", op_zigzag},
                             {"for.rt", op_for_rt},       {"forb.rt", op_for_rt},     {"pfor.rt", op_pfor_rt},
                             {"group.rt", op_group_rt},   {"dict.rt", op_dict_rt},    {"rle.rt", op_rle_rt},
                             {"rleh.rt", op_rle_rt},      {"rle.cap", op_rle_cap},      {"egamma.rt", op_elias_rt}, {"edelta.rt", op_elias_rt},
                             {"bp32.rt", op_bp_rt},       {"bp64.rt", op_bp_rt},      {"bpd32.rt", op_bp_rt},
                             {"bpd64.rt", op_bp_rt},      {NULL, NULL}};
