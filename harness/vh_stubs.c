#include "vh.h"
/* tables not yet implemented are empty */
