#include "vh.h"
/* tables not yet implemented are empty */




const VhOp vh_mem_ops[] = {{NULL, NULL}};

