#include "vh.h"
#define VBITS uint16_t
#define VBITSVAL uint16_t
#define VH_W 16
#include "vh_bits.inc"
void (*const vh_bits_set_16)(const VhLine *) = op_bits_set_16;
void (*const vh_bits_far_16)(const VhLine *) = op_bits_far_16;
