/* Wrapper functions around the expression / statement macros of src/varintTagged.h — NOT part of the harness build.
 * tools/c2lean2.py translates these functions (clang expands the macros from /repo's CURRENT header).  The value
 * argument of the put macro is deliberately an expression with an operator of low precedence (`lo | hi`), so a
 * parameter used without parentheses inside the macro changes the translated term (macro hygiene). */
#include "varint.h"
#include "varintTagged.h"

uint8_t vw_taggedLenQuick(uint64_t v) {
    return (uint8_t)varintTaggedLenQuick(v);
}
uint8_t vw_taggedGetLenQuick(const uint8_t *z) {
    return (uint8_t)varintTaggedGetLenQuick_(z);
}
uint64_t vw_taggedGet64Quick(const uint8_t *z) {
    return varintTaggedGet64Quick_(z);
}
void vw_taggedPutFixedQuick(uint8_t *dst, uint64_t lo, uint64_t hi, varintWidth width) {
    varintTaggedPut64FixedWidthQuick_(dst, lo | hi, width);
}
