#include "vh.h"
#define VBITS uint8_t
#define VBITSVAL uint8_t
#define VH_W 8
#include "vh_bits.inc"
void (*const vh_bits_set_8)(const VhLine *) = op_bits_set_8;
void (*const vh_bits_far_8)(const VhLine *) = op_bits_far_8;
