/* varintDimension: packed (row,col) integers, dimension headers and matrix cells (C10). */
#include "vh.h"

#include "varintDimension.h"
#include "varintExternal.h"

/* dim.pack <row> <col> */
static void op_dim_pack(const VhLine *l) {
    uint64_t r = p_u64(arg(l, 1)), c = p_u64(arg(l, 2));
    uint64_t packed = 0;
    varintDimensionPacked d = 0;
    bool ok = varintDimensionPack((size_t)r, (size_t)c, &packed, &d);
    if (!ok) {
        out("fail");
        if (r <= UINT32_MAX && c <= UINT32_MAX) {
            mon("C10", "Pack(%" PRIx64 ", %" PRIx64 ") failed although both fit in 32 bits", r, c);
        }
        return;
    }
    size_t ur = 0, uc = 0, mr = 0, mc = 0;
    varintDimensionUnpack(&ur, &uc, packed, d);
    varintDimensionUnpack_(mr, mc, packed, d);
    out("p=%" PRIx64 " d=%d u=%zx,%zx", packed, (int)d, ur, uc);
    if (ur != r || uc != c || mr != r || mc != c) {
        mon("C10", "Pack(%" PRIx64 ", %" PRIx64 ") unpacks as (%zx, %zx) / macro (%zx, %zx)", r, c, ur, uc, mr, mc);
    }
    if (r > UINT32_MAX || c > UINT32_MAX) {
        mon("C10", "Pack accepted a coordinate above 2^32-1");
    }
}

/* dim.pair <rows> <cols>  (cols >= 1) */
static void op_dim_pair(const VhLine *l) {
    uint64_t rows = p_u64(arg(l, 1)), cols = p_u64(arg(l, 2));
    uint8_t buf[16 + 64];
    memset(buf, 0xEE, sizeof(buf));
    varintDimensionPair dim = varintDimensionPairEncode(buf, (size_t)rows, (size_t)cols);
    int wr = (int)VARINT_DIMENSION_PAIR_WIDTH_ROW_COUNT(dim), wc = (int)VARINT_DIMENSION_PAIR_WIDTH_COL_COUNT(dim);
    int hl = (int)VARINT_DIMENSION_PAIR_BYTE_LENGTH(dim);
    out("dim=%d wr=%d wc=%d hl=%d", (int)dim, wr, wc, hl);
    out_hex("h", buf, (size_t)(hl >= 0 && hl <= 16 ? hl : 0));
    /* header occupies exactly the announced number of bytes */
    int written = 0;
    for (int i = 0; i < 80; i++) {
        if (buf[i] != 0xEE) {
            written = i + 1;
        }
    }
    varintWidth er = 0, ec = 0;
    if (rows) {
        varintExternalUnsignedEncoding(rows, er);
    }
    varintExternalUnsignedEncoding(cols, ec);
    if (wr != (int)er || wc != (int)ec || hl != (int)er + (int)ec) {
        mon("C10", "pair byte %d decodes to widths %d/%d (header %d) but %d/%d bytes were encoded", (int)dim, wr, wc, hl,
            (int)er, (int)ec);
    }
    if (written > (int)er + (int)ec) {
        mon("C10", "dimension header wrote %d bytes, announced %d", written, (int)er + (int)ec);
    }
    uint64_t dr = wr ? varintExternalGet(buf, (varintWidth)wr) : 0;
    uint64_t dc = (wc >= 1 && wc <= 8) ? varintExternalGet(buf + wr, (varintWidth)wc) : 0;
    out("dr=%" PRIx64 " dc=%" PRIx64, dr, dc);
    if (dr != rows || dc != cols) {
        mon("C10", "dimension header (%" PRIx64 " x %" PRIx64 ") decodes as (%" PRIx64 " x %" PRIx64 ")", rows, cols, dr, dc);
    }
}

/* dim.cells rows=<r> cols=<c> w=<entry bytes | 0 for bits | f4 | f8> ops...
 *   ops: set:r:c:v  (bits: v is 0/1)   tog:r:c (bits)
 * matrix is zero/ones/random initialised; after every op the WHOLE buffer is compared with a
 * reference (cell array + header): no other cell and no header byte may change. */
static void op_dim_cells(const VhLine *l) {
    uint64_t rows = p_u64(kw(l, "rows")), cols = p_u64(kw(l, "cols"));
    const char *ws = kw(l, "w");
    const char *init = kw(l, "init");
    bool bits = strcmp(ws, "0") == 0, isf4 = strcmp(ws, "f4") == 0, isf8 = strcmp(ws, "f8") == 0;
    size_t w = bits ? 0 : isf4 ? 4 : isf8 ? 8 : (size_t)p_u64(ws);
    uint8_t hdr[16];
    varintDimensionPair dim = varintDimensionPairEncode(hdr, (size_t)rows, (size_t)cols);
    size_t hl = (size_t)VARINT_DIMENSION_PAIR_BYTE_LENGTH(dim);
    size_t nrows = rows ? (size_t)rows : 1; /* zero-row matrix = vector of `cols` */
    size_t cells = nrows * (size_t)cols;
    size_t body = bits ? (cells + 7) / 8 : cells * w;
    size_t total = hl + body;
    uint8_t *m = malloc(total); /* exact size */
    uint64_t st = init && init[0] == 'r' ? p_u64(init + 1) : 0;
    for (size_t i = 0; i < total; i++) {
        m[i] = (!init || init[0] == '0') ? 0 : init[0] == 'f' ? 0xff : (uint8_t)sm64(&st);
    }
    memcpy(m, hdr, hl);
    uint8_t *ref = exact_copy(m, total);
    char rbuf[2048];
    size_t rl = 0;
    rbuf[0] = 0;
    for (int t = 1; t < l->n; t++) {
        char *tok = l->tok[t];
        if (strchr(tok, '=')) {
            continue;
        }
        uint64_t a[3] = {0, 0, 0};
        char *c = strchr(tok, ':');
        int k = 0;
        while (c && k < 3) {
            a[k++] = strtoull(c + 1, &c, 16);
            if (*c != ':') {
                c = NULL;
            }
        }
        size_t r = (size_t)a[0], cc = (size_t)a[1];
        size_t idx = r * (size_t)cols + cc;
        if (strncmp(tok, "set", 3) == 0) {
            if (bits) {
                varintDimensionPairEntrySetBit(m, r, cc, a[2] != 0, dim);
                if (a[2]) {
                    ref[hl + idx / 8] |= (uint8_t)(1u << (idx % 8));
                } else {
                    ref[hl + idx / 8] &= (uint8_t)~(1u << (idx % 8));
                }
                bool g = varintDimensionPairEntryGetBit(m, r, cc, dim);
                if (g != (a[2] != 0)) {
                    mon("C10", "bit cell (%zu,%zu) set to %d reads %d", r, cc, a[2] != 0, g);
                }
            } else if (isf4) {
                float f;
                uint32_t u = (uint32_t)a[2];
                memcpy(&f, &u, 4);
                varintDimensionPairEntrySetFloat(m, r, cc, f, dim);
                memcpy(ref + hl + idx * 4, &u, 4);
                float g = varintDimensionPairEntryGetFloat(m, r, cc, dim);
                if (memcmp(&g, &f, 4) != 0) {
                    mon("C10", "float cell (%zu,%zu) reads back different bits", r, cc);
                }
            } else if (isf8) {
                double f;
                uint64_t u = a[2];
                memcpy(&f, &u, 8);
                varintDimensionPairEntrySetDouble(m, r, cc, f, dim);
                memcpy(ref + hl + idx * 8, &u, 8);
                double g = varintDimensionPairEntryGetDouble(m, r, cc, dim);
                if (memcmp(&g, &f, 8) != 0) {
                    mon("C10", "double cell (%zu,%zu) reads back different bits", r, cc);
                }
            } else {
                varintDimensionPairEntrySetUnsigned(m, r, cc, a[2], (varintWidth)w, dim);
                memcpy(ref + hl + idx * w, &a[2], w);
                uint64_t g = varintDimensionPairEntryGetUnsigned(m, r, cc, (varintWidth)w, dim);
                if (g != a[2]) {
                    mon("C10", "cell (%zu,%zu) of width %zu written %" PRIx64 " reads %" PRIx64, r, cc, w, a[2], g);
                }
            }
        } else if (strncmp(tok, "tog", 3) == 0 && bits) {
            bool old = (ref[hl + idx / 8] >> (idx % 8)) & 1;
            bool ret = varintDimensionPairEntryToggleBit(m, r, cc, dim);
            ref[hl + idx / 8] ^= (uint8_t)(1u << (idx % 8));
            if (ret != old) {
                mon("C10", "toggle of bit cell (%zu,%zu) returned %d, previous value was %d", r, cc, ret, old);
            }
            if (rl + 2 < sizeof(rbuf)) {
                rbuf[rl++] = ret ? '1' : '0';
                rbuf[rl] = 0;
            }
        } else {
            continue;
        }
        if (memcmp(m, ref, total) != 0) {
            size_t d = 0;
            while (m[d] == ref[d]) {
                d++;
            }
            mon("C10", "after %s byte %zu of the matrix buffer (header %zu bytes) is %02x, expected %02x: %s", tok, d, hl, m[d],
                ref[d], d < hl ? "a header byte changed" : "another cell changed / the cell holds a wrong value");
            memcpy(ref, m, total);
        }
    }
    uint64_t h = 0xcbf29ce484222325ULL;
    for (size_t i = 0; i < total; i++) {
        h = dg(h, m[i]);
    }
    out("dim=%d hl=%zu n=%zu t=%s h=%" PRIx64, (int)dim, hl, total, rl ? rbuf : "-", h);
    free(ref);
    free(m);
}

/* dim.far rows=<r> cols=<c> [w=<entry bytes>]: a matrix whose column count needs the top bit of its width
 * (e.g. a 4-byte count >= 2^31), laid over a lazily committed anonymous mapping: only the touched pages are ever
 * backed. Cells of rows > 0 (their position is computed from the column count READ FROM THE HEADER) are set,
 * read, toggled; the bit/byte the cell really occupies is inspected directly, and the cells a wrongly computed
 * position would alias are checked to be untouched (C10). */
#include <sys/mman.h>
static void op_dim_far(const VhLine *l) {
    uint64_t rows = p_u64(kw(l, "rows")), cols = p_u64(kw(l, "cols"));
    int w = kw(l, "w") ? (int)p_u64(kw(l, "w")) : 0;
    if (rows < 2 || cols < 2) {
        out("bad-dim");
        return;
    }
    uint8_t hdr[32];
    memset(hdr, 0, sizeof(hdr));
    varintDimensionPair dim = varintDimensionPairEncode(hdr, (size_t)rows, (size_t)cols);
    size_t hl = (size_t)VARINT_DIMENSION_PAIR_BYTE_LENGTH(dim);
    /* tall=1: the row count is only a header field (up to 2^64-1 rows: headers of 9..16 bytes); only rows 0..3 are
     * backed and touched */
    int tall = kw(l, "tall") ? (int)p_u64(kw(l, "tall")) : 0;
    unsigned __int128 cells = (unsigned __int128)(tall ? 4 : rows) * cols;
    unsigned __int128 need = w ? cells * (unsigned)w : (cells + 7) / 8;
    if (need > ((unsigned __int128)1 << 36)) {
        out("bad-dim");
        return;
    }
    size_t bytes = hl + (size_t)need + 8192;
    uint8_t *raw = mmap(NULL, bytes, PROT_READ | PROT_WRITE, MAP_PRIVATE | MAP_ANONYMOUS | MAP_NORESERVE, -1, 0);
    if (raw == MAP_FAILED) {
        out("far=skipped-no-mapping");
        return;
    }
    memcpy(raw, hdr, hl);
    uint64_t rr[3] = {1, rows - 1, rows / 2 ? rows / 2 : 1};
    if (tall) {
        rr[1] = 2;
        rr[2] = 3;
    }
    uint64_t cc[4] = {0, 1, cols - 1, cols / 2};
    int bad = 0;
    for (int a = 0; a < 3 && !bad; a++) {
        for (int b = 0; b < 4 && !bad; b++) {
            uint64_t r = rr[a], c = cc[b];
            uint64_t idx = r * cols + c;
            if (w == 0) {
                uint8_t *cell = raw + hl + idx / 8;
                unsigned bit = (unsigned)(idx % 8);
                varintDimensionPairEntrySetBit(raw, (size_t)r, (size_t)c, true, dim);
                if (!((*cell >> bit) & 1)) {
                    mon("C10", "bit cell (%" PRIu64 ",%" PRIu64 ") of a %" PRIu64 " x %" PRIu64 " matrix: SetBit did not set the cell's bit (index %" PRIu64 "): the write went elsewhere", r, c, rows, cols, idx);
                    bad = 1;
                }
                if (!varintDimensionPairEntryGetBit(raw, (size_t)r, (size_t)c, dim)) {
                    mon("C10", "bit cell (%" PRIu64 ",%" PRIu64 "): GetBit after SetBit(true) is false", r, c);
                    bad = 1;
                }
                /* cells a truncated / sign-extended column count would alias */
                if (varintDimensionPairEntryGetBit(raw, 0, (size_t)(c ? c - 1 : 2), dim) && !(r == 1 && 0)) {
                    mon("C10", "bit cell (%" PRIu64 ",%" PRIu64 "): writing it set a cell of row 0", r, c);
                    bad = 1;
                }
                bool prev = varintDimensionPairEntryToggleBit(raw, (size_t)r, (size_t)c, dim);
                if (!prev || ((*cell >> bit) & 1)) {
                    mon("C10", "bit cell (%" PRIu64 ",%" PRIu64 "): Toggle returned %d and left the cell's bit %d", r, c, (int)prev, (int)((*cell >> bit) & 1));
                    bad = 1;
                }
            } else {
                uint8_t *cell = raw + hl + idx * (uint64_t)w;
                uint64_t v = 0xA7C3E19B5D2F4681ULL & (w >= 8 ? ~0ULL : ((1ULL << (8 * w)) - 1));
                varintDimensionPairEntrySetUnsigned(raw, (size_t)r, (size_t)c, v, (varintWidth)w, dim);
                uint64_t direct = 0;
                memcpy(&direct, cell, (size_t)w);
                uint64_t g = varintDimensionPairEntryGetUnsigned(raw, (size_t)r, (size_t)c, (varintWidth)w, dim);
                if (direct != v || g != v) {
                    mon("C10", "cell (%" PRIu64 ",%" PRIu64 ") of a %" PRIu64 " x %" PRIu64 " matrix of %d-byte entries: wrote %" PRIx64 ", the cell's bytes hold %" PRIx64 ", Get returns %" PRIx64, r, c, rows, cols, w, v, direct, g);
                    bad = 1;
                }
                varintDimensionPairEntrySetUnsigned(raw, (size_t)r, (size_t)c, 0, (varintWidth)w, dim);
            }
            if (memcmp(raw, hdr, hl) != 0) {
                mon("C10", "cell (%" PRIu64 ",%" PRIu64 "): the header changed", r, c);
                bad = 1;
            }
        }
    }
    munmap(raw, bytes);
    out("far=done");
}

const VhOp vh_dim_ops[] = {{"dim.pack", op_dim_pack}, {"dim.pair", op_dim_pair}, {"dim.cells", op_dim_cells}, {"dim.far", op_dim_far}, {NULL, NULL}};
