/* Instantiations of the template header src/varintPacked.h for the translator — NOT part of the harness build.
 * tools/c2lean2.py translates the functions clang sees after the preprocessor has instantiated the template from
 * /repo's CURRENT header: the default instantiation (12-bit values in uint32_t slots, `varintPacked12*`) and one whose
 * width does not divide the slot (13-bit values in uint32_t slots, `varintPacked13*`). */
#include <stddef.h>
#include <stdint.h>
#define PACK_STORAGE_BITS 12
#include "varintPacked.h"

/* second instantiation: a width that does not divide the slot, so elements start at every bit offset of a slot */
#define PACK_STORAGE_BITS 13
#include "varintPacked.h"
