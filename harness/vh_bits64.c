#include "vh.h"
#define VBITS uint64_t
#define VBITSVAL uint64_t
#define VH_W 64
#include "vh_bits.inc"
void (*const vh_bits_set_64)(const VhLine *) = op_bits_set_64;
void (*const vh_bits_far_64)(const VhLine *) = op_bits_far_64;
