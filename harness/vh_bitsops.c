#include "vh.h"
#include "varintBitstream.h"
extern void (*const vh_bits_set_8)(const VhLine *);
extern void (*const vh_bits_set_16)(const VhLine *);
extern void (*const vh_bits_set_32)(const VhLine *);
extern void (*const vh_bits_set_64)(const VhLine *);
extern void (*const vh_bits_far_8)(const VhLine *);
extern void (*const vh_bits_far_16)(const VhLine *);
extern void (*const vh_bits_far_32)(const VhLine *);
extern void (*const vh_bits_far_64)(const VhLine *);
static void far8(const VhLine *l) { vh_bits_far_8(l); }
static void far16(const VhLine *l) { vh_bits_far_16(l); }
static void far32(const VhLine *l) { vh_bits_far_32(l); }
static void far64(const VhLine *l) { vh_bits_far_64(l); }
static void op8(const VhLine *l) { vh_bits_set_8(l); }
static void op16(const VhLine *l) { vh_bits_set_16(l); }
static void op32(const VhLine *l) { vh_bits_set_32(l); }
static void op64(const VhLine *l) { vh_bits_set_64(l); }

/* bits.signed <n hex> <s decimal> : sign moved into an n-bit field and back */
static void op_bits_signed(const VhLine *l) {
    size_t n = (size_t)p_u64(arg(l, 1));
    int64_t s = p_i64(arg(l, 2));
    if (n < 2 || n > 64) {
        out("bad-width");
        return;
    }
    int64_t v = s;
    if (v < 0) {
        _varintBitstreamPrepareSigned(v, n);
    }
    uint64_t buf[3] = {~0ULL, ~0ULL, ~0ULL};
    varintBitstreamSet(buf, 5, n, (uint64_t)v);
    int64_t r = (int64_t)varintBitstreamGet(buf, 5, n);
    _varintBitstreamRestoreSigned(r, n);
    out("f=%" PRIx64 " back=%" PRId64, (uint64_t)v, r);
    if (r != s) {
        mon("C11", "bitstream signed helpers (width %zu): %" PRId64 " restored as %" PRId64, n, s, r);
    }
}
const VhOp vh_bits_ops[] = {{"bits8.set", op8},   {"bits16.set", op16},         {"bits32.set", op32},
                            {"bits64.set", op64}, {"bits.signed", op_bits_signed}, {"bits8.far", far8},
                            {"bits16.far", far16}, {"bits32.far", far32}, {"bits64.far", far64}, {NULL, NULL}};
