/* Common declarations of the correspondence harness.
 * One operation per input line; one canonical result line per operation on stdout.
 * Lines starting with '!' are property-monitor failures on the implementation:
 *      !C01 <op line number> <what failed>
 * They are not part of the model/implementation diff. */
#pragma once
#define _GNU_SOURCE
#include <inttypes.h>
#include <stdarg.h>
#include <stdbool.h>
#include <stddef.h>
#include <stdint.h>
#include <stdio.h>
#include <stdlib.h>
#include <string.h>
#include <sys/cdefs.h>

#define VH_MAXTOK 1200000
typedef struct {
    char **tok;
    int n;
    long lineno;
} VhLine;

typedef void (*VhFn)(const VhLine *l);
typedef struct {
    const char *name;
    VhFn fn;
} VhOp;

/* result line building */
void out(const char *fmt, ...) __attribute__((format(printf, 1, 2)));
void out_hex(const char *key, const uint8_t *p, size_t n);
void out_u64s(const char *key, const uint64_t *p, size_t n);
/* monitor failure */
void mon(const char *prop, const char *fmt, ...) __attribute__((format(printf, 2, 3)));

uint64_t p_u64(const char *s);   /* hex without prefix */
int64_t p_i64(const char *s);    /* decimal, optional '-' */
size_t p_bytes(const char *s, uint8_t **dst); /* "hex:...." -> malloc'ed exact-size block */
const char *arg(const VhLine *l, int i);       /* token i (0 = op) or "" */
const char *kw(const VhLine *l, const char *key); /* value of key=... token or NULL */

/* exact-size heap copy (ASan red zone right after it) */
void *exact_copy(const void *p, size_t n);

/* splitmix64 */
static inline uint64_t sm64(uint64_t *s) {
    uint64_t z = (*s += 0x9e3779b97f4a7c15ULL);
    z = (z ^ (z >> 30)) * 0xbf58476d1ce4e5b9ULL;
    z = (z ^ (z >> 27)) * 0x94d049bb133111ebULL;
    return z ^ (z >> 31);
}
/* digest step shared with the Lean driver */
static inline uint64_t dg(uint64_t h, uint64_t x) {
    h ^= x;
    h *= 0x100000001b3ULL;
    h ^= h >> 29;
    return h;
}

extern const VhOp vh_scalar_ops[];
extern const VhOp vh_array_ops[];
extern const VhOp vh_bits_ops[];
extern const VhOp vh_bitmap_ops[];
extern const VhOp vh_float_ops[];
extern const VhOp vh_adaptive_ops[];
extern const VhOp vh_mem_ops[];
extern const VhOp vh_oom_ops[];
extern const VhOp vh_thread_ops[];
extern const VhOp vh_packed_ops[];
extern const VhOp vh_dim_ops[];
extern int vh_track; /* vh_alloc.c: allocation tracking on */
extern int vh_align; /* destination alignment offset 0..7 used by scalar ops */
