#include "vh.h"
#include <unistd.h>
#include <valgrind/valgrind.h>

extern int vh_poison;          /* vh_alloc.c: fill fresh and released heap blocks with this byte (-1 = off) */

/* C15: leave a chosen residue on the stack region the next operation will use */
static void __attribute__((noinline)) paint_stack(int byte) {
    volatile uint8_t area[192 * 1024];
    memset((void *)area, byte, sizeof(area));
    __asm__ volatile("" ::"r"(area) : "memory");
}

static char obuf[1 << 22];
static size_t olen;
static char mbuf[1 << 16];
static size_t mlen;
static long cur_line;
int vh_align = 0;
volatile int vh_one = 1; /* macro-hygiene arguments: see vh_scalar.c */

void out(const char *fmt, ...) {
    va_list ap;
    va_start(ap, fmt);
    if (olen && olen < sizeof(obuf) - 1) {
        obuf[olen++] = ' ';
    }
    int n = vsnprintf(obuf + olen, sizeof(obuf) - olen, fmt, ap);
    va_end(ap);
    if (n > 0) {
        olen += (size_t)n;
        if (olen >= sizeof(obuf)) {
            olen = sizeof(obuf) - 1;
        }
    }
}

void out_hex(const char *key, const uint8_t *p, size_t n) {
    static const char hx[] = "0123456789abcdef";
    if (olen && olen < sizeof(obuf) - 1) {
        obuf[olen++] = ' ';
    }
    size_t kl = strlen(key);
    if (olen + kl + 2 * n + 8 >= sizeof(obuf)) {
        return;
    }
    memcpy(obuf + olen, key, kl);
    olen += kl;
    obuf[olen++] = '=';
    if (n == 0) {
        obuf[olen++] = '-';
    }
    for (size_t i = 0; i < n; i++) {
        obuf[olen++] = hx[p[i] >> 4];
        obuf[olen++] = hx[p[i] & 15];
    }
    obuf[olen] = 0;
}

void out_u64s(const char *key, const uint64_t *p, size_t n) {
    if (olen && olen < sizeof(obuf) - 1) {
        obuf[olen++] = ' ';
    }
    int k = snprintf(obuf + olen, sizeof(obuf) - olen, "%s=", key);
    olen += (size_t)k;
    if (n == 0 && olen < sizeof(obuf) - 2) {
        obuf[olen++] = '-';
        obuf[olen] = 0;
    }
    for (size_t i = 0; i < n; i++) {
        if (olen + 20 >= sizeof(obuf)) {
            return;
        }
        k = snprintf(obuf + olen, sizeof(obuf) - olen, i ? ",%" PRIx64 : "%" PRIx64, p[i]);
        olen += (size_t)k;
    }
}

void mon(const char *prop, const char *fmt, ...) {
    va_list ap;
    va_start(ap, fmt);
    int n = snprintf(mbuf + mlen, sizeof(mbuf) - mlen, "!%s %ld ", prop, cur_line);
    if (n > 0) {
        mlen += (size_t)n;
    }
    if (mlen < sizeof(mbuf)) {
        n = vsnprintf(mbuf + mlen, sizeof(mbuf) - mlen, fmt, ap);
        if (n > 0) {
            mlen += (size_t)n;
        }
    }
    va_end(ap);
    if (mlen >= sizeof(mbuf) - 2) {
        mlen = sizeof(mbuf) - 2;
    }
    mbuf[mlen++] = '\n';
    mbuf[mlen] = 0;
}

uint64_t p_u64(const char *s) {
    return strtoull(s, NULL, 16);
}
int64_t p_i64(const char *s) {
    return strtoll(s, NULL, 10);
}
static int hv(int c) {
    if (c >= '0' && c <= '9') {
        return c - '0';
    }
    if (c >= 'a' && c <= 'f') {
        return c - 'a' + 10;
    }
    return 0;
}
size_t p_bytes(const char *s, uint8_t **dst) {
    if (strncmp(s, "hex:", 4) == 0) {
        s += 4;
    }
    size_t n = strlen(s) / 2;
    uint8_t *p = malloc(n ? n : 1);
    for (size_t i = 0; i < n; i++) {
        p[i] = (uint8_t)(hv(s[2 * i]) * 16 + hv(s[2 * i + 1]));
    }
    if (n == 0) {
        free(p);
        p = malloc(0); /* distinct zero-size block: any access is reported */
    }
    *dst = p;
    return n;
}
const char *arg(const VhLine *l, int i) {
    return i < l->n ? l->tok[i] : "";
}
const char *kw(const VhLine *l, const char *key) {
    size_t kl = strlen(key);
    for (int i = 1; i < l->n; i++) {
        if (strncmp(l->tok[i], key, kl) == 0 && l->tok[i][kl] == '=') {
            return l->tok[i] + kl + 1;
        }
    }
    return NULL;
}
/* `place k` (k = 1..16): the copies handed to the decoders start k bytes before a page boundary (inside a
 * read/write mapping of several pages), so an encoding of more than k bytes straddles the boundary: code that
 * treats "the rest of this page" specially (wide loads with a page-end fallback) takes its rare path.
 * `place 0` restores exact-size heap copies (the default; those are what ASan watches). */
int vh_place = 0;
uint8_t *vh_place_lo = NULL, *vh_place_hi = NULL;
#include <sys/mman.h>
void *exact_copy(const void *p, size_t n) {
    if (vh_place > 0 && n > 0 && n <= 4096) {
        static size_t slot = 0;
        if (!vh_place_lo) {
            size_t bytes = 64 * 4096;
            vh_place_lo = mmap(NULL, bytes, PROT_READ | PROT_WRITE, MAP_PRIVATE | MAP_ANONYMOUS, -1, 0);
            if (vh_place_lo == MAP_FAILED) {
                vh_place_lo = NULL;
            } else {
                vh_place_hi = vh_place_lo + bytes;
            }
        }
        if (vh_place_lo) {
            /* slots of 4 pages, used round-robin (a few copies are alive at the same time) */
            uint8_t *base = vh_place_lo + (slot++ % 16) * 4 * 4096;
            uint8_t *q = base + 4096 - (size_t)vh_place;
            memset(base, 0xEE, 3 * 4096);
            memcpy(q, p, n);
            return q;
        }
    }
    void *q = malloc(n);
    if (n) {
        memcpy(q, p, n);
    }
    return q;
}

static const VhOp *const tables[] = {vh_scalar_ops, vh_array_ops, vh_bits_ops, vh_bitmap_ops,
                                     vh_float_ops,  vh_adaptive_ops, vh_mem_ops, vh_oom_ops, vh_thread_ops, vh_packed_ops, vh_dim_ops};

static VhFn lookup(const char *name) {
    for (size_t t = 0; t < sizeof(tables) / sizeof(tables[0]); t++) {
        for (const VhOp *o = tables[t]; o->name; o++) {
            if (strcmp(o->name, name) == 0) {
                return o->fn;
            }
        }
    }
    return NULL;
}

int main(int argc, char **argv) {
    (void)argc;
    (void)argv;
    char *line = NULL;
    size_t cap = 0;
    ssize_t len;
    VhLine l;
    l.tok = malloc(sizeof(char *) * VH_MAXTOK);
    static char iobuf[1 << 20];
    setvbuf(stdout, iobuf, _IOFBF, sizeof(iobuf));
    const char *ff = getenv("VH_FLUSH"); /* flush after each op so a crash loses nothing */
    bool flush = !ff || strcmp(ff, "0") != 0;
    const char *pp = getenv("VH_PAINT"); /* residue byte for stack and heap, e.g. "a5" */
    int paint = pp ? (int)strtol(pp, NULL, 16) & 0xFF : -1;
    vh_poison = paint;
    const char *ot = getenv("VH_OP_TIMEOUT");
    unsigned op_timeout = ot ? (unsigned)atoi(ot) : 120;
    while ((len = getline(&line, &cap, stdin)) > 0) {
        cur_line++;
        while (len > 0 && (line[len - 1] == '\n' || line[len - 1] == '\r')) {
            line[--len] = 0;
        }
        l.n = 0;
        l.lineno = cur_line;
        char *save = NULL;
        for (char *t = strtok_r(line, " ", &save); t && l.n < VH_MAXTOK; t = strtok_r(NULL, " ", &save)) {
            l.tok[l.n++] = t;
        }
        olen = 0;
        obuf[0] = 0;
        mlen = 0;
        mbuf[0] = 0;
        if (l.n == 0 || l.tok[0][0] == '#') {
            fputs("#\n", stdout);
            continue;
        }
        if (strcmp(l.tok[0], "place") == 0) {
            vh_place = (int)(p_u64(arg(&l, 1)) & 31);
            fputs("ok\n", stdout);
            continue;
        }
        if (strcmp(l.tok[0], "align") == 0) {
            vh_align = (int)(p_u64(arg(&l, 1)) & 7);
            fputs("ok\n", stdout);
            continue;
        }
        VhFn f = lookup(l.tok[0]);
        if (!f) {
            fputs("bad-op\n", stdout);
        } else {
            if (paint >= 0) {
                paint_stack(paint);
            }
            if (RUNNING_ON_VALGRIND) {
                VALGRIND_PRINTF("VHOP %ld\n", cur_line);
            }
            alarm(op_timeout); /* an operation that does not terminate is reported as signal 14 */
            f(&l);
            alarm(0);
            fputs(obuf, stdout);
            fputc('\n', stdout);
            if (mlen) {
                fputs(mbuf, stdout);
            }
        }
        if (flush) {
            fflush(stdout);
        }
    }
    fflush(stdout);
    free(l.tok);
    free(line);
    return 0;
}
