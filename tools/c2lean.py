#!/usr/bin/env python3
"""c2lean — translator from a loop-free subset of C (as parsed by clang-14, JSON AST) to Lean 4 definitions.

The T-tier of the tie between /repo and the Lean model: the functions listed in TARGETS are re-translated
from /repo's *current* source on every run into lean/Varint/Gen/C*.lean; bridge theorems
(lean/Varint/Bridge/*.lean) prove, for ALL inputs, that the translated code equals the hand-written model
the property theorems are about.  A semantic change to one of these C functions therefore breaks a
kernel-checked proof, not a sampled comparison.

Semantics implemented by this translator (this file is part of the trusted base):
  * unsigned integer types of width w are `Nat` values kept below 2^w: + - * << wrap `% 2^w`; / % >> & | ^ as in C
  * signed integer types are `Int` values; + - * are mathematical (signed overflow is UB in C and is assumed not
    to happen: the functions translated here only do small `int` arithmetic on promoted bytes), `/` `%` truncate
  * integer conversions: unsigned→narrower unsigned `% 2^w`; signed→unsigned `(e % 2^w).toNat`;
    unsigned→wider signed `Int.ofNat`; anything→signed of insufficient width goes through `sx w`
  * a `const T *` parameter that is indexed is a read-only buffer `Nat → Nat` (the bridge theorems assume its
    elements are < 2^width); a non-const pointer that is stored through with `p[i] = e` is a write buffer whose
    stores are collected in program order as `(index, value)` pairs; a non-const pointer assigned with `*p = e` or
    `memcpy(p, &local, sizeof local)` is a scalar out-parameter (`Option Nat`, `none` = never stored)
  * control flow: if/else, early return, switch with constant cases / default / break / fall-through, calls to
    `static void` helpers (inlined, pointer arguments may be `buf + constant`)
  * NOT supported (the translator stops with an error naming the construct): loops, goto, address arithmetic on
    non-constant offsets, reads from a buffer that is also written, floating point, structs (except reads of fields
    of a const struct pointer parameter, which become extra `Nat` parameters).
"""
import json
import os
import re
import subprocess
import sys

REPO = os.environ.get("VERIF_REPO", "/repo")
SRC = os.path.join(REPO, "src")


class Unsupported(Exception):
    pass


# ----------------------------------------------------------------------------------------------- clang
_AST_CACHE = {}


def clang_ast(cfile, fn, extra_src=None):
    """JSON AST of every top-level declaration named `fn` in translation unit `cfile` (memoised per process)."""
    key = (cfile, fn)
    if key not in _AST_CACHE:
        _AST_CACHE[key] = _clang_ast(cfile, fn)
    return _AST_CACHE[key]


def _clang_ast(cfile, fn, extra_src=None):
    cmd = ["clang-14", "-fsyntax-only", "-std=gnu11", "-w", "-DNDEBUG", "-I", SRC, "-Xclang", "-ast-dump=json",
           "-Xclang", f"-ast-dump-filter={fn}", cfile]
    r = subprocess.run(cmd, capture_output=True, text=True)
    if r.returncode != 0:
        raise RuntimeError(f"clang failed on {cfile}: {r.stderr[:2000]}")
    out, dec, i, objs = r.stdout, json.JSONDecoder(), 0, []
    while i < len(out):
        while i < len(out) and out[i] in " \r\n\t":
            i += 1
        if i >= len(out):
            break
        o, i = dec.raw_decode(out, i)
        objs.append(o)
    return objs


def find_function(cfile, fn):
    for o in clang_ast(cfile, fn):
        if o.get("kind") == "FunctionDecl" and o.get("name") == fn and \
                any(c.get("kind") == "CompoundStmt" for c in o.get("inner", [])):
            return o
    raise Unsupported(f"no definition of {fn} in {cfile}")


# ----------------------------------------------------------------------------------------------- types
UNSIGNED = {"unsigned char": 8, "uint8_t": 8, "unsigned short": 16, "uint16_t": 16, "unsigned int": 32,
            "uint32_t": 32, "unsigned long": 64, "uint64_t": 64, "size_t": 64, "unsigned long long": 64,
            "uintptr_t": 64, "_Bool": 1, "bool": 1, "varintWidth": 32, "enum varintWidth": 32,
            "unsigned": 32}
SIGNED = {"int": 32, "int32_t": 32, "long": 64, "int64_t": 64, "long long": 64, "ssize_t": 64, "short": 16,
          "int16_t": 16, "signed char": 8, "int8_t": 8, "char": 8, "ptrdiff_t": 64}


def strip_quals(t):
    t = re.sub(r"\b(const|volatile|restrict|__restrict|register)\b", "", t)
    return re.sub(r"\s+", " ", t).strip()


class Ty:
    def __init__(self, kind, width=0, elem=None, const=False):
        self.kind, self.width, self.elem, self.const = kind, width, elem, const   # kind: u | i | ptr | void | other

    def __repr__(self):
        return f"{self.kind}{self.width}" if self.kind in "ui" else self.kind


def parse_type(tnode):
    for key in ("desugaredQualType", "qualType"):
        q = tnode.get(key)
        if q is None:
            continue
        t = parse_qual(q)
        if t is not None:
            return t
    return Ty("other")


def parse_qual(q):
    q = q.strip()
    if q.endswith("*") or re.search(r"\*\s*(const|restrict|__restrict)*\s*$", q):
        base = q[:q.rindex("*")]
        const = bool(re.search(r"\bconst\b", base))
        e = parse_qual(strip_quals(base))
        return Ty("ptr", 64, e if e is not None else Ty("other"), const)
    s = strip_quals(q)
    if s in UNSIGNED:
        return Ty("u", UNSIGNED[s])
    if s in SIGNED:
        return Ty("i", SIGNED[s])
    if s == "void":
        return Ty("void")
    if s.startswith("enum "):
        return Ty("u", 32)
    return None


def P(w):
    return f"2 ^ {w}"


# ----------------------------------------------------------------------------------------------- values
class V:
    """a translated expression: Lean text + C type; for pointers `ptr` = (buffer name, constant offset)"""

    def __init__(self, s, ty, prop=False, ptr=None, addr_of=None):
        self.s, self.ty, self.prop, self.ptr, self.addr_of = s, ty, prop, ptr, addr_of


LEAN_KEYWORDS = {"end", "at", "from", "open", "in", "do", "then", "else", "if", "fun", "let", "have", "show", "with",
                 "match", "where", "by", "def", "theorem", "instance", "structure", "class", "namespace", "section",
                 "variable", "universe", "import", "export", "private", "protected", "mutual", "meta", "prefix",
                 "infix", "notation", "macro", "syntax", "deriving", "extends", "using", "calc", "true", "false",
                 "Type", "Prop", "Sort", "max", "min", "set", "get", "size", "width", "val", "value", "result"}


def lname(c):
    c = c.lstrip("_") or "x"
    return c + "'" if c in LEAN_KEYWORDS else c


class Env:
    def __init__(self):
        self.vars = {}          # C name -> V (current SSA value: a Lean identifier) or pointer binding
        self.counter = {}       # C name -> int
        self.outs = {}          # out-param name -> Lean expr (Nat) of last store
        self.writes = {}        # write-buffer name -> list of (index Lean expr, value Lean expr)
        self.scopes = []

    def copy(self):
        e = Env()
        e.vars = dict(self.vars)
        e.counter = self.counter        # shared on purpose: fresh names stay unique across branches
        e.outs = dict(self.outs)
        e.writes = {k: list(v) for k, v in self.writes.items()}
        e.scopes = list(self.scopes)
        return e

    def fresh(self, cname):
        n = self.counter.get(cname, 0) + 1
        self.counter[cname] = n
        return f"{lname(cname)}_{n}"


class Fn:
    """translation of one C function"""

    def __init__(self, tr, cfile, name, lean_name=None):
        self.tr, self.cfile, self.name = tr, cfile, name
        self.lean_name = lean_name or name
        self.node = find_function(cfile, name)
        self.params = [c for c in self.node.get("inner", []) if c["kind"] == "ParmVarDecl"]
        self.body = [c for c in self.node["inner"] if c["kind"] == "CompoundStmt"][0]
        q = self.node["type"]["qualType"]
        self.ret = parse_qual(q[:q.index("(")].strip()) or Ty("other")
        self.read_bufs, self.write_bufs, self.out_params, self.scalars, self.struct_fields = [], [], [], [], {}
        self.classify()

    # which pointer parameter plays which role: decided from how the body uses it
    def classify(self):
        uses = {}

        def walk(n, parent_chain):
            if n.get("kind") == "DeclRefExpr":
                nm = n.get("referencedDecl", {}).get("name")
                uses.setdefault(nm, []).append(parent_chain[-4:])
            for c in n.get("inner", []) or []:
                walk(c, parent_chain + [n])

        walk(self.body, [])
        for p in self.params:
            nm, ty = p["name"], parse_type(p["type"])
            if ty.kind != "ptr":
                self.scalars.append(nm)
                continue
            if ty.elem.kind == "other":          # struct pointer: fields read become parameters
                self.struct_fields[nm] = []
                continue
            if ty.const:
                self.read_bufs.append(nm)
                continue
            kinds = set()
            for chain in uses.get(nm, []):
                ks = [c["kind"] for c in chain]
                if "ArraySubscriptExpr" in ks or any(c["kind"] == "BinaryOperator" and c.get("opcode") in "+-"
                                                      for c in chain):
                    kinds.add("buf")
                elif "CallExpr" in ks:
                    callee = [c for c in chain if c["kind"] == "CallExpr"][-1]
                    cn = callee_name(callee)
                    kinds.add("out" if cn in ("memcpy", "__builtin_memcpy") else "buf")
                else:
                    kinds.add("out")
            if kinds == {"out"}:
                self.out_params.append(nm)
            else:
                self.write_bufs.append(nm)

    # ------------------------------------------------------------------ expressions
    def conv(self, v, to):
        """integer conversion of value v to type `to`"""
        if v.prop:
            v = V(f"(if {v.s} then 1 else 0)", Ty("i", 32))
        fr = v.ty
        if to.kind == "ptr" or fr.kind == "ptr":
            return V(v.s, to, ptr=v.ptr, addr_of=v.addr_of)
        if fr.kind not in "ui" or to.kind not in "ui":
            raise Unsupported(f"conversion {fr} -> {to}")
        m = re.fullmatch(r"\(*\(?(-?\d+)(?: : Int)?\)*", v.s)
        if m and to.width != 1:                     # fold conversions of literals
            val = int(m.group(1))
            if to.kind == "u":
                return V(str(val % (1 << to.width)), to)
            val %= 1 << to.width
            if val >= 1 << (to.width - 1):
                val -= 1 << to.width
            return V(f"({val} : Int)", to)
        if to.kind == "u":
            if to.width == 1:     # _Bool
                return V(f"(if {self.nz(v)} then 1 else 0)", to)
            if fr.kind == "u":
                return V(v.s if to.width >= fr.width else f"({v.s} % {P(to.width)})", to)
            return V(f"(({v.s}) % ({P(to.width)} : Int)).toNat", to)
        # to signed
        if fr.kind == "u":
            if fr.width < to.width:
                return V(f"(({v.s} : Nat) : Int)", to)
            return V(f"(sx {to.width} {v.s})", to)
        if fr.width <= to.width:
            return V(v.s, to)
        return V(f"(sx {to.width} (({v.s}) % ({P(to.width)} : Int)).toNat)", to)

    def nz(self, v):
        if v.prop:
            return v.s
        return f"({v.s} ≠ 0)"

    def as_nat(self, v):
        """shift counts / indices as Nat"""
        if v.ty.kind == "u":
            return v.s
        m = re.fullmatch(r"\(?(\d+)\)?", v.s.replace(" : Int", ""))
        if m:
            return m.group(1)
        return f"({v.s}).toNat"

    def expr(self, n, env):
        k = n["kind"]
        ty = parse_type(n["type"]) if "type" in n else Ty("other")
        inner = n.get("inner", [])
        if k in ("ParenExpr", "ConstantExpr"):
            if k == "ConstantExpr" and "value" in n and ty.kind in "ui":
                return self.lit(n["value"], ty)
            v = self.expr(inner[0], env)
            return V(f"({v.s})" if not v.s.startswith("(") else v.s, v.ty, v.prop, v.ptr, v.addr_of)
        if k == "IntegerLiteral" or k == "CharacterLiteral":
            return self.lit(str(n["value"]), ty)
        if k == "DeclRefExpr":
            nm = n["referencedDecl"]["name"]
            if n["referencedDecl"].get("kind") == "EnumConstantDecl":
                return self.lit(str(self.tr.enum_value(self.cfile, nm)), ty)
            if nm not in env.vars:
                raise Unsupported(f"reference to unknown variable {nm}")
            b = env.vars[nm]
            return V(b.s, b.ty, b.prop, b.ptr, b.addr_of)
        if k == "ImplicitCastExpr" or k == "CStyleCastExpr":
            ck = n.get("castKind")
            v = self.expr(inner[-1], env)
            if ck in ("LValueToRValue", "NoOp", "ArrayToPointerDecay", "FunctionToPointerDecay", "BitCast"):
                return V(v.s, ty if v.ty.kind != "ptr" and ty.kind in "ui" else v.ty, v.prop, v.ptr, v.addr_of) \
                    if ck != "BitCast" else V(v.s, v.ty, v.prop, v.ptr, v.addr_of)
            if ck in ("IntegralCast", "IntegralToBoolean", "BooleanToSignedIntegral"):
                return self.conv(v, ty)
            if ck == "ToVoid":
                return v
            raise Unsupported(f"cast kind {ck}")
        if k == "ArraySubscriptExpr":
            base, idx = self.expr(inner[0], env), self.expr(inner[1], env)
            if base.ptr is None:
                raise Unsupported("subscript of a non-parameter pointer")
            buf, off = base.ptr
            if buf in self.tr_write_names(env):
                raise Unsupported(f"read of write buffer {buf}")
            ci = const_int(idx.s)
            if ci is not None:
                if off + ci < 0:
                    raise Unsupported("read before the start of a buffer")
                pos = str(off + ci)
            else:
                i = self.as_nat(idx)
                pos = i if off == 0 else f"{off} + {i}"
            rd = f"({buf} ({pos}))" if not pos.isdigit() else f"({buf} {pos})"
            if ty.kind == "i":          # e.g. ((int8_t *)p)[0]: the byte reinterpreted as signed
                return V(f"(sx {ty.width} {rd})", ty)
            return V(rd, ty)
        if k == "UnaryOperator":
            op = n["opcode"]
            if op == "&":
                t = inner[0]
                while t["kind"] == "ParenExpr":
                    t = t["inner"][0]
                if t["kind"] == "DeclRefExpr":
                    return V("", Ty("ptr", 64, parse_type(t["type"])), addr_of=t["referencedDecl"]["name"])
                raise Unsupported("address of a non-variable")
            v = self.expr(inner[0], env)
            if op == "*":
                if v.ptr is not None:
                    buf, off = v.ptr
                    if buf in self.tr_write_names(env):
                        raise Unsupported(f"read of write buffer {buf}")
                    rd = f"({buf} {off})"
                    return V(f"(sx {ty.width} {rd})" if ty.kind == "i" else rd, ty)
                raise Unsupported("dereference")
            if op == "!":
                return V(f"¬ {self.nz(v)}", Ty("i", 32), prop=True)
            if op == "-":
                if ty.kind == "i":
                    cv = self.conv(v, ty)
                    m = re.fullmatch(r"\((\d+) : Int\)", cv.s)
                    if m:
                        return V(f"(-{m.group(1)} : Int)", ty)
                    return V(f"(-{cv.s})", ty)
                return V(f"(({P(ty.width)} - {self.conv(v, ty).s}) % {P(ty.width)})", ty)
            if op == "~":
                if ty.kind == "u":
                    return V(f"({P(ty.width)} - 1 - {self.conv(v, ty).s})", ty)
                return V(f"(-{self.conv(v, ty).s} - 1)", ty)
            if op == "+":
                return self.conv(v, ty)
            raise Unsupported(f"unary operator {op}")
        if k == "BinaryOperator":
            op = n["opcode"]
            if op == ",":
                raise Unsupported("comma operator")
            a, b = self.expr(inner[0], env), self.expr(inner[1], env)
            if op in ("&&", "||"):
                return V(f"({self.nz(a)} {'∧' if op == '&&' else '∨'} {self.nz(b)})", Ty("i", 32), prop=True)
            if op in ("<", "<=", ">", ">=", "==", "!="):
                if a.prop:
                    a = self.conv(a, Ty("i", 32))
                if b.prop:
                    b = self.conv(b, Ty("i", 32))
                if a.ty.kind != b.ty.kind:
                    raise Unsupported(f"comparison of {a.ty} with {b.ty}")
                sym = {"<": "<", "<=": "≤", ">": ">", ">=": "≥", "==": "=", "!=": "≠"}[op]
                return V(f"({a.s} {sym} {b.s})", Ty("i", 32), prop=True)
            if a.ptr is not None and op in "+-" and b.ptr is None:
                ci = const_int(b.s)
                if ci is None:
                    raise Unsupported("pointer arithmetic with a non-constant offset")
                buf, off = a.ptr
                noff = off + ci if op == "+" else off - ci
                if noff < 0:
                    raise Unsupported("pointer before the start of a buffer")
                return V("", a.ty, ptr=(buf, noff))
            if a.prop:
                a = self.conv(a, ty)
            if b.prop:
                b = self.conv(b, ty)
            return self.arith(op, a, b, ty)
        if k == "ConditionalOperator":
            c, a, b = (self.expr(x, env) for x in inner)
            if a.ptr or b.ptr:
                raise Unsupported("conditional on pointers")
            return V(f"(if {self.nz(c)} then {self.conv(a, ty).s} else {self.conv(b, ty).s})", ty)
        if k == "UnaryExprOrTypeTraitExpr":
            if n.get("name") == "sizeof":
                t = parse_type(n["argType"]) if "argType" in n else parse_type(inner[0]["type"])
                if t.kind in "ui":
                    return self.lit(str(t.width // 8), ty)
            raise Unsupported("sizeof of a non-integer")
        if k == "MemberExpr":
            base = inner[0]
            while base["kind"] in ("ImplicitCastExpr", "ParenExpr"):
                base = base["inner"][0]
            if base["kind"] == "DeclRefExpr" and base["referencedDecl"]["name"] in self.struct_fields and n.get("isArrow"):
                sn, fld = base["referencedDecl"]["name"], n["name"]
                if (fld, ty) not in [(f, t) for f, t in self.struct_fields[sn]]:
                    if fld not in [f for f, _ in self.struct_fields[sn]]:
                        self.struct_fields[sn].append((fld, ty))
                return V(f"{lname(sn)}_{fld}", ty)
            raise Unsupported("member access")
        if k == "CallExpr":
            cn = callee_name(n)
            args = [self.expr(a, env) for a in inner[1:]]
            callee = self.tr.pure_callee(self.cfile, cn)
            if callee is None:
                raise Unsupported(f"call to {cn} inside an expression")
            if callee.write_bufs or callee.struct_fields:
                raise Unsupported(f"call to {cn} (writes a buffer / takes a struct) inside an expression")
            texts, outs = [], []
            for a, prm in zip(args, callee.params):
                nm, pty = prm["name"], parse_type(prm["type"])
                if nm in callee.read_bufs:
                    if a.ptr is None:
                        raise Unsupported("buffer argument that is not a parameter buffer")
                    buf, off = a.ptr
                    texts.append(buf if off == 0 else f"(fun i => {buf} ({off} + i))")
                elif nm in callee.out_params:
                    if a.addr_of is None:
                        raise Unsupported("out-parameter argument that is not &local")
                    outs.append(a.addr_of)
                elif pty.kind == "ptr":
                    raise Unsupported("pointer argument of unknown role")
                else:
                    texts.append(self.conv(a, pty).s)
            call = f"({callee.lean_name} {' '.join(texts)})" if texts else f"{callee.lean_name}"
            ncomp = (1 if callee.ret.kind != "void" else 0) + len(callee.out_params)

            def proj(k):
                if ncomp == 1:
                    return call
                return call + ".2" * k + ("" if k == ncomp - 1 else ".1")

            base = 1 if callee.ret.kind != "void" else 0
            for j, local in enumerate(outs):          # the callee's stores become the locals' new values
                cur = env.vars[local]
                env.vars[local] = V(f"(({proj(base + j)}).getD {cur.s})", cur.ty)
            if callee.ret.kind == "void":
                return V("()", Ty("void"))
            return V(proj(0), callee.ret)
        raise Unsupported(f"expression kind {k}")

    def tr_write_names(self, env):
        return set(self.write_bufs)

    def lit(self, val, ty):
        if ty.kind == "i":
            return V(f"({val} : Int)", ty)
        return V(f"{val}", ty)

    def arith(self, op, a, b, ty):
        if ty.kind not in "ui":
            raise Unsupported(f"arithmetic at type {ty}")
        w = ty.width
        if op in ("<<", ">>"):
            a = self.conv(a, ty)
            kk = self.as_nat(b)
            ca = const_int(a.s)
            if ca is not None and kk.isdigit() and ca >= 0:        # fold shifts of literals
                val = (ca << int(kk)) if op == "<<" else (ca >> int(kk))
                if ty.kind == "u":
                    return V(str(val % (1 << w)), ty)
                return V(f"({val} : Int)", ty)
            if ty.kind == "u":
                return V(f"({a.s} * 2 ^ {kk} % {P(w)})" if op == "<<" else f"({a.s} / 2 ^ {kk})", ty)
            return V(f"({a.s} * 2 ^ {kk})" if op == "<<" else f"({a.s} / 2 ^ {kk})", ty)
        a, b = self.conv(a, ty), self.conv(b, ty)
        if ty.kind == "u":
            if op == "+":
                return V(f"(({a.s} + {b.s}) % {P(w)})", ty)
            if op == "-":
                return V(f"(({a.s} + {P(w)} - {b.s}) % {P(w)})", ty)
            if op == "*":
                return V(f"(({a.s} * {b.s}) % {P(w)})", ty)
            if op == "/":
                return V(f"({a.s} / {b.s})", ty)
            if op == "%":
                return V(f"({a.s} % {b.s})", ty)
            if op == "&":
                for x, y in ((a, b), (b, a)):
                    if re.fullmatch(r"\d+", y.s) and (int(y.s) + 1) & int(y.s) == 0 and int(y.s) > 0:
                        return V(f"({x.s} % {int(y.s) + 1})", ty)
                return V(f"({a.s} &&& {b.s})", ty)
            if op == "|":
                return V(f"({a.s} ||| {b.s})", ty)
            if op == "^":
                return V(f"({a.s} ^^^ {b.s})", ty)
        else:
            ma, mb = (re.fullmatch(r"\(*\((-?\d+) : Int\)\)*", x.s) for x in (a, b))
            if ma and mb and op in "+-*":               # fold arithmetic on literals
                x, y = int(ma.group(1)), int(mb.group(1))
                return V(f"({x + y if op == '+' else x - y if op == '-' else x * y} : Int)", ty)
            if ma and mb and op in "&|^" and int(ma.group(1)) >= 0 and int(mb.group(1)) >= 0:
                x, y = int(ma.group(1)), int(mb.group(1))
                return V(f"({x & y if op == '&' else x | y if op == '|' else x ^ y} : Int)", ty)
            if op in "+-*":
                return V(f"({a.s} {op} {b.s})", ty)
            if op == "&":
                for x, y in ((a, b), (b, a)):
                    m = re.fullmatch(r"\((\d+) : Int\)", y.s)
                    if m and (int(m.group(1)) + 1) & int(m.group(1)) == 0 and int(m.group(1)) > 0:
                        return V(f"({x.s} % ({int(m.group(1)) + 1} : Int))", ty)
            if op == "/":
                return V(f"(Int.tdiv {a.s} {b.s})", ty)
            if op == "%":
                return V(f"(Int.tmod {a.s} {b.s})", ty)
        raise Unsupported(f"operator {op} at type {ty}")

    # ------------------------------------------------------------------ statements
    def finish(self, env, retv, ind):
        comps = []
        if self.ret.kind != "void":
            if retv is None:
                raise Unsupported("fall off the end of a non-void function")
            comps.append(self.conv(retv, self.ret).s)
        for o in self.out_params:
            comps.append(f"some {env.outs[o]}" if o in env.outs else "none")
        for wbuf in self.write_bufs:
            ws = env.writes.get(wbuf, [])
            comps.append("[" + ", ".join(f"({i}, {v})" for i, v in ws) + "]")
        if not comps:
            comps = ["()"]
        return ind + ("(" + ", ".join(comps) + ")" if len(comps) > 1 else comps[0])

    def flatten_switch(self, body):
        """-> list of items: ('case', value) | ('default',) | ('stmt', node)"""
        items = []

        def add(n):
            if n["kind"] == "CaseStmt":
                c = n["inner"][0]
                while "value" not in c and c["kind"] != "DeclRefExpr":
                    c = c["inner"][0]
                if "value" in c:
                    items.append(("case", str(c["value"])))
                else:
                    items.append(("case", str(self.tr.enum_value(self.cfile, c["referencedDecl"]["name"]))))
                add(n["inner"][-1])
            elif n["kind"] == "DefaultStmt":
                items.append(("default",))
                add(n["inner"][-1])
            else:
                items.append(("stmt", n))

        for s in body.get("inner", []):
            add(s)
        return items

    def block(self, stmts, env, ind):
        if not stmts:
            return self.finish(env, None, ind)
        s, rest = stmts[0], stmts[1:]
        if isinstance(s, tuple):            # ('pop', saved vars)
            for k2, v2 in s[1].items():
                if v2 is None:
                    env.vars.pop(k2, None)
                else:
                    env.vars[k2] = v2
            return self.block(rest, env, ind)
        k = s["kind"]
        inner = s.get("inner", [])
        if k == "CompoundStmt":
            saved = {}
            for c in inner:
                if c["kind"] == "DeclStmt":
                    for d in c.get("inner", []):
                        if d["kind"] == "VarDecl":
                            saved[d["name"]] = env.vars.get(d["name"])
            return self.block(list(inner) + ([("pop", saved)] if saved and rest else []) + rest, env, ind)
        if k == "NullStmt":
            return self.block(rest, env, ind)
        if k == "DeclStmt":
            out = ""
            for d in inner:
                if d["kind"] != "VarDecl":
                    continue
                ty = parse_type(d["type"])
                if ty.kind == "ptr":
                    init = [c for c in d.get("inner", []) if "kind" in c and c["kind"].endswith(("Expr", "Literal", "Operator"))]
                    v = self.expr(init[0], env) if init else None
                    if v is None or v.ptr is None:
                        raise Unsupported("local pointer that is not derived from a parameter buffer")
                    env.vars[d["name"]] = V("", ty, ptr=v.ptr)
                    continue
                if ty.kind not in "ui":
                    raise Unsupported(f"local of type {d['type']['qualType']}")
                init = [c for c in d.get("inner", []) if "kind" in c and c["kind"].endswith(("Expr", "Literal", "Operator"))]
                if init:
                    v = self.conv(self.expr(init[0], env), ty)
                    nm = env.fresh(d["name"])
                    out += f"{ind}let {nm} := {v.s}\n"
                    env.vars[d["name"]] = V(nm, ty)
                else:
                    env.vars[d["name"]] = V("0", ty)     # uninitialised: reads of it are not expected
            return out + self.block(rest, env, ind)
        if k == "BinaryOperator" and s.get("opcode") == "=":
            return self.assign(inner[0], self.expr(inner[1], env), env, ind) + self.block(rest, env, ind)
        if k == "UnaryOperator" and s.get("opcode") in ("++", "--"):
            tgt = inner[0]
            while tgt["kind"] == "ParenExpr":
                tgt = tgt["inner"][0]
            if tgt["kind"] != "DeclRefExpr":
                raise Unsupported("++/-- of a non-variable")
            cur = self.expr(tgt, env)
            d = 1 if s["opcode"] == "++" else -1
            if cur.ptr is not None:
                buf, off = cur.ptr
                if off + d < 0:
                    raise Unsupported("pointer before the start of a buffer")
                env.vars[tgt["referencedDecl"]["name"]] = V("", cur.ty, ptr=(buf, off + d))
                return self.block(rest, env, ind)
            one = self.lit("1", cur.ty)
            val = self.arith("+" if d == 1 else "-", cur, one, cur.ty)
            return self.assign(tgt, val, env, ind) + self.block(rest, env, ind)
        if k == "CompoundAssignOperator":
            op = s["opcode"][:-1]
            cur = self.expr(inner[0], env)
            if cur.ptr is not None:
                ci = const_int(self.expr(inner[1], env).s)
                if ci is None or op not in "+-":
                    raise Unsupported("pointer update with a non-constant offset")
                buf, off = cur.ptr
                noff = off + ci if op == "+" else off - ci
                if noff < 0:
                    raise Unsupported("pointer before the start of a buffer")
                tgt = inner[0]
                while tgt["kind"] == "ParenExpr":
                    tgt = tgt["inner"][0]
                env.vars[tgt["referencedDecl"]["name"]] = V("", cur.ty, ptr=(buf, noff))
                return self.block(rest, env, ind)
            ctype = parse_type(s["computeResultType"]) if "computeResultType" in s else cur.ty
            val = self.arith(op, cur, self.expr(inner[1], env), ctype)
            return self.assign(inner[0], val, env, ind) + self.block(rest, env, ind)
        if k == "IfStmt":
            cond = self.expr(inner[0], env)
            then = inner[1]
            els = inner[2] if len(inner) > 2 else None
            t = self.block([then] + rest, env.copy(), ind + "  ")
            e = self.block(([els] if els else []) + rest, env.copy(), ind + "  ")
            return f"{ind}if {self.nz(cond)} then\n{t}\n{ind}else\n{e}"
        if k == "ReturnStmt":
            return self.finish(env, self.expr(inner[0], env) if inner else None, ind)
        if k == "SwitchStmt":
            cond = self.expr(inner[0], env)
            items = self.flatten_switch(inner[-1])
            nm = env.fresh("sw")
            out = f"{ind}let {nm} := {cond.s}\n"
            labels = [(i, it) for i, it in enumerate(items) if it[0] != "stmt"]

            def code_from(pos):
                seq = []
                for it in items[pos:]:
                    if it[0] != "stmt":
                        continue
                    if it[1]["kind"] == "BreakStmt":
                        return seq + rest
                    seq.append(it[1])
                return seq + rest

            arms, default = [], None
            for pos, it in labels:
                if it[0] == "case":
                    arms.append((it[1], pos))
                else:
                    default = pos
            # merge stacked labels that share their code position
            text, close = out, ""
            for val, pos in arms:
                lit = f"({val} : Int)" if cond.ty.kind == "i" else val
                text += f"{ind}if {nm} = {lit} then\n{self.block(code_from(pos), env.copy(), ind + '  ')}\n{ind}else\n"
            text += self.block(code_from(default) if default is not None else rest, env.copy(), ind + "  ")
            return text
        if k == "CallExpr":
            return self.call_stmt(s, env, ind, rest)
        if k in ("ImplicitCastExpr", "CStyleCastExpr", "ParenExpr"):   # (void)expr;
            return self.block([inner[-1]] + rest, env, ind) if inner[-1]["kind"] == "CallExpr" else self.block(rest, env, ind)
        if k == "BreakStmt":
            raise Unsupported("break outside the top level of a switch")
        raise Unsupported(f"statement kind {k}")

    def assign(self, lhs, val, env, ind):
        while lhs["kind"] == "ParenExpr":
            lhs = lhs["inner"][0]
        if lhs["kind"] == "DeclRefExpr":
            nm = lhs["referencedDecl"]["name"]
            ty = parse_type(lhs["type"])
            if ty.kind == "ptr":
                if val.ptr is None:
                    raise Unsupported("pointer assigned from a non-buffer")
                env.vars[nm] = V("", ty, ptr=val.ptr)
                return ""
            v = self.conv(val, ty)
            new = env.fresh(nm)
            env.vars[nm] = V(new, ty)
            return f"{ind}let {new} := {v.s}\n"
        if lhs["kind"] == "ArraySubscriptExpr":
            base, idx = self.expr(lhs["inner"][0], env), self.expr(lhs["inner"][1], env)
            if base.ptr is None:
                raise Unsupported("store through a computed pointer")
            buf, off = base.ptr
            if buf not in self.write_bufs:
                raise Unsupported(f"store into {buf}, which is not a write buffer")
            ty = parse_type(lhs["type"])
            v = self.conv(val, ty)
            i = self.as_nat(idx)
            pos = str(off + int(i)) if i.isdigit() else (i if off == 0 else f"{off} + {i}")
            new = env.fresh(f"{buf}_b")
            env.writes.setdefault(buf, []).append((pos, new))
            return f"{ind}let {new} := {v.s}\n"
        if lhs["kind"] == "UnaryOperator" and lhs.get("opcode") == "*":
            p = self.expr(lhs["inner"][0], env)
            if p.ptr is None:
                raise Unsupported("store through a computed pointer")
            buf, off = p.ptr
            ty = parse_type(lhs["type"])
            v = self.conv(val, ty)
            if buf in self.out_params:
                new = env.fresh(buf)
                env.outs[buf] = new
                return f"{ind}let {new} := {v.s}\n"
            new = env.fresh(f"{buf}_b")
            env.writes.setdefault(buf, []).append((str(off), new))
            return f"{ind}let {new} := {v.s}\n"
        raise Unsupported(f"assignment to {lhs['kind']}")

    def call_stmt(self, s, env, ind, rest):
        cn = callee_name(s)
        args = s["inner"][1:]
        if cn in ("memcpy", "__builtin_memcpy"):
            dst, src = self.expr(args[0], env), self.expr(args[1], env)
            if dst.ptr is None or src.addr_of is None:
                raise Unsupported("memcpy that is not `memcpy(param, &local, sizeof local)`")
            buf, off = dst.ptr
            if buf not in self.out_params:
                raise Unsupported("memcpy into a buffer")
            loc = env.vars[src.addr_of]
            new = env.fresh(buf)
            env.outs[buf] = new
            return f"{ind}let {new} := {loc.s}\n" + self.block(rest, env, ind)
        if cn in ("assert", "__assert_fail"):
            return self.block(rest, env, ind)
        callee = Fn(self.tr, self.cfile, cn)
        if callee.ret.kind != "void":
            raise Unsupported(f"call to non-void {cn} as a statement")
        saved = {}
        pre = ""
        for p, a in zip(callee.params, args):
            v = self.expr(a, env)
            pty = parse_type(p["type"])
            saved[p["name"]] = env.vars.get(p["name"])
            if pty.kind == "ptr":
                if v.ptr is None:
                    raise Unsupported("pointer argument that is not a parameter buffer")
                env.vars[p["name"]] = V("", pty, ptr=v.ptr)
            else:
                cv = self.conv(v, pty)
                nm = env.fresh(p["name"])
                pre += f"{ind}let {nm} := {cv.s}\n"
                env.vars[p["name"]] = V(nm, pty)
        body = [c for c in callee.body.get("inner", [])]
        if any(has_kind(c, "ReturnStmt") for c in body):
            raise Unsupported(f"inlined helper {cn} contains a return")
        return pre + self.block(body + [("pop", saved)] + rest, env, ind)

    # ------------------------------------------------------------------ whole function
    def translate(self):
        env = Env()
        for p in self.params:
            ty = parse_type(p["type"])
            nm = p["name"]
            if ty.kind == "ptr":
                if nm in self.struct_fields:
                    env.vars[nm] = V(lname(nm), ty)
                else:
                    env.vars[nm] = V("", ty, ptr=(lname(nm) if nm in self.read_bufs else nm, 0))
            else:
                env.vars[nm] = V(lname(nm), ty)
        # write buffers / out params are referred to by their C name internally
        body = self.block(list(self.body.get("inner", [])), env, "  ")
        params = []
        for p in self.params:
            nm, ty = p["name"], parse_type(p["type"])
            if nm in self.read_bufs:
                params.append(f"({lname(nm)} : Nat → Nat)")
            elif nm in self.struct_fields:
                for fld, fty in self.struct_fields[nm]:
                    params.append(f"({lname(nm)}_{fld} : {'Int' if fty.kind == 'i' else 'Nat'})")
            elif ty.kind == "ptr":
                continue
            else:
                params.append(f"({lname(nm)} : {'Int' if ty.kind == 'i' else 'Nat'})")
        comps = []
        if self.ret.kind != "void":
            comps.append("Int" if self.ret.kind == "i" else "Nat")
        comps += ["Option Nat"] * len(self.out_params) + ["List (Nat × Nat)"] * len(self.write_bufs)
        rty = " × ".join(comps) if comps else "Unit"
        doc = (f"/-- `{self.name}` from `{os.path.relpath(self.cfile, REPO)}`"
               + (f"; read buffers {self.read_bufs}" if self.read_bufs else "")
               + (f"; stores through {self.write_bufs} as (index, byte) in program order" if self.write_bufs else "")
               + (f"; out-parameters {self.out_params} (none = not stored)" if self.out_params else "") + " -/")
        return f"{doc}\ndef {self.lean_name} {' '.join(params)} : {rty} :=\n{body}\n"


def const_int(text):
    m = re.fullmatch(r"\(*(-?)\(*(\d+)(?: : Int)?\)*", text.replace(" ", "").replace(":Int", " : Int"))
    if m:
        return -int(m.group(2)) if m.group(1) else int(m.group(2))
    m = re.fullmatch(r"\(-\((\d+) : Int\)\)", text)
    if m:
        return -int(m.group(1))
    return None


def callee_name(call):
    c = call["inner"][0]
    while c["kind"] in ("ImplicitCastExpr", "ParenExpr"):
        c = c["inner"][0]
    return c.get("referencedDecl", {}).get("name", "?")


def has_kind(n, kind):
    if isinstance(n, dict):
        if n.get("kind") == kind:
            return True
        return any(has_kind(c, kind) for c in n.get("inner", []) or [])
    return False


_ENUM_CACHE = {}      # enumerator / constant values are facts about the headers: shared by all modules of one run


class Translator:
    def __init__(self):
        self.done = {}
        self.enums = _ENUM_CACHE

    def enum_value(self, cfile, name):
        if name not in self.enums:
            hdr = cfile[:-2] + ".h" if os.path.exists(cfile[:-2] + ".h") else cfile
            src = f'#include <stdio.h>\n#include "varint.h"\n#include "{hdr}"\nint main(void){{printf("%lld", (long long)({name}));return 0;}}\n'
            import tempfile
            with tempfile.TemporaryDirectory(prefix="c2l.") as d:
                p = os.path.join(d, "e.c")
                open(p, "w").write(src)
                r = subprocess.run(["gcc", "-std=gnu11", "-w", "-I", SRC, p, "-o", os.path.join(d, "e")],
                                   capture_output=True, text=True)
                if r.returncode != 0:
                    raise Unsupported(f"cannot evaluate enumerator {name}: {r.stderr[:300]}")
                self.enums[name] = int(subprocess.run([os.path.join(d, "e")], capture_output=True, text=True).stdout)
        return self.enums[name]

    def pure_callee(self, cfile, cn):
        return self.done.get(cn)

    def function(self, cfile, name, lean_name=None):
        f = Fn(self, cfile, name, lean_name)
        text = f.translate()
        self.done[name] = f
        return text


SX_DEF = """/-- reinterpretation of the low `w` bits of `v` as a two's-complement signed integer -/
def sx (w : Nat) (v : Nat) : Int :=
  if v % 2 ^ w < 2 ^ (w - 1) then ((v % 2 ^ w : Nat) : Int) else ((v % 2 ^ w : Nat) : Int) - (2 ^ w : Int)

"""

PRELUDE = """/- GENERATED by tools/c2lean.py from /repo's current source — do not edit, never committed.
   Every definition is the translation of one C function (see the docstring for the source file). -/
namespace Varint.Gen.C

""" + SX_DEF

# (output module, [(C file relative to src, C function, Lean name)])
TARGETS = {
    "CTagged": [
        ("varintTagged.c", "varintTaggedLen", "taggedLen"),
        ("varintTagged.c", "varintTaggedGetLen", "taggedGetLen"),
        ("varintTagged.c", "varintTaggedPut64", "taggedPut64"),
        ("varintTagged.c", "varintTaggedPut64FixedWidth", "taggedPut64FixedWidth"),
        ("varintTagged.c", "varintTaggedGet", "taggedGet"),
    ],
    "CChained": [
        ("varintChained.c", "varintChainedGetVarint", "chainedGetVarint"),
        ("varintChained.c", "varintChainedGetVarint32", "chainedGetVarint32"),
    ],
    "CSizes": [
        ("import", "CTagged", "varintTagged.c:varintTaggedLen:taggedLen"),
        ("varintRLE.c", "varintRLEMaxSize", "rleMaxSize"),
        ("varintBP128.c", "varintBP128MaxBytes", "bp128MaxBytes"),
        ("varintElias.c", "varintEliasGammaMaxBytes", "eliasGammaMaxBytes"),
        ("varintElias.c", "varintEliasDeltaMaxBytes", "eliasDeltaMaxBytes"),
        ("varintDelta.c", "varintDeltaMaxEncodedSize", "deltaMaxEncodedSize"),
        ("varintDelta.c", "varintDeltaZigZag", "deltaZigZag"),
        ("varintDelta.c", "varintDeltaZigZagDecode", "deltaZigZagDecode"),
        ("varintAdaptive.c", "varintAdaptiveMaxSize", "adaptiveMaxSize"),
        ("varintFloat.c", "varintFloatPrecisionMantissaBits", "floatPrecisionMantissaBits"),
        ("varintFloat.c", "varintFloatMaxEncodedSize", "floatMaxEncodedSize"),
        ("varintFOR.c", "varintFORSize", "forSize"),
        ("varintGroup.c", "varintGroupWidthDecode_", "groupWidthDecode"),
        ("varintGroup.c", "varintGroupWidthEncode_", "groupWidthEncode"),
        ("varintGroup.c", "varintGroupBitmapSize_", "groupBitmapSize"),
    ],
}


def generate(module):
    tr = Translator()
    imports, body = ["CPrelude"], ""
    for cf, fn, ln in TARGETS[module]:
        if cf == "import":                       # functions defined in another generated module, callable from here
            imports.append(fn)
            for spec in ln.split(","):
                c, f, l = spec.split(":")
                tr.function(os.path.join(SRC, c), f, l)
            continue
        body += tr.function(os.path.join(SRC, cf), fn, ln) + "\n"
    head = "".join(f"import Varint.Gen.{m}\n" for m in imports)
    return head + PRELUDE.replace(SX_DEF, "") + body + "end Varint.Gen.C\n"


def prelude_module():
    return ("/- GENERATED by tools/c2lean.py — helper shared by every translated module. -/\n"
            "namespace Varint.Gen.C\n\n" + SX_DEF + "end Varint.Gen.C\n")


def failed_module(module, reason):
    """a module that does not build, so that exactly the theorems depending on the translation break"""
    imports = ["CPrelude"] + [fn for cf, fn, ln in TARGETS[module] if cf == "import"]
    tag = re.sub(r"[^A-Za-z0-9_]", "_", reason)[:120]
    return ("".join(f"import Varint.Gen.{m}\n" for m in imports) +
            f"/- GENERATED by tools/c2lean.py — TRANSLATION FAILED: {reason}\n"
            "   The C source now uses a construct outside the translated subset (or no longer defines a listed\n"
            "   function); the bridge theorems cannot be re-checked against it. -/\n"
            "namespace Varint.Gen.C\n"
            f"def translationFailed : Nat := c2lean_could_not_translate__{tag}\n"
            "end Varint.Gen.C\n")


if __name__ == "__main__":
    mod = sys.argv[1] if len(sys.argv) > 1 else "CTagged"
    try:
        sys.stdout.write(generate(mod))
    except Unsupported as e:
        sys.stderr.write(f"c2lean: unsupported construct: {e}\n")
        sys.exit(3)
