#!/bin/bash
# seed_intake.sh <worktree> <new seed id> "<src files for demo>" <Cxx> [Cyy...]
# verifies a sub-agent's change (suite passes with it, demo fails with it, passes without), stores it under
# seeded/<id>/, runs the named quick checks against it in /repo, and undoes it.
wt=$1; id=$2; srcs=$3; shift 3
[ -f "$wt/patch.diff" ] || (cd "$wt" && git diff -- src > patch.diff)
res=$(/verif/tools/verify_seed.sh "$wt" "$srcs" 2>&1 | tail -3)
echo "$res"
mkdir -p /verif/seeded/$id
cp "$wt/patch.diff" "$wt/demo.c" /verif/seeded/$id/ 2>/dev/null
cp "$wt/notes.txt" /verif/seeded/$id/ 2>/dev/null
echo "$res" | tail -1 > /verif/seeded/$id/verify.txt
/verif/tools/mutrun.sh /verif/seeded/$id/patch.diff "$@" | tee /verif/seeded/$id/mutrun.txt
