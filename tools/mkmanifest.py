#!/usr/bin/env python3
"""Writes MANIFEST.json from the table below (kept in one place so it is always schema-valid)."""
import json, os
HERE = os.path.dirname(os.path.abspath(__file__))
VERIF = os.path.dirname(HERE)
ALL = [f"C{i:02d}" for i in range(1, 19)]
NOTE = ("Trusted: Lean 4.33 kernel; axioms propext/Classical.choice/Quot.sound only (audited with #print axioms each run); "
        "no sorry/native_decide/bv_decide. The model is hand-written; model = code is established by the differential "
        "correspondence only on the operations sampled (boundary-directed + seeded random), in the sanitised and the pinned "
        "-O2 build (thorough: also -O0 and -march=native, all alignments). Constants and README tables are regenerated from "
        "/repo on every run (tools/gen.py). Clauses not yet carried by a theorem are listed in the evidence under not_yet_proved.")
CLAIMED = {
 "C17": ("PARTIAL. Theorem (schedule_independence): for any number of threads, any step functions that read only their "
         "footprint and write only what they own, disjoint writable regions nobody else reads, and EVERY interleaving, a thread's "
         "local state and everything it can see (all of its output) equal what it computes alone; the regenerated list of "
         "writable statics is empty. The premise and race freedom on the real machine are observed: 16 threads over shared "
         "inputs and private outputs under ThreadSanitizer, every result compared with the call made alone",
         "Lean 4 proof (all schedules of an abstract shared-memory machine) + ThreadSanitizer differential run (partial)"),
 "C15": ("PARTIAL. Theorems: the regenerated list of writable statics of the library is empty; the only caller-supplied "
         "possibly-uninitialised structure the encoders read (varintFORMeta) does not influence the result unless it claims to be "
         "an analysis of the same count, and the adaptive layer's zeroed struct never does. The correspondence runs every "
         "operation in three orders, with stack and heap painted with three residues, in two builds, and under valgrind "
         "memcheck, and requires the model's (pure) result every time",
         "Lean 4 proof (statics list, residue independence of the modelled site) + perturbed differential correspondence + memcheck (partial)"),
 "C18": ("Theorems for the bitmap object under EVERY refusal pattern (any subset of its allocation requests, over any "
         "history): Add/Remove are atomic (applied and reported, or the set is untouched and false returned), the C08 invariant "
         "survives, set operations return NULL or exactly the union with all iterated members, Create/Clone return NULL or the "
         "object; with no refusal the oracle model equals the C08 model. Every allocating API is swept on the implementation: "
         "each of its N requests refused in turn, outcome/leak/usability checked and compared with the model's prediction. "
         "Known finding D35 (void bitmap APIs cannot report) is reported as KNOWN-FINDING",
         "Lean 4 proof (bitmap object under any refusal oracle) + exhaustive k-th-allocation-failure sweep compared with the model (partial: crashes/leaks are observed, not proved)"),
 "C14": ("Theorems, for EVERY byte list: the bounded tagged reader, both dictionary decoders, both Elias array decoders, the "
         "bitmap deserialiser and the RLE run counter never load at or beyond the declared size (memory-safety semantics: such "
         "a load is the distinguished outcome `fault`, proved unreachable), every malloc request is bounded by a constant or "
         "8x the input size, outputs never exceed the capacity, a tagged varint is reported as 0 exactly when cut short. "
         "The models follow the C pointer arithmetic and are compared with the code on hostile inputs under ASan + guard pages",
         "Lean 4 proof (memory-safety of the model for all inputs) + differential correspondence on truncated/corrupt/hostile inputs"),
 "C06": ("Theorems: the first byte names the encoding; the selector (for every outcome of its float comparisons) picks "
         "BITMAP only for sorted, all-unique, < 65536, < 10000-element input; the DELTA, FOR and TAGGED arms are lossless "
         "for arrays of every length (adaptive_roundtrip_partial). All six arms, the analysis and the selector are "
         "modelled and compared with the code; the harness decodes every stream with the original count",
         "Lean 4 proof (partial: 3 of 6 arms) + differential correspondence over every decision-tree leaf"),
 "C07": ("Per-value theorems over all 2^64 IEEE patterns: FULL precision reproduces every double bit for bit; special values "
         "are exact in every precision; reduced precision moves the significand by at most half a unit (carry renormalised), "
         "i.e. relative error <= 2^-mantissaBits, sign kept, infinity only from the largest exponent; automatic selection "
         "never picks a mode whose bound exceeds the request. Real encoder bytes are compared with the model and decoded "
         "values are checked by exact arithmetic", "Lean 4 proof on IEEE-754 bit patterns + differential correspondence"),
 "C10": ("Theorems: packed (row,col) round-trips for all 32-bit pairs and fails exactly above; the pair byte decodes to the "
         "encoded widths for all 72 combinations; the header decodes to (rows, cols) for all 64-bit counts and has the "
         "announced length; a cell write is read back and leaves every other cell, the header and the buffer length "
         "unchanged (byte-range disjointness + index injectivity). Real matrices are compared byte for byte with a "
         "reference after every write", "Lean 4 proof (byte-range disjointness) + whole-buffer differential comparison"),
 "C08": ("Refinement theorem: for every finite history of add/remove/clear/bulk-add/remove-range from the empty bitmap the "
         "membership answers, every change report and the cardinality counter equal those of a mathematical set; the "
         "container type is proved unobservable for add/remove. The real varintBitmap is driven through random histories "
         "(incl. set algebra, ranges > 4096 on non-empty sets, serialise/deserialise) and compared after every step with "
         "the model and a 65536-bit reference set", "Lean 4 refinement proof over histories + differential histories vs reference set"),
 "C09": ("Refinement theorem: the slot-level get/set of varintPacked.h are bit-field extract/insert of the slot array read as "
         "one little-endian number, for every slot width, value width and index with an element spanning at most two slots; "
         "hence read-after-write, isolation of every other element and of every storage bit, slots touched; lower-bound "
         "search; incr/half locality. 103 real instantiations of the header are driven through random histories against a "
         "reference array", "Lean 4 refinement proof (Nat.testBit extensionality) + differential histories on 103 instantiations"),
 "C11": ("Theorems parametric in the slot width W, bit offset, field width 1..W, value and prior contents: read-after-write, "
         "every bit outside the range unchanged, only overlapping words written; signed helpers; the four instantiations of "
         "the header are exercised exhaustively over (offset mod W, width)",
         "Lean 4 proof via Nat.testBit extensionality + exhaustive (offset,width) correspondence"),
 "C02": ("Round-trip theorems for arrays of every length (delta signed/unsigned, frame-of-reference incl. random access, "
         "run-length); all codecs (also PFOR, group, dict, Elias, BP128) are modelled and tied to the code by the "
         "correspondence, with the round-trip / random-access monitors run on the implementation from exact-size copies",
         "Lean 4 proof by induction over the array + differential correspondence with the C codecs"),
 "C03": ("length-of-output theorems (delta bound, RLE exact + bound, FOR exact); every encoder is run into a buffer of "
         "exactly the advertised size followed by a canary", "Lean 4 proof of size bounds + canary at the advertised size"),
 "C13": ("for every byte string the model decoder stores at most cap values (FOR, RLE) and returns the documented "
         "failure or a correct prefix; every decoder is run with capacities 0..n into exactly-sized output blocks with guards",
         "Lean 4 proof over all byte strings + guard elements on the implementation"),
 "C16": ("metadata of the model = real properties of the data (FOR min/max/range/width/size, RLE runs), header accessors "
         "read back what was encoded; harness recomputes ground truth independently for every codec",
         "Lean 4 proof + independently recomputed ground truth in the harness"),
 "C01": ("Theorems for all 2^64 values (any trailing bytes) about the executable model of all nine scalar families incl. "
         "fixed-width, quick-macro, reversed and 32-bit forms and the signed helpers; correspondence harness ties model to code",
         "Lean 4 proof over executable model + differential correspondence with the C code"),
 "C04": ("Model encoders proved equal to format specifications written from the documentation; length monotonicity and "
         "per-length maxima proved against constants and README tables regenerated from /repo; bytes of the real encoders "
         "compared with the model", "Lean 4 proof (model = documented format, maxima = regenerated constants) + byte-exact correspondence"),
 "C05": ("lexCmp (memcmp model) of tagged encodings = numeric compare for all pairs, prefix-freeness, tuples of any arity; "
         "real memcmp compared with the model on boundary/one-byte-different/random pairs and tuples",
         "Lean 4 proof (big-endian key argument) + correspondence with real memcmp"),
 "C12": ("Theorems over all (stored value, slot width, amount) for tagged and external add: overflow untouched, exact int64 sum, "
         "no-grow never writes beyond the slot, grow bounded by 9/8; harness replays boundary-crossing triples with guard bytes",
         "Lean 4 proof over the add model + differential correspondence with guard bytes"),
}
m = {
 "version": 1,
 "setup_cmd": "./check setup",
 "hooks": {"guard": "VARINT_VERIF",
           "enable": "harness is compiled with -DVARINT_VERIF against /repo/src of the working tree; no hook commits were needed in /repo (static functions are reached by #include of the .c file, allocation by -Wl,--wrap)",
           "baseline_off_cmd": "tools/baseline.sh", "source_commits": [], "add_only": True},
 "engines": [{"name": "lean-proof+correspondence", "path": "tools/vcheck.py", "serves_properties": sorted(CLAIMED),
              "kind_free_text": "Lean 4 theorems about an executable model (lean/Varint), tied to /repo by regenerated constants/tables (tools/gen.py) and a differential correspondence harness (harness/*.c vs lean_exe vdriver)"}],
 "checks": [],
 "not_applicable": [],
 "notes": "see DESIGN.md; known_findings.json lists repaired (fixed:) and recorded defects",
}
for pid in sorted(CLAIMED):
    text, tech = CLAIMED[pid]
    m["checks"].append({"property_id": pid, "quick_cmd": f"./check {pid} --tier quick",
                        "thorough_cmd": f"./check {pid} --tier thorough", "evidence_file": f"evidence/{pid}.json",
                        "replay_cmd_template": "./check replay {path}", "engine": "lean-proof+correspondence",
                        "level_claimed": {"category": "proof", "text": text, "design_ref": f"DESIGN.md section 6 {pid}"},
                        "level_note": NOTE, "technique": tech})
for pid in ALL:
    if pid not in CLAIMED:
        m["not_applicable"].append({"property_id": pid, "reason": "not claimed yet: model/theorems/correspondence for this property are still being built (see DESIGN.md section 9 for the order of work); no technique other than Lean proof + correspondence will be substituted"})
json.dump(m, open(os.path.join(VERIF, "MANIFEST.json"), "w"), indent=1)
print("claimed:", sorted(CLAIMED))
