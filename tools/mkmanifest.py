#!/usr/bin/env python3
"""Writes MANIFEST.json from the table below (kept in one place so it is always schema-valid)."""
import json, os
HERE = os.path.dirname(os.path.abspath(__file__))
VERIF = os.path.dirname(HERE)
ALL = [f"C{i:02d}" for i in range(1, 19)]
NOTE = ("Trusted: Lean 4.33 kernel; axioms propext/Classical.choice/Quot.sound only (audited with #print axioms each run); "
        "no sorry/native_decide/bv_decide. Tie to the code, both checked on every run: (T) tools/c2lean.py and tools/c2lean2.py re-translate 58 C "
        "functions from /repo's current source into Lean — loop-free: tagged family, unrolled chained reader, sizing functions, "
        "zig-zag, group codes, bitstream set/get, tagged in-place add, external put-fixed/get (byte views, switch tables); WITH LOOPS "
        "(fuel-recursive definitions, proved to terminate): chained-simple encode/length/decode, the whole run-length codec, "
        "external put + in-place add, the varintSplit.h statement macros (via wrappers), delta put/get/encode/decode, adaptive "
        "sortedness scan — and bridge theorems prove them equal to the model for all inputs (the signed delta entry points and "
        "the RLE header/GetAt readers are translated; signed delta is not bridged yet); (H) for everything else the hand-written "
        "model = code is established by the differential correspondence only on the operations sampled (boundary-directed + "
        "seeded random), in the sanitised and the pinned -O2 build (thorough: also -O0 and -march=native, all alignments). "
        "Constants, README tables and the list of writable statics are regenerated from /repo on every run (tools/gen.py). "
        "The translator (its reading of C) and clang's parse are trusted. Clauses not carried by a theorem are listed in the "
        "evidence under not_yet_proved.")
CLAIMED = {
 "C17": ("PARTIAL. Theorem (schedule_independence): for any number of threads, any step functions that read only their "
         "footprint and write only what they own, disjoint writable regions nobody else reads, and EVERY interleaving, a thread's "
         "local state and everything it can see (all of its output) equal what it computes alone; the regenerated list of "
         "writable statics is empty. The premise and race freedom on the real machine are observed: 16 threads over shared "
         "inputs and private outputs under ThreadSanitizer, every result compared with the call made alone",
         "Lean 4 proof (all schedules of an abstract shared-memory machine) + ThreadSanitizer differential run (partial)"),
 "C15": ("PARTIAL. Theorems: the regenerated list of writable statics of the library is empty; the only caller-supplied "
         "possibly-uninitialised structure the encoders read (varintFORMeta) does not influence the result unless it claims to be "
         "an analysis of the same count, and the adaptive layer's zeroed struct never does. The correspondence runs every "
         "operation in three orders, with stack and heap painted with three residues, in two builds, and under valgrind "
         "memcheck, and requires the model's (pure) result every time",
         "Lean 4 proof (statics list, residue independence of the modelled site) + perturbed differential correspondence + memcheck (partial)"),
 "C18": ("Theorems for the bitmap object under EVERY refusal pattern (any subset of its allocation requests, over any "
         "history): Add/Remove are atomic (applied and reported, or the set is untouched and false returned), the C08 invariant "
         "survives, set operations return NULL or exactly the union with all iterated members, Create/Clone return NULL or the "
         "object; with no refusal the oracle model equals the C08 model. Every allocating API is swept on the implementation: "
         "each of its N requests refused in turn, outcome/leak/usability checked and compared with the model's prediction. "
         "Known finding D35 (void bitmap APIs cannot report) is reported as KNOWN-FINDING",
         "Lean 4 proof (bitmap object under any refusal oracle) + exhaustive k-th-allocation-failure sweep compared with the model (partial: crashes/leaks are observed, not proved)"),
 "C14": ("varintRLEGetRunCount is machine-translated and proved equal to the bounded model (which never loads beyond the declared size) on every byte string: it terminates and reports a count. Theorems, for EVERY byte list: the bounded tagged reader, both dictionary decoders, both Elias array decoders, the bitmap deserialiser and the RLE run counter never load at or beyond the declared size (memory-safety semantics: such a load is the outcome `fault`, proved unreachable), every malloc request is bounded, outputs never exceed the capacity, a tagged varint is reported as 0 exactly when cut short (also proved about the machine translation of varintTaggedGet), and the fuel of every model loop is adequate (termination). The models follow the C pointer arithmetic and are compared with the code on hostile inputs under ASan + guard pages",
         "Lean 4 proof (memory-safety and termination of the model for all inputs; translated bounded reader) + differential correspondence on truncated/corrupt/hostile inputs"),
 "C06": ("The sortedness scan (varintAdaptiveCheckSorted, loop with early exit) is machine-translated and proved exact for every array: no neighbour pair is skipped. Theorem adaptive_roundtrip: for every non-empty array of 64-bit values (count < 2^32) and EVERY outcome of the selector's floating-point comparisons, decoding the automatically selected encoding with the original count returns the original sequence, whatever follows the bytes (above 2^20 elements under 'the dictionary encoder accepted', i.e. did not report failure); forced encodings inside their domains are lossless (BITMAP for strictly increasing values < 65536, any capacity gives the prefix); the first byte names the encoding; BITMAP is selected only for strictly increasing < 65536 input. The model of the decoder (all six arms) is compared with the C decoder's output on every op; the output meta's previous content is checked not to influence the bytes",
         "Lean 4 proof (all six arms, every selector outcome) + differential correspondence over every decision-tree leaf + meta-residue check"),
 "C07": ("Per-value theorems over all 2^64 IEEE patterns (FULL bit-exact, specials exact, relative error <= 2^-mantissaBits with carry renormalisation, automatic precision meets the request) and the ARRAY theorem: decoding the encoder's bytes yields, in order, what each value decodes to, for every precision byte, exponent mode and array of < 2^61 doubles, consuming exactly the bytes written; in FULL precision the array is reproduced bit for bit. Encoder bytes and decoder output are both compared with the model",
         "Lean 4 proof on IEEE-754 bit patterns + array-framing proof + differential correspondence (encode and decode)"),
 "C10": ("Theorems: packed (row,col) round-trips for all 32-bit pairs and fails exactly above; the pair byte decodes to the encoded widths for all 72 combinations; the header decodes to (rows, cols) for all 64-bit counts and has the announced length; a cell write (unsigned 1-8 bytes, float/double as their IEEE bits, and bit cells: set/clear/toggle) is read back and leaves every other cell, the header and the buffer length unchanged. Real matrices are compared byte for byte with a reference after every write; huge sparse matrices (column counts with the top bit of their width set) are probed on a lazily committed mapping",
         "Lean 4 proof (byte-range / bit disjointness) + whole-buffer differential comparison"),
 "C08": ("Refinement theorem: for every finite history of add/remove/clear/bulk-add/ranges from the empty bitmap the membership answers, change reports and cardinality equal those of a mathematical set; container type unobservable; the four set operations are exactly union/intersection/symmetric difference/difference; iteration is strictly ascending and duplicate free, export length = cardinality; add-range (element-wise and single-run fast path); serialise then deserialise restores the state (array, dense, single-run containers). The real varintBitmap is driven through random histories and a container-state matrix (each operand in each container with few members in each zone x 4 operations x both orders) and compared after every step with the model and a 65536-bit reference set",
         "Lean 4 refinement proof over histories + differential histories vs reference set"),
 "C09": ("Refinement theorems: get/set are bit-field extract/insert of the slot array read as one little-endian number (read-after-write, isolation of every other element and storage bit, slots touched); lower-bound search; incr/half locality; the shifting loops refine list operations: positional insert = insertIdx, delete = eraseIdx, sorted insert keeps sortedness and is a permutation of v :: old, membership finds the first equal element, delete-member = erase; storage bits outside the moved range untouched. 103 real instantiations are driven through random histories against a reference array, plus elements whose bit position passes 2^32 / 2^33 on a sparse mapping",
         "Lean 4 refinement proof (Nat.testBit extensionality, list refinement of the shifting loops) + differential histories on 103 instantiations"),
 "C11": ("varintBitstreamSet/Get (64-bit slots) are machine-translated from the header and proved equal to the model for EVERY bit offset below 2^64 (incl. offsets beyond 2^31/2^32 bits), every width 1..64, every prior contents: read-after-write, isolation and slots-stored hold on the translated C. Theorems parametric in the slot width W, bit offset, field width 1..W, value and prior contents: read-after-write, "
         "every bit outside the range unchanged, only overlapping words written; signed helpers; the four instantiations of "
         "the header are exercised exhaustively over (offset mod W, width)",
         "Lean 4 proof via Nat.testBit extensionality + machine-translated Set/Get with bridge theorems (all offsets) + exhaustive (offset,width) correspondence incl. far offsets"),
 "C02": ("Unsigned delta is proved end to end on the translated encoder and decoder for EVERY array (c_delta_unsigned_roundtrip); the RLE header decoder and random access (GetAt) are bridged as well. Run-length is proved END TO END ON THE TRANSLATED C: the bytes varintRLEEncode stores, handed to varintRLEDecode with the original count, reproduce the array (encoder loop, decoder's nested loops, tagged reader/writer all machine-translated). Round-trip theorems for arrays of every length for EVERY codec: delta (signed/unsigned), zig-zag (also on the translated C), frame-of-reference + random access, run-length with and without header + random access, group + random access, dictionary (both decoders; for exactly the arrays the encoder accepts), Elias gamma/delta (any declared bit count from exact to byte-rounded, any capacity gives the prefix), PFOR at every threshold percentage, BP128 32/64-bit and both delta forms. All codecs are compared with the code on boundary-directed arrays, with round-trip / random-access monitors run on the implementation from exact-size copies",
         "Lean 4 proof by induction over the array (all codecs) + machine-translated RLE encoder/decoder with bridge theorems + differential correspondence with the C codecs"),
 "C03": ("Unsigned delta on the translated C: stores only below the returned length, which is within varintDeltaMaxEncodedSize. For run-length the statement is about the translated C itself: varintRLESize/Analyze's encodedSize = what varintRLEEncode returns = the number of bytes it stores, all at indices below it, within varintRLEMaxSize. Length-of-output theorems for every encoder: exact predictors (RLE, FOR, group, dictionary), upper bounds (delta, RLE incl. header, Elias, PFOR, BP128 x4, float for every precision/mode, adaptive for every outcome of the selector); the advertised-size FUNCTIONS themselves are translated from the current headers and proved equal to the model's formulas (no size_t wrap below 2^56 elements). Every encoder is run into a buffer of exactly the advertised size followed by a canary",
         "Lean 4 proof of size bounds (all encoders) + translated sizing functions and RLE analyze/encode loops + canary at the advertised size"),
 "C13": ("varintRLEDecode (outer run loop + inner fill loop) is machine-translated and proved: for any readable bytes incl. run lengths up to 2^64-1 it stores only at indices below the count it returns, which is <= maxCount (defect D40 found by this proof and repaired). For EVERY byte string each capacity-taking model decoder (FOR, RLE with and without header, group, dictionary DecodeInto, Elias gamma/delta, BP128 x4, adaptive with all six arms) stores at most cap values; on valid encodings a smaller capacity gives the documented failure or the correct prefix. Every decoder is run with capacities 0..n into exactly-sized output blocks with guards",
         "Lean 4 proof over all byte strings (all capacity-taking decoders) + machine-translated RLE decoder with bridge theorem + guard elements and hostile run lengths on the implementation"),
 "C16": ("RLE metadata proved on the translated C: count, runCount = number of maximal runs, encodedSize = bytes stored = return value, for Analyze and Encode. Metadata of the model = real properties of the data: FOR min/max/range/width/size and header accessors, RLE runs (maximal, unique decomposition), group self-measured size and field widths, PFOR analysis facts (min, threshold, width, count, exception records) and header read-back; the harness recomputes ground truth independently for every codec (incl. Elias, BP128, float, adaptive). Known finding D15 (adaptive ReadMeta) is reported as KNOWN-FINDING",
         "Lean 4 proof + independently recomputed ground truth in the harness"),
 "C01": ("External (little-endian: put with its width loop, fixed-width put, get) and the split family (varintSplit.h macros: put/get/length/getlen) are machine-translated too and proved for all 2^64 values (c_external_roundtrip, c_split_roundtrip). Chained-simple (encode loop, length loop, decode loop with early return) is machine-translated and proved for all 2^64 values and every fuel >= 10 (termination). Theorems for all 2^64 values (any trailing bytes) for all nine scalar families incl. fixed-width, quick-macro, reversed and 32-bit forms and the signed helpers. For the tagged family and the hand-unrolled chained reader the statements are ALSO proved about the machine translation of the C source (regenerated on every run): varintTaggedPut64 then varintTaggedGet returns the value, the four lengths agree and lie in 1..9, the stores are exactly bytes 0..n-1; the literal transcription of sqlite3's unrolled reader equals the format-level reader on every byte string. Split/chained-simple/external bodies are tied by the correspondence",
         "Lean 4 proof over executable model + C-to-Lean translation with bridge theorems (tagged, chained reader) + differential correspondence with the C code"),
 "C04": ("Chained-simple bytes on the translated encoder loop = documented LEB128-capped-at-9 format; no writable statics (regenerated). Model encoders proved equal to format specifications written from the documentation (tagged also on the translated C: stored bytes = sqlite4 format for all 2^64 values); length monotonicity and per-length maxima proved against constants and README tables regenerated from /repo; canonicity stated on the decoders (no accepted byte string shorter than the encoder's, same length implies same bytes) for tagged, chained, chained-simple, external and, for every first byte an encoder can produce, the four split families; bytes of the real encoders (incl. Elias streams) compared with the model",
         "Lean 4 proof (model = documented format, canonicity, maxima = regenerated constants) + translated tagged encoder + byte-exact correspondence"),
 "C05": ("lexCmp (memcmp model) of tagged encodings = numeric compare for all pairs (also for the bytes stored by the translated varintTaggedPut64), prefix-freeness, tuples of any arity; real memcmp compared with the model on boundary/one-byte-different/random pairs and tuples",
         "Lean 4 proof (big-endian key argument, also on the translated C) + correspondence with real memcmp"),
 "C12": ("The external in-place add (varintExternalAdd_/NoGrow/Grow) is machine-translated and bridged too (c_ext_add). varintTaggedAdd/AddNoGrow/AddGrow are machine-translated (slot read, __builtin_saddll_overflow, in-place re-encode) and the whole property is proved on the translated C for every slot and every int64 amount (c_tagged_add). Theorems over all (stored value, slot width, amount) for tagged and external add: overflow untouched, exact int64 sum, "
         "no-grow never writes beyond the slot, grow bounded by 9/8; harness replays boundary-crossing triples with guard bytes",
         "Lean 4 proof over the add model + machine-translated tagged add with bridge theorem + differential correspondence with guard bytes"),
}
m = {
 "version": 1,
 "setup_cmd": "./check setup",
 "hooks": {"guard": "VARINT_VERIF",
           "enable": "harness is compiled with -DVARINT_VERIF against /repo/src of the working tree; no hook commits were needed in /repo (static functions are reached by #include of the .c file, allocation by -Wl,--wrap)",
           "baseline_off_cmd": "tools/baseline.sh", "source_commits": [], "add_only": True},
 "engines": [{"name": "lean-proof+correspondence", "path": "tools/vcheck.py", "serves_properties": sorted(CLAIMED),
              "kind_free_text": "Lean 4 theorems about an executable model (lean/Varint), tied to /repo by C-to-Lean translators with bridge theorems (tools/c2lean.py loop-free, tools/c2lean2.py loops/pointer walks/read-modify-write; lean/Varint/Bridge), regenerated constants/tables (tools/gen.py) and a differential correspondence harness (harness/*.c vs lean_exe vdriver)"}],
 "checks": [],
 "not_applicable": [],
 "notes": "see DESIGN.md; known_findings.json lists repaired (fixed:) and recorded defects",
}
for pid in sorted(CLAIMED):
    text, tech = CLAIMED[pid]
    m["checks"].append({"property_id": pid, "quick_cmd": f"./check {pid} --tier quick",
                        "thorough_cmd": f"./check {pid} --tier thorough", "evidence_file": f"evidence/{pid}.json",
                        "replay_cmd_template": "./check replay {path}", "engine": "lean-proof+correspondence",
                        "level_claimed": {"category": "proof", "text": text, "design_ref": f"DESIGN.md section 6 {pid}"},
                        "level_note": NOTE, "technique": tech})
for pid in ALL:
    if pid not in CLAIMED:
        m["not_applicable"].append({"property_id": pid, "reason": "not claimed yet: model/theorems/correspondence for this property are still being built (see DESIGN.md section 9 for the order of work); no technique other than Lean proof + correspondence will be substituted"})
json.dump(m, open(os.path.join(VERIF, "MANIFEST.json"), "w"), indent=1)
print("claimed:", sorted(CLAIMED))
