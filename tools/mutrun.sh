#!/bin/bash
# mutrun.sh <patch.diff> <Cxx> [Cyy ...] : apply a seeded change to /repo, run the quick checks, undo it.
patch=$1; shift
git -C /repo apply "$patch" || { echo "patch does not apply"; exit 2; }
for p in "$@"; do
  echo "--- $p"
  (cd /verif && ./check $p --tier quick 2>&1 | grep -E "VIOLATION|KNOWN|^\[check\] C|^\[check\]   " | head -8)
done
git -C /repo checkout -- .
git -C /repo status --short | grep -v "^??" | head -3
