#!/bin/bash
# mutrun.sh <patch.diff> <Cxx> [Cyy ...] : apply a seeded change to /repo, run the quick checks, undo it.
patch=$1; shift
git -C /repo apply "$patch" || { echo "patch does not apply"; exit 2; }
for p in "$@"; do
  echo "--- $p"
  out=$(cd /verif && ./check $p --tier quick 2>&1)
  echo "$out" | grep -E "^\[check\] C|^\[check\]   [0-9]+ |lean build failed" | head -6
  echo "$out" | grep -E "^\[check\]    Varint" | head -4
  echo "$out" | grep -E "VIOLATION|KNOWN" | head -6
done
git -C /repo checkout -- .
git -C /repo status --short | grep -v "^??" | head -3
