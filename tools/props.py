"""Per-property specification of a check: which ops are generated, which output fields the
property speaks about, which Lean modules/theorems carry it."""
import json
import os
import re

import genops

HERE = os.path.dirname(os.path.abspath(__file__))
VERIF = os.path.dirname(HERE)


class Spec:
    lean_modules = []
    diff_is_violation = False
    extra_trust = []
    assumptions = []
    rule = ""

    def configs(self, tier):
        return ["asan", "o2"] if tier == "quick" else ["asan", "o2", "o0", "native"]

    def gen(self, rng, tier):
        return []

    def variants(self, cfg, tier):
        """perturbed re-runs of the same operations in one build configuration; {} = the plain run"""
        return [{}]

    def relevant_keys(self, op):
        """None = every field of the result line"""
        return None


def _obl():
    with open(os.path.join(VERIF, "lean", "obligations.json")) as f:
        return json.load(f)


def obligations(prop):
    return [t for t in _obl().get(prop, {}).get("theorems", [])]


def missing(prop):
    return _obl().get(prop, {}).get("not_yet_proved", [])


def corpus_ops(prop):
    p = os.path.join(VERIF, "corpus", f"{prop}.ops")
    if not os.path.exists(p):
        return []
    return [ln.rstrip("\n") for ln in open(p) if ln.strip() and not ln.startswith("#")]


def match_known(known, op, text):
    """a known finding matches by regex on the op line and (optionally) on the failure text"""
    for k in known:
        if re.search(k.get("op_regex", "$^"), op) and re.search(k.get("text_regex", ""), text):
            return k
    return None


# ------------------------------------------------------------------------------------------
class C01(Spec):
    lean_modules = ["Varint.Props.C01"]
    rule = ("per family: all length-class boundaries +-2, 2^k+-1, split bases + 256^j +-1, log-uniform random values; "
            "every legal fixed width; signed helpers over the whole field; digest sweeps. "
            "distinct_nontrivial = distinct implementation result lines (value, bytes, four lengths, decoded value)")
    assumptions = ["chained/chained-simple/split/external: model = code is sampled (H-tier), not proved",
                   "__uint128_t entry points are outside the property (64-bit values)"]

    def gen(self, rng, tier):
        return (genops.gen_scalar_all(rng, tier) + genops.gen_scalar_fixed(rng, tier) +
                genops.gen_signed(rng, tier) + genops.gen_scalar_dec(rng, tier) + genops.gen_sweeps(rng, tier))


class C04(Spec):
    lean_modules = ["Varint.Props.C04"]
    diff_is_violation = True
    rule = ("encoded bytes of every scalar family compared byte for byte with the model, which is proved equal to "
            "the format specification; boundaries, adjacent pairs at every length boundary, random values, sweeps")
    assumptions = ["Spec/*.lean is my reading of the documented formats"]

    def gen(self, rng, tier):
        import os
        repo = os.environ.get("VERIF_REPO", "/repo")
        # Elias gamma/delta bits and the zig-zag map are part of this property's statement
        return (genops.gen_maxima(os.path.join(repo, "README.md")) + genops.gen_scalar_all(rng, tier) +
                genops.gen_sweeps(rng, tier) + genops.gen_arrays(rng, tier, codecs=["egamma", "edelta"]))

    def relevant_keys(self, op):
        if op.startswith("sweep"):
            return ["digest"]
        if op.startswith(("egamma", "edelta")):
            return ["len", "b"]
        if op.startswith("zigzag"):
            return None
        if op.startswith(("maxcell", "hdrmax")):
            return None
        return ["n", "b", "rb", "fb", "p32"]


class C05(Spec):
    lean_modules = ["Varint.Props.C05"]
    diff_is_violation = True
    rule = ("memcmp over real tagged encodings for all pairs of boundary values, random pairs differing in one "
            "payload byte / adjacent / unrelated, random 2-4 tuples sharing a prefix")

    def gen(self, rng, tier):
        return genops.gen_tagged_cmp(rng, tier)


class C12(Spec):
    lean_modules = ["Varint.Props.C12"]
    rule = ("(stored value, width, amount, grow?) around every width boundary upward and downward and the int64 "
            "overflow edges; slot followed by guard bytes; distinct = distinct result lines")

    def gen(self, rng, tier):
        return genops.gen_add(rng, tier)


class ArrayProp(Spec):
    codecs = None
    keys = None
    with_adaptive = True

    def gen(self, rng, tier):
        ops = genops.gen_arrays(rng, tier, self.codecs)
        if self.with_adaptive:
            ops += genops.gen_adaptive(rng, tier, slice_only=True) + genops.gen_float(rng, tier)[:60]
        return ops

    def relevant_keys(self, op):
        return self.keys


class C02(ArrayProp):
    with_adaptive = False
    lean_modules = ["Varint.Props.C02"]
    keys = ["len", "b", "z", "back"]
    rule = ("arrays of lengths straddling 1/2, 127/128/129, 240/241, 255/256/257, 2287/2288, 4095/4096/4097 (thorough: "
            "10000, 65536) x seven shapes x value ranges at every byte- and bit-width boundary, every codec and PFOR "
            "threshold; decode from an exact-size copy, every random-access reader; distinct = distinct result lines")


class C03(ArrayProp):
    lean_modules = ["Varint.Props.C03"]
    keys = ["len", "adv", "sz"]
    rule = ("same arrays as C02; destination of exactly the advertised size followed by a canary; returned length vs "
            "advertised size; exactness where documented")


class C13(ArrayProp):
    lean_modules = ["Varint.Props.C13"]
    keys = ["len", "b", "n", "v", "last"]

    def gen(self, rng, tier):
        return ArrayProp.gen(self, rng, tier) + genops.gen_rle_hostile(rng, tier)

    rule = ("every valid encoding of the C02 stream decoded with capacities 0, 1, n/2, n-1, 128, 129, n into an output "
            "block of exactly that many elements followed by guard elements")


class C16(ArrayProp):
    lean_modules = ["Varint.Props.C16"]
    diff_is_violation = True
    keys = ["m", "h", "gs", "fc", "gc", "grc", "len", "adv", "sz"]
    rule = ("metadata outputs and header accessors of every codec compared with ground truth recomputed by the harness "
            "and with the model; lengths around 240/241 and multiples of 128 +- 1")


class C11(Spec):
    lean_modules = ["Varint.Props.C11"]
    diff_is_violation = True
    rule = ("every (bit offset mod W, width 1..W) pair for slot widths 8/16/32/64, values all-ones / one-hot / random, "
            "prior contents zero / ones / random, stream allocated to exactly the overlapping words; signed helpers "
            "over the whole field for every width 2..64")

    def gen(self, rng, tier):
        return genops.gen_bits(rng, tier)


class C09(Spec):
    lean_modules = ["Varint.Props.C09"]
    diff_is_violation = True
    rule = ("103 instantiations of varintPacked.h (every bit width 1..32 x slot width 8/16/32/64 in which an element "
            "spans at most two slots, plus the compact / micro-promotion variants used in the tree); per instantiation: "
            "element-isolation histories (set/incr/half on arbitrary prior contents, storage of exactly n slots), sorted "
            "multiset histories (insertSorted/member/binarySearch/deleteMember/delete) and positional insert/delete "
            "histories, every element compared with a reference array after every step")

    def gen(self, rng, tier):
        return genops.gen_packed(rng, tier)


class C08(Spec):
    lean_modules = ["Varint.Props.C08"]
    diff_is_violation = True
    rule = ("histories of 6-40 operations on two bitmaps (add, remove, half-open add/remove ranges incl. longer than 4096 "
            "on non-empty sets, clear, clone, bulk add, or/and/xor/andnot, encode+decode, swap), seeded near 4096 members "
            "and with run containers; after EVERY step cardinality, isEmpty, toArray, ascending iteration and membership "
            "probes of both bitmaps are compared with 65536-bit reference sets; operands of binary ops checked unchanged")

    def gen(self, rng, tier):
        return genops.gen_bitmap(rng, tier)

    def relevant_keys(self, op):
        return ["r", "ca", "cb", "ha", "hb"]


class C10(Spec):
    lean_modules = ["Varint.Props.C10"]
    diff_is_violation = True
    rule = ("packed (row,col): all pairs of 16^d +-1 boundaries up to above 2^32 plus random; headers: all 72 width "
            "combinations with extreme counts; matrices: rows 0..40 x cols 1..300, entry widths 1-8 bytes, float, double "
            "and bit cells, zero/ones/random prior contents, exact-size buffer, the whole buffer compared with a "
            "reference after every write (row 0, last row, last column, random cells)")
    assumptions = ["half-float cells (F16C only, not compiled in the pinned build) are not covered",
                   "float/double cells are modelled as 4/8 stored bytes"]

    def gen(self, rng, tier):
        return genops.gen_dim(rng, tier)


class C07(Spec):
    lean_modules = ["Varint.Props.C07"]
    rule = ("arrays of IEEE-754 patterns (±0, subnormals, min/max normal, infinities, NaNs with payloads, significands that "
            "carry on rounding at every kept width, same-magnitude and 1e-308..1e308 mixtures) x 4 precisions x 3 exponent "
            "modes; decoded values compared bitwise (FULL / specials) or by exact relative error in long double; "
            "automatic selection probed on both sides of every threshold")
    assumptions = ["the array framing (bitmaps, exponent sections, bit-packed mantissas) is tied by the correspondence, "
                   "the theorems are per value"]

    def gen(self, rng, tier):
        return genops.gen_float(rng, tier)


class C06(Spec):
    lean_modules = ["Varint.Props.C06"]
    rule = ("one generator per leaf of the selection decision tree (DICT, BITMAP, DELTA asc/desc, PFOR, FOR, TAGGED) at "
            "lengths 1..4097 and 10001 (thorough: 9999/10000/10001, 20000, 65537), descending and duplicate variants of "
            "bitmap-like input, periodic input aligned with the uniqueness sampler, forced encodings inside their domains; "
            "decode with the original count from an exact-size copy; coverage of leaves is in input_distribution")
    assumptions = ["float division/comparison of the selector: hardware vs Lean Float32, compared through the selected tag"]

    def gen(self, rng, tier):
        return genops.gen_adaptive(rng, tier)


class C14(Spec):
    lean_modules = ["Varint.Props.C14"]
    diff_is_violation = True
    rule = ("bounded tagged reader, both dictionary decoders, both Elias array decoders, the bitmap deserialiser and the "
            "RLE run counter on: all byte strings of length <= 1 and a grid (thorough: all) of length 2; every truncation of "
            "valid encodings built by independent Python encoders; bit flips, hostile size fields (2^20+1, 2^32-1, 2^61, "
            "2^64-1) spliced into valid streams; random strings up to 4 KiB. The input lives in a heap block of exactly the "
            "declared size (ASan) and in front of a PROT_NONE page (all configurations); Elias: bits beyond srcBits flipped; "
            "outputs of exactly the stated capacity plus guard elements; malloc interposed (request sizes compared with the "
            "model, > 2 GiB refused and reported); per-operation alarm for termination")
    assumptions = ["declared sizes are honest: the generator never declares more bytes/bits than it hands over"]

    def gen(self, rng, tier):
        return genops.gen_bounded(rng, tier)


class C18(Spec):
    lean_modules = ["Varint.Props.C18"]
    diff_is_violation = True
    rule = ("for every allocating API (dictionary create/build/encode/size/decode/decode-into, PFOR analyse/encode, float "
            "encode/decode, adaptive encode (automatic and every forced type) and decode, bitmap create/clone/decode/add/"
            "remove/addMany/addRange/removeRange/or/and/xor/andnot from states of every container type around every "
            "growth and conversion point): count the allocation requests N of the undisturbed call, then refuse request "
            "k for EVERY k = 1..N; each outcome is classified (failure indication / identical / different-but-correct / "
            "void-incomplete / wrong) after decoding any 'successful' output, with a live-block count for leaks, an "
            "unchanged-and-usable check of the long-lived object, ASan for crashes; N and the outcome string are compared "
            "with the model's prediction")
    assumptions = ["crash and leak freedom are observed on the implementation (they are not model properties)",
                   "one refused request per call (the theorems cover any refusal pattern)"]

    def gen(self, rng, tier):
        return genops.gen_oom(rng, tier)


class C15(Spec):
    lean_modules = ["Varint.Props.C15"]
    diff_is_violation = True
    rule = ("the array-codec, adaptive, float, dictionary, bitmap, RLE and BP128 operations of the other properties' streams, "
            "each executed (a) in generation order, (b) in two other random orders (so every call is preceded by different other "
            "library calls), (c) with the stack region below the call and every fresh / released heap block painted 0x00, 0xFF "
            "and 0xA5, in the ASan and the -O2 build, (d) under valgrind memcheck (uninitialised-value reports attributed to the "
            "operation); every result line must equal the model's, which is a pure function of the arguments")
    assumptions = ["what the compiler does with an uninitialised read is a fact about the binary: the perturbations and memcheck "
                   "observe it, the theorems cannot",
                   "fresh-process equality: every harness restart (and the valgrind run) is a fresh process"]

    def configs(self, tier):
        return ["asan", "o2", "o0"]

    def variants(self, cfg, tier):
        if cfg == "o0":
            return [{"name": "memcheck", "valgrind": True}]
        vs = [{}, {"name": "perm1", "perm_seed": 11}, {"name": "paint00", "env": {"VH_PAINT": "00"}, "perm_seed": 12},
              {"name": "paintff", "env": {"VH_PAINT": "ff"}}, {"name": "painta5", "env": {"VH_PAINT": "a5"}, "perm_seed": 13}]
        return vs if cfg == "asan" or tier != "quick" else [vs[0], vs[4]]

    def gen(self, rng, tier):
        ops = genops.gen_arrays(rng, "quick", ["for", "forb", "pfor", "dict", "rle", "rleh", "bp32", "bp64", "bpd32", "bpd64"])
        ops += genops.gen_adaptive(rng, "quick") + genops.gen_float(rng, "quick")
        ops += genops.gen_bitmap(rng, "quick")[:40]
        # the sampled uniqueness estimate of large unsorted arrays goes through a heap scratch buffer whose size and
        # stride depend on the count: counts far above the 10000-element switch, not multiples of round strides
        for n, card in ((90001, 1000),) if tier == "quick" else ((90001, 1000), (100003, 1400), (200003, 1100)):
            if True:
                ops.append(f"adaptive.rt @u:{genops.hx(rng.getrandbits(60))}:{genops.hx(n)}:0:{genops.hx(card)}")
        if tier == "quick":
            ops = [o for o in ops if len(o) < 6000]
            # always keep the operations that go through scratch memory of input-dependent size (sampled analysis)
            def big_generated(o):
                t = o.split(" ")
                return len(t) > 1 and t[-1].startswith("@") and int(t[-1].split(":")[2], 16) > 10000
            must = [o for o in ops if big_generated(o)]
            rest = [o for o in ops if not big_generated(o)]
            rng.shuffle(rest)
            ops = must + rest[:max(0, 1500 - len(must))]
        return ops


class C17(Spec):
    lean_modules = ["Varint.Props.C17"]
    diff_is_violation = True
    rule = ("2..16 threads share six read-only input arrays (full range, ascending, few distinct, clustered with outliers, "
            "dense small, doubles) of 1..2000 (thorough: 70000) values and each owns its output buffers; every thread makes "
            "40..2000 calls picked by its own PRNG from 18 entry groups (tagged / external / chained / chained-simple scalars, "
            "delta, FOR, PFOR, dict, RLE, group, Elias gamma/delta, BP128 32/64, float, adaptive, packed 12-bit arrays and "
            "bitstreams on private storage); each result digest is compared with the same call made alone; built with "
            "ThreadSanitizer (halt on the first report), ASan+UBSan and -O2")
    assumptions = ["ThreadSanitizer observes the schedules that happen; the theorem covers all schedules of the abstract machine, "
                   "under the premise (no access outside the arguments) that TSan and no_shared_statics support"]

    def configs(self, tier):
        return ["tsan", "asan", "o2"]

    def gen(self, rng, tier):
        return genops.gen_mt(rng, tier)


PROPS = {"C17": C17(), "C15": C15(), "C18": C18(), "C14": C14(), "C06": C06(), "C07": C07(), "C10": C10(), "C08": C08(), "C09": C09(), "C11": C11(), "C02": C02(), "C03": C03(), "C13": C13(), "C16": C16(), "C01": C01(), "C04": C04(), "C05": C05(), "C12": C12()}
