#!/usr/bin/env python3
"""c2lean2 — second-generation translator: C functions WITH loops, pointer walks and read-modify-write
buffers (clang-14 JSON AST) to Lean 4 definitions.  Extends tools/c2lean.py (whose output for the loop-free
functions is left byte-for-byte as it was, so the existing bridge theorems keep checking).

Semantics added here (part of the trusted base, on top of the list in c2lean.py):
  * a pointer value is (buffer, offset) where the offset may now be any `Nat` expression: `p + e`, `p += e`,
    `&p[e]`, `p++`; `p - q` (same buffer) is the `Int` difference of offsets, `p < q` compares offsets
  * loops (`for`, `while`, `do … while`) become a separate structurally recursive definition
        def f_loopK (captured…) : Nat → σ → LoopR σ ρ
    over a fuel argument; σ is the tuple of the variables the loop assigns (declared outside it), ρ the function's
    result.  `break` = `.done st`, `continue` = (increment and) recurse, `return` = `.ret r`, fuel 0 = `.nofuel`.
    A function that contains a loop (or calls one that does) takes `fuel` as its first argument and returns
    `Option ρ` (`none` = out of fuel).  The bridge theorems prove `some …` for every fuel above an explicit bound.
  * `if` without return/break/continue inside a function translated by this module is a *join*:
        let (x', y') := if c then … (x1, y1) else … (x0, y0)
  * stores are collected as before in program order as `(index, value)`; inside loops the collection is a loop
    state (`List (Nat × Nat)`).  A buffer that is also READ (read-modify-write) gets an extra parameter
    `buf0 : Nat → Nat` (its contents on entry) and reads are `rdw buf0 stores i` (last store wins)
  * a non-const struct pointer whose fields are assigned (`meta->count = e`) is a record of out-parameters, one
    `Option Nat` component per field in order of first appearance; `if (meta)` reads the extra parameter
    `meta_given : Bool`
  * calls: to a translated callee that stores through a buffer — its stores are appended, shifted by the pointer's
    offset (`shiftW`); to a callee with loops — `match callee fuel … with | none => out of fuel | some r => …`
  * NOT supported: goto, unions, floating point, pointer casts that change the element type, function pointers,
    local arrays, address-of locals other than as out-parameter arguments.
"""
import os
import re
import sys

sys.path.insert(0, os.path.dirname(os.path.abspath(__file__)))
from c2lean import (Unsupported, Ty, V, Env, parse_type, parse_qual, P, lname, const_int, callee_name,  # noqa: E402
                    has_kind, find_function, SRC, REPO, Translator)
import c2lean  # noqa: E402

LOOPS = ("ForStmt", "WhileStmt", "DoStmt")
ESCAPES = ("ReturnStmt", "BreakStmt", "ContinueStmt", "GotoStmt") + LOOPS

PRELUDE2 = """
/-- result of running a translated loop: normal exit with the loop state, early `return`, or out of fuel -/
inductive LoopR (σ ρ : Type) where
  | done (s : σ)
  | ret (r : ρ)
  | nofuel

/-- read of a buffer that has been stored to: the last store to index `i` wins, otherwise the entry contents -/
def rdw (init : Nat → Nat) (stores : List (Nat × Nat)) (i : Nat) : Nat :=
  match stores.reverse.find? (fun p => p.1 = i) with
  | some p => p.2
  | none => init i

/-- byte `k` of the little-endian object representation of `v` replaced by `b` (a store through `(uint8_t *)&v`) -/
def setByte (v k b : Nat) : Nat := v - (v / 2 ^ (8 * k) % 256) * 2 ^ (8 * k) + b * 2 ^ (8 * k)

/-- `__builtin_bswap64` -/
def bswap64 (v : Nat) : Nat :=
  (v % 256) * 2 ^ 56 + (v / 2 ^ 8 % 256) * 2 ^ 48 + (v / 2 ^ 16 % 256) * 2 ^ 40 + (v / 2 ^ 24 % 256) * 2 ^ 32 +
  (v / 2 ^ 32 % 256) * 2 ^ 24 + (v / 2 ^ 40 % 256) * 2 ^ 16 + (v / 2 ^ 48 % 256) * 2 ^ 8 + (v / 2 ^ 56 % 256)

/-- `&`, `|`, `^` on signed integers of width `w` (two's complement): the operation on the bit patterns, read back signed -/
def ibit2 (w : Nat) (f : Nat → Nat → Nat) (a b : Int) : Int :=
  sx w (f (a % (2 ^ w : Int)).toNat (b % (2 ^ w : Int)).toNat)

/-- stores of a callee that was handed `buf + off` -/
def shiftW (off : Nat) (stores : List (Nat × Nat)) : List (Nat × Nat) := stores.map fun p => (off + p.1, p.2)

"""


LW = "List (Nat × Nat)"


def lty(ty):
    return "Int" if ty.kind == "i" else "Nat"


def I(text, n=2):
    pad = " " * n
    return "\n".join((pad + ln if ln.strip() else ln) for ln in text.split("\n"))


def skip_parens(n):
    while n.get("kind") in ("ParenExpr",):
        n = n["inner"][0]
    return n


def assigned_names(node, acc=None):
    """C variable names assigned anywhere below node (=, op=, ++, --, &x passed to a call)"""
    acc = acc if acc is not None else []

    def add(nm):
        if nm not in acc:
            acc.append(nm)

    def tgt(n):
        n = skip_parens(n)
        if n.get("kind") == "DeclRefExpr":
            add(n["referencedDecl"]["name"])

    def walk(n):
        if not isinstance(n, dict):
            return
        k = n.get("kind")
        if k in ("BinaryOperator",) and n.get("opcode") == "=":
            tgt(n["inner"][0])
        elif k == "CompoundAssignOperator":
            tgt(n["inner"][0])
        elif k == "UnaryOperator" and n.get("opcode") in ("++", "--"):
            tgt(n["inner"][0])
        elif k == "UnaryOperator" and n.get("opcode") == "&":
            tgt(n["inner"][0])
        for c in n.get("inner", []) or []:
            walk(c)

    walk(node)
    return acc


def declared_names(node):
    out = []

    def walk(n):
        if not isinstance(n, dict):
            return
        if n.get("kind") == "VarDecl":
            out.append(n["name"])
        for c in n.get("inner", []) or []:
            walk(c)

    walk(node)
    return out


class W:
    """stores through one write buffer: a Lean expression of type List (Nat × Nat)"""

    def __init__(self, base=None, items=None):
        self.base, self.items = base, list(items or [])

    def copy(self):
        return W(self.base, self.items)

    def expr(self):
        lit = "[" + ", ".join(f"({i}, {v})" for i, v in self.items) + "]"
        if self.base is None:
            return lit
        if not self.items:
            return self.base
        return f"({self.base} ++ {lit})"


class Env2(Env):
    types = {}      # Lean name -> Lean type, shared by all environments of one translation

    def fresh(self, cname, lty="Nat"):
        nm = Env.fresh(self, cname)
        self.types[nm] = lty
        return nm

    def copy(self):
        e = Env2()
        e.types = self.types
        e.vars = dict(self.vars)
        e.counter = self.counter
        e.outs = dict(self.outs)
        e.writes = {k: v.copy() for k, v in self.writes.items()}
        e.scopes = list(self.scopes)
        return e


class Ctx:
    """what `return`, falling off the end, `break`, `continue` and running out of fuel mean at this point"""

    def __init__(self, kind, fn, state=None, loopcall=None, inc=None, joinvars=None):
        self.kind, self.fn, self.state, self.loopcall, self.inc, self.joinvars = kind, fn, state, loopcall, inc, joinvars

    def ret(self, text):
        if self.kind == "loop":
            return f".ret {paren(text)}"
        return f"some {paren(text)}" if self.fn.uses_fuel else text

    def nofuel(self):
        return ".nofuel" if self.kind == "loop" else "none"

    def pass_ret(self, r):
        return f".ret {r}" if self.kind == "loop" else f"some {r}"


def paren(t):
    t = t.strip()
    if re.fullmatch(r"[\w.']+", t) or (t.startswith("(") and balanced(t)):
        return t
    return f"({t})"


def balanced(t):
    d = 0
    for i, ch in enumerate(t):
        if ch == "(":
            d += 1
        elif ch == ")":
            d -= 1
            if d == 0 and i != len(t) - 1:
                return False
    return d == 0


def learn_typedefs(cfile, node):
    """integer typedefs (e.g. `vbits`) used in pointer types are not desugared by clang's JSON: look them up"""
    names = set()

    def walk(n):
        if isinstance(n, dict):
            t = n.get("type")
            if isinstance(t, dict):
                for ident in re.findall(r"[A-Za-z_]\w*", t.get("qualType", "")):
                    names.add(ident)
            for c in n.get("inner", []) or []:
                walk(c)

    walk(node)
    skip = {"const", "volatile", "restrict", "__restrict", "struct", "enum", "union", "void", "unsigned", "signed",
            "int", "long", "short", "char", "float", "double", "_Bool"}
    for ident in sorted(names - skip - set(c2lean.UNSIGNED) - set(c2lean.SIGNED) - LEARNED):
        LEARNED.add(ident)
        try:
            objs = c2lean.clang_ast(cfile, ident)
        except RuntimeError:
            continue
        for o in objs:
            if o.get("kind") == "TypedefDecl" and o.get("name") == ident:
                t = o.get("type", {})
                for key in ("desugaredQualType", "qualType"):
                    q = c2lean.strip_quals(t.get(key, ""))
                    if q in c2lean.UNSIGNED:
                        c2lean.UNSIGNED[ident] = c2lean.UNSIGNED[q]
                        break
                    if q in c2lean.SIGNED:
                        c2lean.SIGNED[ident] = c2lean.SIGNED[q]
                        break
                    if q.startswith("enum "):          # an enum typedef (x86-64 SysV: unsigned int unless it has negatives)
                        c2lean.UNSIGNED[ident] = 32
                        break


LEARNED = set()
c2lean.UNSIGNED.setdefault("__uint128_t", 128)
c2lean.UNSIGNED.setdefault("unsigned __int128", 128)
CONSTANT_CALLS = {"endianIsLittle": 1}      # platform facts (x86-64, little-endian): part of the trusted base


class Fn2(c2lean.Fn):
    def __init__(self, tr, cfile, name, lean_name=None):
        learn_typedefs(cfile, find_function(cfile, name))
        super().__init__(tr, cfile, name, lean_name)
        self.loops = []            # texts of the loop definitions, in order of completion
        self.nloops = 0
        self.rmw = []              # write buffers that are also read: extra `buf0` parameter
        self.elem_width = {}       # parameter buffer -> element width of every access so far
        self.local_structs = set() # names of local struct variables
        self.given = []            # struct out-params tested with `if (meta)`
        self.struct_outs = {}      # struct pointer name -> [field,…] in order of first appearance
        self.local_arrays = []     # "@arr:<name>" keys of local arrays
        self.reclassify_aliased_outs()
        self.reclassify_passed_outs()
        self.uses_fuel = self.has_real_loop(self.body) or self.calls_fuel(self.body)
        self.scan_struct_outs()

    def reclassify_aliased_outs(self):
        """a `void *`/pointer parameter whose only use is to initialise a local pointer (`T *dst = (T *)_dst;`) is a
        buffer viewed through that local, not a single out-parameter"""
        for nm in list(self.out_params):
            hit = []

            def walk(n):
                if not isinstance(n, dict):
                    return
                if n.get("kind") == "VarDecl" and parse_type(n.get("type", {})).kind == "ptr" and n.get("inner"):
                    e = n["inner"][-1]
                    while isinstance(e, dict) and e.get("kind") in ("ImplicitCastExpr", "CStyleCastExpr", "ParenExpr"):
                        e = e["inner"][-1]
                    if isinstance(e, dict) and e.get("kind") == "DeclRefExpr" and \
                            e.get("referencedDecl", {}).get("name") == nm:
                        hit.append(1)
                for c in n.get("inner", []) or []:
                    walk(c)

            walk(self.body)
            if hit:
                self.out_params.remove(nm)
                self.write_bufs.append(nm)

    def reclassify_passed_outs(self):
        """a pointer parameter that is only handed on to translated callees as THEIR out-parameter is an out-parameter"""
        for nm in list(self.write_bufs):
            roles = []

            def walk(n, in_call=None, argpos=None):
                if not isinstance(n, dict):
                    return
                if n.get("kind") == "CallExpr":
                    callee = self.tr.done.get(callee_name(n))
                    for i, a in enumerate(n["inner"][1:]):
                        walk(a, callee, i)
                    return
                if n.get("kind") == "DeclRefExpr" and n.get("referencedDecl", {}).get("name") == nm:
                    if in_call is not None and argpos is not None and argpos < len(in_call.params) and \
                            in_call.params[argpos]["name"] in in_call.out_params:
                        roles.append("out")
                    else:
                        roles.append("other")
                    return
                for c in n.get("inner", []) or []:
                    walk(c, in_call if n.get("kind") in ("ImplicitCastExpr", "ParenExpr") else None,
                         argpos if n.get("kind") in ("ImplicitCastExpr", "ParenExpr") else None)

            walk(self.body)
            if roles and all(r == "out" for r in roles):
                self.write_bufs.remove(nm)
                self.out_params.append(nm)

    def has_real_loop(self, n):
        if not isinstance(n, dict):
            return False
        k = n.get("kind")
        if k in ("ForStmt", "WhileStmt"):
            return True
        if k == "DoStmt":
            c = skip_casts(n["inner"][1])
            if not (c.get("kind") == "IntegerLiteral" and int(c["value"]) == 0) or loop_escape(n["inner"][0]):
                return True
        return any(self.has_real_loop(c) for c in n.get("inner", []) or [])

    # ------------------------------------------------------------------ classification helpers
    def calls_fuel(self, node):
        found = []

        def walk(n):
            if not isinstance(n, dict):
                return
            if n.get("kind") == "CallExpr":
                c = self.tr.done.get(callee_name(n))
                if c is not None and getattr(c, "uses_fuel", False):
                    found.append(1)
            for c in n.get("inner", []) or []:
                walk(c)

        walk(node)
        return bool(found)

    def scan_struct_outs(self):
        def walk(n):
            if not isinstance(n, dict):
                return
            if n.get("kind") == "BinaryOperator" and n.get("opcode") == "=" or n.get("kind") == "CompoundAssignOperator":
                lhs = skip_parens(n["inner"][0])
                if lhs.get("kind") == "MemberExpr" and lhs.get("isArrow"):
                    base = lhs["inner"][0]
                    while base["kind"] in ("ImplicitCastExpr", "ParenExpr"):
                        base = base["inner"][0]
                    if base["kind"] == "DeclRefExpr":
                        sn = base["referencedDecl"]["name"]
                        if sn in self.struct_fields:
                            self.struct_outs.setdefault(sn, [])
                            if lhs["name"] not in self.struct_outs[sn]:
                                self.struct_outs[sn].append(lhs["name"])
            for c in n.get("inner", []) or []:
                walk(c)

        walk(self.body)

    def out_keys(self):
        ks = list(self.out_params)
        for sn, flds in self.struct_outs.items():
            ks += [f"{sn}.{f}" for f in flds]
        return ks

    # ------------------------------------------------------------------ pointers
    @staticmethod
    def padd(off, d, sign=1):
        """offset arithmetic: ints fold, anything else is a Lean Nat expression"""
        if isinstance(off, int) and isinstance(d, int):
            r = off + sign * d
            if r < 0:
                raise Unsupported("pointer before the start of a buffer")
            return r
        if isinstance(d, int) and d == 0:
            return off
        if isinstance(off, int) and off == 0 and sign == 1:
            return d
        return f"({off} + {d})" if sign == 1 else f"({off} - {d})"

    def offset_of(self, v):
        """integer expression used as a pointer offset -> int or Lean Nat text"""
        ci = const_int(v.s)
        if ci is not None:
            return ci
        return self.as_nat(v)

    def nz(self, v):
        if v.ty.kind == "ptr" and not v.prop:
            if v.s and v.s in self.struct_fields:
                if v.s not in self.given:
                    self.given.append(v.s)
                return f"({lname(v.s)}_given = true)"
            raise Unsupported("pointer used as a condition")
        return super().nz(v)

    # ------------------------------------------------------------------ expressions
    def wexpr(self, env, buf):
        return env.writes[buf].expr() if buf in env.writes else "[]"

    def read_at(self, env, buf, pos, ty):
        if buf in self.out_params:
            # `*out` read back after it has been stored (`*out <<= k`): the value stored last
            if buf in env.outs and pos in (0, "0"):
                return V(env.outs[buf], ty)
            raise Unsupported(f"read of out-parameter {buf} before it is stored")
        if isinstance(buf, str) and buf.startswith("@bytes:"):
            loc = env.vars[buf[7:]]
            return V(f"(({loc.s} / 2 ^ (8 * {paren(str(pos))})) % 256)", Ty("u", 8))
        if isinstance(buf, str) and buf.startswith("@arr:"):
            rd = f"(rdw (fun _ => 0) {self.wexpr(env, buf)} {paren(str(pos))})"
        elif buf in self.write_bufs:
            if ty.kind in "ui":
                self.note_elem(buf, ty.width)
            if buf not in self.rmw:
                self.rmw.append(buf)
            rd = f"(rdw {buf}0 {self.wexpr(env, buf)} {paren(str(pos))})"
        else:
            if ty.kind in "ui" and isinstance(buf, str):
                self.note_elem(buf, ty.width)
            rd = f"({buf} {paren(str(pos))})"
        if ty.kind == "i":
            return V(f"(sx {ty.width} {rd})", ty)
        return V(rd, ty)

    def expr(self, n, env):
        k = n["kind"]
        ty = parse_type(n["type"]) if "type" in n else Ty("other")
        inner = n.get("inner", [])
        if k == "ArraySubscriptExpr":
            base, idx = self.expr(inner[0], env), self.expr(inner[1], env)
            if base.ptr is None:
                raise Unsupported("subscript of a non-parameter pointer")
            buf, off = base.ptr
            return self.read_at(env, buf, self.padd(off, self.offset_of(idx)), ty)
        if k == "UnaryOperator" and n["opcode"] == "&":
            t = skip_parens(inner[0])
            if t["kind"] == "DeclRefExpr" and t["referencedDecl"]["name"] in self.local_structs:
                return V("@struct:" + t["referencedDecl"]["name"], Ty("ptr", 64, Ty("other")))
            if t["kind"] == "ArraySubscriptExpr":
                base, idx = self.expr(t["inner"][0], env), self.expr(t["inner"][1], env)
                if base.ptr is None:
                    raise Unsupported("address of an element of a non-parameter pointer")
                buf, off = base.ptr
                return V("", Ty("ptr", 64, parse_type(t["type"])), ptr=(buf, self.padd(off, self.offset_of(idx))))
            return super().expr(n, env)
        if k == "UnaryOperator" and n["opcode"] == "*":
            v = self.expr(inner[0], env)
            if v.ptr is None:
                raise Unsupported("dereference")
            buf, off = v.ptr
            return self.read_at(env, buf, off, ty)
        if k == "UnaryOperator" and n["opcode"] in ("++", "--"):
            tgt = skip_parens(inner[0])
            if tgt["kind"] != "DeclRefExpr":
                raise Unsupported("++/-- of a non-variable inside an expression")
            old = self.expr(tgt, env)
            if old.ptr is not None:
                nm = tgt["referencedDecl"]["name"]
                d = 1 if n["opcode"] == "++" else -1
                new = self.bind_ptr(env, nm, old.ty, (old.ptr[0], self.padd(old.ptr[1], 1, d)))
                env.vars[nm] = new
                return V("", old.ty, ptr=old.ptr if n.get("isPostfix") else new.ptr)
            env.prelets.append(self.simple(n, env).rstrip("\n"))
            return old if n.get("isPostfix") else self.expr(tgt, env)
        if (k == "BinaryOperator" and n.get("opcode") == "=") or k == "CompoundAssignOperator":
            tgt = skip_parens(inner[0])
            if tgt["kind"] != "DeclRefExpr":
                raise Unsupported("assignment to a non-variable inside an expression")
            t = self.simple(n, env).rstrip("\n")
            if t:
                env.prelets.append(t)
            return self.expr(tgt, env)
        if k == "BinaryOperator" and n["opcode"] not in ("&&", "||", ","):
            op = n["opcode"]
            a, b = self.expr(inner[0], env), self.expr(inner[1], env)
            if a.ptr is not None and b.ptr is not None:
                if a.ptr[0] != b.ptr[0]:
                    raise Unsupported("arithmetic on pointers into different buffers")
                oa, ob = str(a.ptr[1]), str(b.ptr[1])
                if op == "-":
                    return V(f"((({oa} : Nat) : Int) - (({ob} : Nat) : Int))", Ty("i", 64))
                sym = {"<": "<", "<=": "≤", ">": ">", ">=": "≥", "==": "=", "!=": "≠"}.get(op)
                if sym:
                    return V(f"({oa} {sym} {ob})", Ty("i", 32), prop=True)
                raise Unsupported(f"pointer operator {op}")
            if a.ptr is not None and op in "+-":
                buf, off = a.ptr
                return V("", a.ty, ptr=(buf, self.padd(off, self.offset_of(b), 1 if op == "+" else -1)))
            if b.ptr is not None and op == "+":
                buf, off = b.ptr
                return V("", b.ty, ptr=(buf, self.padd(off, self.offset_of(a))))
            if a.ptr is not None or b.ptr is not None:
                raise Unsupported(f"pointer operator {op}")
            if op in ("<", "<=", ">", ">=", "==", "!="):
                if a.prop:
                    a = self.conv(a, Ty("i", 32))
                if b.prop:
                    b = self.conv(b, Ty("i", 32))
                if a.ty.kind != b.ty.kind:
                    raise Unsupported(f"comparison of {a.ty} with {b.ty}")
                sym = {"<": "<", "<=": "≤", ">": ">", ">=": "≥", "==": "=", "!=": "≠"}[op]
                return V(f"({a.s} {sym} {b.s})", Ty("i", 32), prop=True)
            if a.prop:
                a = self.conv(a, ty)
            if b.prop:
                b = self.conv(b, ty)
            return self.arith(op, a, b, ty)
        if k == "DeclRefExpr":
            nm = n["referencedDecl"]["name"]
            if nm not in env.vars and n["referencedDecl"].get("kind") == "VarDecl":
                return self.lit(str(self.tr.global_const(self.cfile, nm)), ty)
            if nm in self.struct_fields and n["referencedDecl"].get("kind") != "EnumConstantDecl":
                return V(nm, Ty("ptr", 64, Ty("other")))
            return super().expr(n, env)
        if k == "MemberExpr":
            base = inner[0]
            while base["kind"] in ("ImplicitCastExpr", "ParenExpr"):
                base = base["inner"][0]
            if base["kind"] == "DeclRefExpr" and n.get("isArrow"):
                sn, fld = base["referencedDecl"]["name"], n["name"]
                key = f"{sn}.{fld}"
                if key in env.outs:                      # a field this function stored earlier
                    return V(env.outs[key], ty)
            if base["kind"] == "DeclRefExpr" and not n.get("isArrow") and \
                    base["referencedDecl"]["name"] in self.local_structs:
                key = f"{base['referencedDecl']['name']}.{n['name']}"
                if key not in env.vars:
                    raise Unsupported(f"read of {key} before it is given a value")
                return V(env.vars[key].s, ty)
            return super().expr(n, env)
        if k == "UnaryOperator" and n["opcode"] == "&":
            t0 = skip_parens(inner[0])
            if t0["kind"] == "DeclRefExpr" and t0["referencedDecl"]["name"] in self.local_structs:
                return V("@struct:" + t0["referencedDecl"]["name"], Ty("ptr", 64, Ty("other")))
        if k == "CallExpr":
            return self.call_expr(n, env)
        if k in ("ImplicitCastExpr", "CStyleCastExpr") and n.get("castKind") == "NullToPointer":
            return V("", ty, ptr=None)
        return super().expr(n, env)

    def call_expr(self, n, env, as_stmt=False):
        cn = callee_name(n)
        if cn in ("__builtin_saddll_overflow", "__builtin_saddl_overflow"):
            a, b, r = (self.expr(x, env) for x in n["inner"][1:])
            if r.addr_of is None:
                raise Unsupported(f"{cn} whose result is not stored in a local")
            t64 = Ty("i", 64)
            sa, sb = self.conv(a, t64).s, self.conv(b, t64).s
            cur = env.vars[r.addr_of]
            nm = env.fresh(r.addr_of, "Int")
            env.prelets.append(f"let {nm} := (sx 64 (({sa} + {sb}) % (2 ^ 64 : Int)).toNat)")
            env.vars[r.addr_of] = V(nm, cur.ty if cur.ty.kind == "i" else t64)
            return V(f"(({sa} + {sb} < -(2 ^ 63 : Int)) ∨ ({sa} + {sb} > (2 ^ 63 : Int) - 1))", Ty("i", 32), prop=True)
        if cn in CONSTANT_CALLS:
            return V(str(CONSTANT_CALLS[cn]), Ty("u", 1))
        if cn == "__builtin_bswap64":
            a = self.conv(self.expr(n["inner"][1], env), Ty("u", 64))
            return V(f"(bswap64 {paren(a.s)})", Ty("u", 64))
        args = [self.expr(a, env) for a in n["inner"][1:]]
        callee = self.tr.done.get(cn)
        if callee is None:
            raise Unsupported(f"call to {cn}, which is not translated")
        texts, outs, wshift, struct_pass, local_struct_pass = [], [], [], [], []
        if getattr(callee, "uses_fuel", False):
            texts.append("fuel")
        for a, prm in zip(args, callee.params):
            nm, pty = prm["name"], parse_type(prm["type"])
            if nm in callee.read_bufs:
                if a.ptr is None:
                    raise Unsupported("buffer argument that is not a parameter buffer")
                buf, off = a.ptr
                if isinstance(buf, str) and buf.startswith("@bytes:"):
                    loc = env.vars[buf[7:]]
                    texts.append(f"(fun i => ({loc.s} / 2 ^ (8 * ({off} + i))) % 256)")
                elif buf in self.write_bufs:
                    if buf not in self.rmw:
                        self.rmw.append(buf)
                    texts.append(f"(fun i => rdw {buf}0 {self.wexpr(env, buf)} ({off} + i))")
                else:
                    texts.append(buf if off == 0 else f"(fun i => {buf} ({off} + i))")
            elif nm in callee.out_params:
                if a.addr_of is None and a.ptr is not None and a.ptr[0] in self.out_params and a.ptr[1] == 0:
                    outs.append(("@out", a.ptr[0]))           # this function's own out-parameter handed on
                elif a.addr_of is None:
                    raise Unsupported("out-parameter argument that is not &local")
                else:
                    outs.append(a.addr_of)
            elif nm in callee.write_bufs:
                if a.ptr is None or a.ptr[0] not in self.write_bufs:
                    raise Unsupported("write-buffer argument that is not one of this function's write buffers")
                if nm in getattr(callee, "rmw", []):
                    buf, off = a.ptr
                    if buf not in self.rmw:
                        self.rmw.append(buf)
                    texts.append(f"(fun i => rdw {buf}0 {self.wexpr(env, buf)} ({off} + i))")
                wshift.append(a.ptr)
            elif nm in callee.struct_fields and a.s.startswith("@struct:"):
                # `&local_struct`: the callee reads the fields given so far and fills the ones it stores
                sname = a.s[8:]
                for fld, fty in callee.struct_fields[nm]:
                    key = f"{sname}.{fld}"
                    if key not in env.vars:
                        raise Unsupported(f"{cn} reads {key}, which has no value yet")
                    texts.append(self.conv(env.vars[key], fty).s)
                if nm in getattr(callee, "given", []):
                    texts.append("true")
                local_struct_pass.append((nm, sname))
            elif nm in callee.struct_fields:
                # this function's own struct out-parameter handed on to the callee's struct out-parameter
                if a.s and a.s in self.struct_fields and callee.struct_fields[nm] and \
                        not getattr(callee, "struct_outs", {}).get(nm):
                    # the callee only READS fields: hand it the values this function has stored in them so far
                    for fld, fty in callee.struct_fields[nm]:
                        key = f"{a.s}.{fld}"
                        cur = env.outs.get(key)
                        if cur is None or cur.startswith("?"):
                            raise Unsupported(f"{cn} reads {key}, which this function has not (unconditionally) stored")
                        texts.append(cur)
                    continue
                if not a.s or a.s not in self.struct_fields or callee.struct_fields[nm]:
                    raise Unsupported(f"struct argument in a call to {cn}")
                if nm in getattr(callee, "given", []):
                    if a.s not in self.given:
                        self.given.append(a.s)
                    texts.append(f"{lname(a.s)}_given")
                struct_pass.append((nm, a.s))
            elif pty.kind == "ptr":
                raise Unsupported("pointer argument of unknown role")
            else:
                texts.append(self.conv(a, pty).s)
        call = f"({callee.lean_name} {' '.join(texts)})" if texts else f"{callee.lean_name}"
        nouts = len(callee.out_keys()) if isinstance(callee, Fn2) else len(callee.out_params)
        ncomp = (1 if callee.ret.kind != "void" else 0) + nouts + len(callee.write_bufs)
        if getattr(callee, "uses_fuel", False):
            r = env.fresh("r", "?")
            env.pending.append((r, call))
            call = r
        elif ncomp > 1 or wshift:
            r = env.fresh("r", "?")
            env.prelets.append(f"let {r} := {call}")
            call = r

        def proj(j):
            if ncomp == 1:
                return call
            return call + ".2" * j + ("" if j == ncomp - 1 else ".1")

        base = 1 if callee.ret.kind != "void" else 0
        for j, local in enumerate(outs):
            if isinstance(local, tuple):
                prev = env.outs.get(local[1])
                prev_t = "none" if prev is None else (prev[1:] if prev.startswith("?") else f"some {prev}")
                nm2 = env.fresh(local[1] + "_opt", "Option Nat")
                env.prelets.append(f"let {nm2} := (({proj(base + j)}).orElse fun _ => {prev_t})")
                env.outs[local[1]] = "?" + nm2
                continue
            cur = env.vars[local]
            nm2 = env.fresh(local, lty(cur.ty))
            if cur.ty.kind == "i":                  # an out-parameter holds a bit pattern: reinterpret as signed
                curpat = self.conv(V(cur.s, cur.ty), Ty("u", cur.ty.width)).s
                env.prelets.append(f"let {nm2} := (sx {cur.ty.width} (({proj(base + j)}).getD {curpat}))")
            else:
                env.prelets.append(f"let {nm2} := (({proj(base + j)}).getD {cur.s})")
            env.vars[local] = V(nm2, cur.ty)
        for cnm, sname in local_struct_pass:
            keys = callee.out_keys()
            for fld in getattr(callee, "struct_outs", {}).get(cnm, []):
                idx = keys.index(f"{cnm}.{fld}")
                key = f"{sname}.{fld}"
                prev = env.vars.get(key)
                nm2 = env.fresh(f"{sname}_{fld}", "Nat")
                # `none` = the callee did not store the field on this path: it keeps its value (a field that had none
                # reads as 0 here; reading it would be an uninitialised read in the C)
                env.prelets.append(f"let {nm2} := (({proj(base + idx)}).getD {prev.s if prev is not None else '0'})")
                env.vars[key] = V(nm2, Ty("u", 64))
        for cnm, own in struct_pass:
            keys = callee.out_keys()
            for fld in callee.struct_outs.get(cnm, []):
                idx = keys.index(f"{cnm}.{fld}")
                self.struct_outs.setdefault(own, [])
                if fld not in self.struct_outs[own]:
                    self.struct_outs[own].append(fld)
                key = f"{own}.{fld}"
                prev = env.outs.get(key)
                prev_t = "none" if prev is None else (prev[1:] if prev.startswith("?") else f"some {prev}")
                nm2 = env.fresh(f"{own}_{fld}_opt", "Option Nat")
                env.prelets.append(f"let {nm2} := (({proj(base + idx)}).orElse fun _ => {prev_t})")
                env.outs[key] = "?" + nm2
        for j, (buf, off) in enumerate(wshift):
            w = env.writes.setdefault(buf, W())
            cur = w.expr()
            nm2 = env.fresh(f"{buf}_w", LW)
            sh = proj(base + nouts + j)
            sh = sh if (isinstance(off, int) and off == 0) else f"shiftW {paren(str(off))} {paren(sh)}"
            env.prelets.append(f"let {nm2} := {cur} ++ {sh}" if cur != "[]" else f"let {nm2} := {sh}")
            env.writes[buf] = W(nm2)
        if callee.ret.kind == "void":
            return V("()", Ty("void"))
        return V(proj(0), callee.ret)

    def arith(self, op, a, b, ty):
        if ty.kind == "i" and op in ("&", "|", "^"):
            ca, cb = self.conv(a, ty), self.conv(b, ty)

            def nat_of(t):
                m = re.fullmatch(r"\(\((.*) : Nat\) : Int\)", t)
                if m and balanced("(" + m.group(1) + ")"):
                    return m.group(1)
                m = re.fullmatch(r"\((\d+) : Int\)", t)
                if m:
                    return m.group(1)
                return None

            na, nb = nat_of(ca.s), nat_of(cb.s)
            if na is not None and nb is not None:
                if op == "&":
                    for x, y in ((na, nb), (nb, na)):
                        if re.fullmatch(r"\d+", y) and (int(y) + 1) & int(y) == 0 and int(y) > 0:
                            return V(f"((({x} % {int(y) + 1}) : Nat) : Int)", ty)
                sym = {"&": "&&&", "|": "|||", "^": "^^^"}[op]
                return V(f"((({na} {sym} {nb}) : Nat) : Int)", ty)
            try:
                return super().arith(op, a, b, ty)
            except Unsupported:
                sym = {"&": "&&&", "|": "|||", "^": "^^^"}[op]
                return V(f"(ibit2 {ty.width} (· {sym} ·) {ca.s} {cb.s})", ty)
        return super().arith(op, a, b, ty)

    # ------------------------------------------------------------------ statements
    def ret_tuple(self, env, retv):
        comps = []
        if self.ret.kind != "void":
            if retv is None:
                raise Unsupported("fall off the end of a non-void function")
            comps.append(self.conv(retv, self.ret).s)
        for o in self.out_keys():
            comps.append(f"some {env.outs[o]}" if o in env.outs and not env.outs[o].startswith("?") else
                         (env.outs[o][1:] if o in env.outs else "none"))
        for wbuf in self.write_bufs:
            comps.append(self.wexpr(env, wbuf))
        if not comps:
            comps = ["()"]
        return "(" + ", ".join(comps) + ")" if len(comps) > 1 else comps[0]

    def stmt_wrap(self, env, ctx, body_fn):
        """run body_fn (which translates one statement and returns the text that follows it), with the calls to
        fuel-taking callees and the multi-result calls met in its expressions bound in front of it"""
        saved_p, saved_l = getattr(env, "pending", None), getattr(env, "prelets", None)
        env.pending, env.prelets = [], []
        text = body_fn()
        pend, lets = env.pending, env.prelets
        env.pending, env.prelets = saved_p, saved_l
        return pend, lets, text

    def block(self, stmts, env, ctx):
        """relative-indented Lean text of the statement list followed by whatever ctx says comes after it"""
        if not stmts:
            return self.fall_off(env, ctx)
        s, rest = stmts[0], stmts[1:]
        if isinstance(s, tuple):
            if s[0] == "pop":
                for k2, v2 in s[1].items():
                    if v2 is None:
                        env.vars.pop(k2, None)
                    else:
                        env.vars[k2] = v2
                return self.block(rest, env, ctx)
            if s[0] == "text":
                return s[1](env, ctx)
        k = s["kind"]
        inner = s.get("inner", [])
        if k == "CompoundStmt":
            saved = {}
            for c in inner:
                if c["kind"] == "DeclStmt":
                    for d in c.get("inner", []):
                        if d["kind"] == "VarDecl":
                            saved[d["name"]] = env.vars.get(d["name"])
            return self.block(list(inner) + ([("pop", saved)] if saved and rest else []) + rest, env, ctx)
        if k == "NullStmt":
            return self.block(rest, env, ctx)
        if k == "DoStmt" and const_int(self.expr_text_safe(inner[1])) == 0 and not loop_escape(inner[0]):
            return self.block([inner[0]] + rest, env, ctx)          # `do { … } while (0)`: the body, once
        if k in LOOPS:
            return self.loop(s, rest, env, ctx)
        if k == "IfStmt":
            return self.if_stmt(s, rest, env, ctx)
        if k == "ReturnStmt":
            env.pending, env.prelets = [], []
            t = ctx_ret(self, env, ctx, self.expr(inner[0], env) if inner else None)
            return self.bind(env, ctx, env.pending, env.prelets, t)
        if k == "BreakStmt":
            if ctx.kind != "loop":
                raise Unsupported("break outside a loop")
            return f".done {ctx.state_tuple(env)}"
        if k == "ContinueStmt":
            if ctx.kind != "loop":
                raise Unsupported("continue outside a loop")
            return ctx.cont(env)
        if k == "AttributedStmt":
            return self.block([c for c in inner if c.get("kind", "").endswith("Stmt")] + rest, env, ctx)
        if k == "SwitchStmt":
            d = self.desugar_switch(s)
            if d is not None:
                return self.block([d] + rest, env, ctx)
            return self.switch(s, rest, env, ctx)
        # simple statements: lets, then the rest
        env.pending, env.prelets = [], []
        text = self.simple(s, env)
        pend, lets = env.pending, env.prelets
        env.pending, env.prelets = [], []
        follow = self.block(rest, env, ctx)
        return self.bind(env, ctx, pend, lets, (text + follow) if text else follow, pre_text=True)

    def expr_text_safe(self, n):
        n = skip_casts(n)
        if n.get("kind") == "IntegerLiteral":
            return str(n["value"])
        return "?"

    def bind(self, env, ctx, pend, lets, text, pre_text=False):
        """prefix `text` with the bindings its expressions asked for"""
        # prelets were produced in evaluation order and may refer to pending results: emit pendings first, in order
        out = text
        if lets:
            out = "\n".join(lets) + "\n" + out
        for r, call in reversed(pend):
            out = f"match {call} with\n| none => {ctx.nofuel()}\n| some {r} =>\n{I(out)}"
        return out

    def simple(self, s, env):
        """translation of a statement without control flow: returns let-lines (each ending in newline)"""
        k = s["kind"]
        inner = s.get("inner", [])
        if k == "DeclStmt":
            out = ""
            for d in inner:
                if d["kind"] != "VarDecl":
                    continue
                ty = parse_type(d["type"])
                init = [c for c in d.get("inner", []) if "kind" in c and c["kind"].endswith(("Expr", "Literal", "Operator"))]
                if ty.kind == "ptr":
                    v = self.expr(init[0], env) if init else None
                    if v is not None and v.ptr is None and v.addr_of is not None and ty.elem.kind == "u" and ty.elem.width == 8:
                        env.vars[d["name"]] = V("", ty, ptr=("@bytes:" + v.addr_of, 0))    # byte view of a local
                        continue
                    if v is None or v.ptr is None:
                        if not init or skip_casts(init[0]).get("kind") in ("GNUNullExpr", "IntegerLiteral"):
                            env.vars[d["name"]] = V("", ty, ptr=None)       # = NULL, assigned later
                            continue
                        raise Unsupported("local pointer that is not derived from a parameter buffer")
                    env.vars[d["name"]] = self.bind_ptr(env, d["name"], ty, v.ptr)
                    out += self.flush_lets(env)
                    continue
                marr = re.fullmatch(r"(.+?)\s*\[(\d+)\]", d["type"].get("qualType", ""))
                if ty.kind not in "ui" and marr and parse_qual(marr.group(1)) is not None and \
                        parse_qual(marr.group(1)).kind in "ui" and not init:
                    # a local array: a private buffer with its own store list (reads of elements never stored are 0:
                    # reading them would be an uninitialised read in the C)
                    key = "@arr:" + d["name"]
                    env.vars[d["name"]] = V("", Ty("ptr", 64, parse_qual(marr.group(1))), ptr=(key, 0))
                    env.writes[key] = W()
                    if key not in self.local_arrays:
                        self.local_arrays.append(key)
                    continue
                if ty.kind == "other" and not init and not marr and "*" not in d["type"].get("qualType", "") \
                        and "[" not in d["type"].get("qualType", ""):
                    # a local struct (`T meta;`): its fields are locals named `meta.field`, filled by a callee that is
                    # handed `&meta` or by `meta.field = e`; a field read before it was given a value is rejected
                    self.local_structs.add(d["name"])
                    continue
                if ty.kind not in "ui":
                    raise Unsupported(f"local of type {d['type']['qualType']}")
                if init:
                    v = self.conv(self.expr(init[0], env), ty)
                    out += self.flush_lets(env)
                    nm = env.fresh(d["name"], lty(ty))
                    out += f"let {nm} := {v.s}\n"
                    env.vars[d["name"]] = V(nm, ty)
                else:
                    env.vars[d["name"]] = V("0", ty)
            return out
        if k == "BinaryOperator" and s.get("opcode") == "=":
            val = self.expr(inner[1], env)
            pre = self.flush_lets(env)
            return pre + self.assign(inner[0], val, env)
        if k == "UnaryOperator" and s.get("opcode") in ("++", "--"):
            tgt = skip_parens(inner[0])
            if tgt["kind"] != "DeclRefExpr":
                raise Unsupported("++/-- of a non-variable")
            cur = self.expr(tgt, env)
            d = 1 if s["opcode"] == "++" else -1
            if cur.ptr is not None:
                buf, off = cur.ptr
                nm = tgt["referencedDecl"]["name"]
                env.vars[nm] = self.bind_ptr(env, nm, cur.ty, (buf, self.padd(off, 1, d)))
                return self.flush_lets(env)
            one = self.lit("1", cur.ty)
            val = self.arith("+" if d == 1 else "-", cur, one, cur.ty)
            return self.assign(tgt, val, env)
        if k == "CompoundAssignOperator":
            op = s["opcode"][:-1]
            cur = self.expr(inner[0], env)
            if cur.ptr is not None:
                if op not in "+-":
                    raise Unsupported("pointer update")
                rhs = self.expr(inner[1], env)
                pre = self.flush_lets(env)
                buf, off = cur.ptr
                tgt = skip_parens(inner[0])
                nm = tgt["referencedDecl"]["name"]
                env.vars[nm] = self.bind_ptr(env, nm, cur.ty, (buf, self.padd(off, self.offset_of(rhs), 1 if op == "+" else -1)))
                return pre + self.flush_lets(env)
            ctype = parse_type(s["computeResultType"]) if "computeResultType" in s else cur.ty
            rhs = self.expr(inner[1], env)
            pre = self.flush_lets(env)
            val = self.arith(op, cur, rhs, ctype)
            return pre + self.assign(inner[0], val, env)
        if k == "CallExpr":
            cn = callee_name(s)
            if cn in ("assert", "__assert_fail", "__builtin_unreachable"):
                return ""          # __builtin_unreachable(): reaching it is UB, assumed absent
            if cn in ("memcpy", "__builtin_memcpy"):
                args = s["inner"][1:]
                dst, src = self.expr(args[0], env), self.expr(args[1], env)
                # `memcpy(&local, p, sizeof(T))` / `memcpy(p, &local, sizeof(T))` with `T *p` and `T local`: a copy of one
                # whole element between objects of the same size = `local = *p` / `*p = local`
                ety_d, ety_s = self.pointee_before_cast(args[0]), self.pointee_before_cast(args[1])
                nbv = None
                try:
                    nbv = const_int(self.expr(args[2], env).s)
                except Unsupported:
                    nbv = None
                if nbv is not None and ety_d is not None and ety_s is not None and ety_d.kind in "ui" and ety_s.kind in "ui" \
                        and ety_d.width == ety_s.width == 8 * nbv and nbv > 1:
                    if dst.addr_of is not None and dst.ptr is None and src.ptr is not None \
                            and not str(src.ptr[0]).startswith("@"):
                        self.note_elem(src.ptr[0], ety_s.width)
                        val = self.read_at(env, src.ptr[0], src.ptr[1], Ty("u", ety_s.width))
                        pre = self.flush_lets(env)
                        cur = env.vars[dst.addr_of]
                        nm = env.fresh(dst.addr_of, lty(cur.ty))
                        env.vars[dst.addr_of] = V(nm, cur.ty)
                        return pre + f"let {nm} : Nat := {val.s}\n"
                    if src.addr_of is not None and src.ptr is None and dst.ptr is not None \
                            and not str(dst.ptr[0]).startswith("@") and dst.ptr[0] in self.write_bufs:
                        self.note_elem(dst.ptr[0], ety_d.width)
                        loc = env.vars[src.addr_of]
                        return self.flush_lets(env) + self.store_at(env, dst.ptr[0], dst.ptr[1], V(loc.s, Ty("u", ety_d.width)),
                                                                    Ty("u", ety_d.width))
                if (dst.ptr is not None or dst.addr_of is not None) and (src.ptr is not None or src.addr_of is not None) \
                        and not (dst.ptr is not None and dst.ptr[0] in self.out_params and src.addr_of is not None):
                    if dst.addr_of is not None and dst.ptr is None:
                        dst = V("", dst.ty, ptr=("@bytes:" + dst.addr_of, 0))
                    if src.addr_of is not None and src.ptr is None:
                        src = V("", src.ty, ptr=("@bytes:" + src.addr_of, 0))
                if dst.ptr is not None and src.ptr is not None:
                    # byte-wise copy of a constant number of bytes between byte buffers / byte views
                    nb = self.expr(args[2], env)
                    cnt = const_int(nb.s)
                    if cnt is None or cnt > 64:
                        raise Unsupported("memcpy with a non-constant length")
                    u8 = Ty("u", 8)
                    out = ""
                    vals = [self.read_at(env, src.ptr[0], self.padd(src.ptr[1], i), u8) for i in range(cnt)]
                    out += self.flush_lets(env)
                    for i, bv in enumerate(vals):
                        out += self.store_at(env, dst.ptr[0], self.padd(dst.ptr[1], i), bv, u8)
                    return out
                if dst.ptr is None or src.addr_of is None or dst.ptr[0] not in self.out_params:
                    raise Unsupported("memcpy that is not `memcpy(out_param, &local, sizeof local)`")
                loc = env.vars[src.addr_of]
                new = env.fresh(dst.ptr[0])
                env.outs[dst.ptr[0]] = new
                return f"let {new} := {loc.s}\n"
            if self.tr.done.get(cn) is not None:
                self.call_expr(s, env)
                return self.flush_lets(env)
            return self.inline_call(s, env)
        if k in ("ImplicitCastExpr", "CStyleCastExpr", "ParenExpr"):
            if inner[-1]["kind"] == "CallExpr":
                return self.simple(inner[-1], env)
            return ""
        raise Unsupported(f"statement kind {k}")

    def pointee_before_cast(self, n):
        """element type of a pointer argument as written, before the implicit conversion to `void *`"""
        while isinstance(n, dict):
            ty = parse_type(n["type"]) if "type" in n else None
            if ty is not None and ty.kind == "ptr" and ty.elem is not None and ty.elem.kind in "ui":
                return ty.elem
            if n.get("kind") in ("ImplicitCastExpr", "CStyleCastExpr", "ParenExpr") and n.get("inner"):
                n = n["inner"][-1]
            else:
                return None
        return None

    def note_elem(self, buf, width):
        """a parameter buffer is modelled as a function from element index to element: every access to it must use one
        element width"""
        have = self.elem_width.setdefault(buf, width)
        if have != width:
            raise Unsupported(f"buffer {buf} accessed with element widths {have} and {width}")

    def bind_ptr(self, env, cname, ty, ptr):
        """a pointer variable: symbolic offsets are bound to a name so that they can be loop state"""
        buf, off = ptr
        if isinstance(off, int):
            return V("", ty, ptr=(buf, off))
        nm = env.fresh(cname + "_o")
        env.prelets.append(f"let {nm} := {off}")
        return V("", ty, ptr=(buf, nm))

    def flush_lets(self, env):
        if not env.prelets:
            return ""
        t = "\n".join(env.prelets) + "\n"
        env.prelets[:] = []
        return t

    def inline_call(self, s, env):
        """`static void` helper without loops/returns: inlined (as in c2lean)"""
        cn = callee_name(s)
        callee = Fn2(self.tr, self.cfile, cn)
        if callee.ret.kind != "void" or any(has_kind(callee.body, x) for x in ("ReturnStmt", "ContinueStmt", "GotoStmt")) \
                or self.has_real_loop(callee.body):
            raise Unsupported(f"call to untranslated {cn} with control flow / result")
        pre = ""
        saved = {}
        for p, a in zip(callee.params, s["inner"][1:]):
            v = self.expr(a, env)
            pre += self.flush_lets(env)
            pty = parse_type(p["type"])
            saved[p["name"]] = env.vars.get(p["name"])
            if pty.kind == "ptr":
                if v.ptr is None:
                    raise Unsupported("pointer argument that is not a parameter buffer")
                env.vars[p["name"]] = V("", pty, ptr=v.ptr)
            else:
                cv = self.conv(v, pty)
                nm = env.fresh(p["name"], lty(pty))
                pre += f"let {nm} := {cv.s}\n"
                env.vars[p["name"]] = V(nm, pty)
        for c in callee.body.get("inner", []):
            pre += self.simple_or_join(c, env)
        for k2, v2 in saved.items():
            if v2 is None:
                env.vars.pop(k2, None)
            else:
                env.vars[k2] = v2
        return pre

    def desugar_switch(self, s):
        """a switch whose `break`s all sit at the top level of its body becomes a chain of `if (e == k)` (the controlling
        expression must be free of side effects: it is evaluated once per arm)"""
        inner = s["inner"]
        items = []
        for it in self.flatten_switch(inner[-1]):
            # `case X: { …; break; }` — a brace block that ends the arm: its statements are the arm's statements
            if it[0] == "stmt" and it[1].get("kind") == "CompoundStmt" and \
                    any(c.get("kind") == "BreakStmt" for c in it[1].get("inner", []) or []):
                items += [("stmt", c) for c in it[1]["inner"]]
            else:
                items.append(it)

        def nested_break(n, top=True):
            if not isinstance(n, dict):
                return False
            if n.get("kind") == "BreakStmt":
                return not top
            if n.get("kind") in LOOPS + ("SwitchStmt",):
                return False
            return any(nested_break(c, False) for c in n.get("inner", []) or [])

        if any(it[0] == "stmt" and nested_break(it[1]) for it in items):
            return None
        cond = inner[0]

        def code_from(pos):
            seq = []
            for it in items[pos:]:
                if it[0] != "stmt":
                    continue
                if it[1]["kind"] == "BreakStmt":
                    break
                seq.append(it[1])
            return {"kind": "CompoundStmt", "inner": seq}

        arms, default = [], None
        for pos, it in enumerate(items):
            if it[0] == "case":
                arms.append((it[1], pos))
            elif it[0] == "default":
                default = pos
        node = code_from(default) if default is not None else {"kind": "CompoundStmt", "inner": []}
        for val, pos in reversed(arms):
            c = {"kind": "BinaryOperator", "opcode": "==", "type": {"qualType": "int"},
                 "inner": [cond, {"kind": "IntegerLiteral", "value": str(val), "type": cond.get("type", {"qualType": "int"})}]}
            node = {"kind": "IfStmt", "inner": [c, code_from(pos), node]}
        return node

    def simple_or_join(self, c, env):
        if c["kind"] == "IfStmt":
            return self.join_if(c, env)
        if c["kind"] == "SwitchStmt":
            d = self.desugar_switch(c)
            if d is None:
                raise Unsupported("switch with nested break inside a joined branch")
            return self.simple_or_join(d, env)
        if c["kind"] == "AttributedStmt":
            return "".join(self.simple_or_join(x, env) for x in c.get("inner", []) if x.get("kind", "").endswith("Stmt"))
        if c["kind"] == "CompoundStmt":
            return "".join(self.simple_or_join(x, env) for x in c.get("inner", []))
        if c["kind"] == "NullStmt":
            return ""
        t = self.simple(c, env)
        if env.pending:
            raise Unsupported("fuel-taking call inside an inlined helper or joined branch")
        return t

    def assign(self, lhs, val, env):
        lhs = skip_parens(lhs)
        if lhs["kind"] == "DeclRefExpr":
            nm = lhs["referencedDecl"]["name"]
            ty = parse_type(lhs["type"])
            if ty.kind == "ptr":
                if val.ptr is None:
                    raise Unsupported("pointer assigned from a non-buffer")
                env.vars[nm] = self.bind_ptr(env, nm, ty, val.ptr)
                return self.flush_lets(env)
            v = self.conv(val, ty)
            new = env.fresh(nm, lty(ty))
            env.vars[nm] = V(new, ty)
            return f"let {new} := {v.s}\n"
        if lhs["kind"] == "ArraySubscriptExpr" or (lhs["kind"] == "UnaryOperator" and lhs.get("opcode") == "*"):
            if lhs["kind"] == "ArraySubscriptExpr":
                base, idx = self.expr(lhs["inner"][0], env), self.expr(lhs["inner"][1], env)
                if base.ptr is None:
                    raise Unsupported("store through a computed pointer")
                buf, off = base.ptr
                pos = self.padd(off, self.offset_of(idx))
            else:
                p = self.expr(lhs["inner"][0], env)
                if p.ptr is None:
                    raise Unsupported("store through a computed pointer")
                buf, pos = p.ptr
            ty = parse_type(lhs["type"])
            v = self.conv(val, ty)
            if ty.kind == "i":                      # memory holds the two's-complement bit pattern
                v = self.conv(v, Ty("u", ty.width))
            pre = self.flush_lets(env)
            if isinstance(buf, str) and buf.startswith("@bytes:"):
                name = buf[7:]
                cur = env.vars[name]
                new = env.fresh(name, lty(cur.ty))
                env.vars[name] = V(new, cur.ty)
                return pre + f"let {new} : Nat := setByte {cur.s} {paren(str(pos))} {paren(v.s)}\n"
            if buf in self.out_params:
                new = env.fresh(buf)
                env.outs[buf] = new
                return pre + f"let {new} := {v.s}\n"
            if buf not in self.write_bufs and not (isinstance(buf, str) and buf.startswith("@arr:")):
                raise Unsupported(f"store into {buf}, which is not a write buffer")
            new = env.fresh(f"{buf.replace('@arr:', '')}_b")
            w = env.writes.setdefault(buf, W())
            w.items.append((pos, new))
            return pre + f"let {new} : Nat := {v.s}\n"
        if lhs["kind"] == "MemberExpr" and lhs.get("isArrow"):
            base = lhs["inner"][0]
            while base["kind"] in ("ImplicitCastExpr", "ParenExpr"):
                base = base["inner"][0]
            sn = base["referencedDecl"]["name"]
            if sn not in self.struct_outs:
                raise Unsupported("store into a struct that is not an out-parameter")
            ty = parse_type(lhs["type"])
            v = self.conv(val, ty)
            new = env.fresh(f"{sn}_{lhs['name']}")
            env.outs[f"{sn}.{lhs['name']}"] = new
            return self.flush_lets(env) + f"let {new} := {v.s}\n"
        raise Unsupported(f"assignment to {lhs['kind']}")

    def store_at(self, env, buf, pos, val, ty):
        v = self.conv(val, ty)
        if ty.kind == "i":
            v = self.conv(v, Ty("u", ty.width))
        if isinstance(buf, str) and buf.startswith("@bytes:"):
            name = buf[7:]
            cur = env.vars[name]
            new = env.fresh(name, lty(cur.ty))
            env.vars[name] = V(new, cur.ty)
            return f"let {new} : Nat := setByte {cur.s} {paren(str(pos))} {paren(v.s)}\n"
        if buf not in self.write_bufs and not (isinstance(buf, str) and buf.startswith("@arr:")):
            raise Unsupported(f"store into {buf}, which is not a write buffer")
        if ty.kind in "ui" and not (isinstance(buf, str) and buf.startswith("@arr:")):
            self.note_elem(buf, ty.width)
        new = env.fresh(f"{buf.replace('@arr:', '')}_b")
        w = env.writes.setdefault(buf, W())
        w.items.append((pos, new))
        return f"let {new} : Nat := {v.s}\n"

    def fall_off(self, env, ctx):
        if ctx.kind == "loop":
            return ctx.cont(env)
        if ctx.kind == "join":
            return ctx.join_tuple(env)
        return ctx.ret(self.ret_tuple(env, None))

    # ------------------------------------------------------------------ if
    def if_stmt(self, s, rest, env, ctx):
        inner = s["inner"]
        then = inner[1]
        els = inner[2] if len(inner) > 2 else None
        esc = ("ReturnStmt", "BreakStmt", "ContinueStmt", "GotoStmt")
        escapes = any(has_kind(then, x) for x in esc) or (els is not None and any(has_kind(els, x) for x in esc)) \
            or self.has_real_loop(then) or (els is not None and self.has_real_loop(els)) \
            or self.calls_fuel(then) or (els is not None and self.calls_fuel(els))
        if self.const_cond(inner[0]) is not None:
            live = then if self.const_cond(inner[0]) != 0 else els
            return self.block(([live] if live else []) + rest, env, ctx)
        if not escapes:
            env.pending, env.prelets = [], []
            t = self.join_if(s, env)
            pend = env.pending
            env.pending = []
            return self.bind(env, ctx, pend, [], t + self.block(rest, env, ctx))
        env.pending, env.prelets = [], []
        cond = self.expr(inner[0], env)
        pend, lets = env.pending, env.prelets
        env.pending, env.prelets = [], []
        if not cond.prop and const_int(cond.s) is not None and not pend and not lets:
            # a compile-time constant condition (platform fact): only the live branch is translated
            live = then if const_int(cond.s) != 0 else els
            return self.block(([live] if live else []) + rest, env, ctx)
        c = self.nz(cond)
        t = self.block([then] + rest, env.copy(), ctx)
        e = self.block(([els] if els else []) + rest, env.copy(), ctx)
        return self.bind(env, ctx, pend, lets, f"if {c} then\n{I(t)}\nelse\n{I(e)}")

    def const_cond(self, n):
        n = skip_casts(n)
        if n.get("kind") == "CallExpr" and callee_name(n) in CONSTANT_CALLS:
            return CONSTANT_CALLS[callee_name(n)]
        return None

    def join_if(self, s, env):
        """if (… else if … else) without escapes: every arm is evaluated to the tuple of what any of them changes.
        An `else` that is itself a single `if` continues the same chain (one `let`, not a nested one), provided its
        condition needs no bindings of its own."""
        arms = []          # (condition text, env after the arm, lets of the arm)
        pre = ""
        node = s
        local = set()
        first = True
        while True:
            inner = node["inner"]
            saved_lets = env.prelets
            env.prelets = []
            cond = self.expr(inner[0], env)
            if first:
                pre = "\n".join(saved_lets + env.prelets)
                pre = pre + "\n" if pre else ""
                env.prelets = []
            elif env.prelets or env.pending:
                raise Unsupported("else-if condition with side effects inside a joined chain")
            else:
                env.prelets = saved_lets
            first = False
            c = self.nz(cond)
            then = inner[1]
            els = inner[2] if len(inner) > 2 else None
            e1 = env.copy()
            e1.pending, e1.prelets = [], []
            t1 = self.simple_or_join(then, e1)
            local |= set(declared_names(then))
            arms.append((c, e1, t1))
            nxt = els
            while nxt is not None and nxt.get("kind") == "CompoundStmt" and len(nxt.get("inner", [])) == 1:
                nxt = nxt["inner"][0]
            if nxt is not None and nxt.get("kind") == "IfStmt" and self.const_cond(nxt["inner"][0]) is None \
                    and self.pure_cond(nxt["inner"][0]):
                node = nxt
                continue
            e2 = env.copy()
            e2.pending, e2.prelets = [], []
            t2 = self.simple_or_join(els, e2) if els is not None else ""
            if els is not None:
                local |= set(declared_names(els))
            arms.append((None, e2, t2))
            break
        envs = [a[1] for a in arms]
        changed = []       # (kind, key)
        for nm in env.vars:
            if nm in local:
                continue
            o = env.vars[nm]
            vs = [e.vars.get(nm) for e in envs]
            if any(v is None for v in vs):
                continue
            if any((v.s, v.ptr) != (o.s, o.ptr) for v in vs):
                changed.append(("var", nm))
        for key in self.out_keys():
            if any(e.outs.get(key) != env.outs.get(key) for e in envs):
                changed.append(("out", key))
        for buf in self.write_bufs + self.local_arrays:
            if any(e.writes.get(buf, W()).expr() != env.writes.get(buf, W()).expr() for e in envs):
                changed.append(("w", buf))
        if not changed:
            return pre

        def val(e, kind, key):
            if kind == "var":
                v = e.vars[key]
                if v.ptr is not None:
                    return str(v.ptr[1])
                return v.s
            if kind == "out":
                o = e.outs.get(key)
                if o is None:
                    return "none"
                return o[1:] if o.startswith("?") else f"some {o}"
            return e.writes.get(key, W()).expr()

        names = []
        for kind, key in changed:
            if kind == "var":
                names.append(env.fresh(key + ("_o" if env.vars[key].ptr is not None else ""), "Nat" if env.vars[key].ptr is not None else lty(env.vars[key].ty)))
            elif kind == "out":
                names.append(env.fresh(key.replace(".", "_") + "_opt", "Option Nat"))
            else:
                names.append(env.fresh(key.replace("@arr:", "") + "_w", LW))
        tup = lambda e: ("(" + ", ".join(val(e, k_, key) for k_, key in changed) + ")") if len(changed) > 1 \
            else val(e, changed[0][0], changed[0][1])  # noqa: E731
        pat = "(" + ", ".join(names) + ")" if len(names) > 1 else names[0]
        tys = " × ".join(env.types.get(nm, "Nat") for nm in names)
        text = f"let {pat} : {tys} := "
        hoist = len(arms) > 6      # long chains (switch tables): every arm becomes a definition of its own — one huge
        #                            term is elaborated in super-linear time
        known = self.known_names(env, [n_ for n_ in env.types if n_ not in names]) if hoist else {}
        for k_, (c, e, t) in enumerate(arms):
            body = t + tup(e)
            if hoist and t.strip():
                self.narms = getattr(self, "narms", 0) + 1
                aname = f"{self.lean_name}_arm{self.narms}"
                caps = [nm for nm in known if re.search(r"(?<![\w.'])" + re.escape(nm) + r"(?![\w'])", body)]
                bound = set()
                for grp in re.findall(r"let \(?([\w', ]+?)\)? *:", body):
                    bound |= {x.strip() for x in grp.split(",")}
                caps = [nm for nm in caps if nm not in bound and known[nm] != "?"]
                capsig = " ".join(f"({nm} : {known[nm]})" for nm in caps)
                self.loops.append(f"/-- arm {self.narms} of a switch / else-if chain of `{self.name}` -/\n"
                                  f"def {aname} {capsig} : {tys} :=\n{I(body)}\n")
                body = f"{aname} {' '.join(caps)}".strip()
            if c is not None:
                text += ("if " if k_ == 0 else "  else if ") + f"{c} then\n{I(body, 4)}\n"
            else:
                text += f"  else\n{I(body, 4)}\n"
        e1 = arms[0][1]
        for (kind, key), nm in zip(changed, names):
            if kind == "var":
                o = env.vars[key]
                if o.ptr is not None or e1.vars[key].ptr is not None:
                    pb = (e1.vars[key].ptr or o.ptr)[0]
                    env.vars[key] = V("", o.ty, ptr=(pb, nm))
                else:
                    env.vars[key] = V(nm, o.ty)
            elif kind == "out":
                env.outs[key] = "?" + nm            # an Option-valued name
            else:
                env.writes[key] = W(nm)
        return pre + text

    def pure_cond(self, n):
        """no assignment / increment / call inside the expression"""
        if not isinstance(n, dict):
            return True
        k = n.get("kind")
        if k in ("CallExpr", "CompoundAssignOperator") or (k == "BinaryOperator" and n.get("opcode") == "=") or \
                (k == "UnaryOperator" and n.get("opcode") in ("++", "--")):
            return False
        return all(self.pure_cond(c) for c in n.get("inner", []) or [])

    # ------------------------------------------------------------------ switch (escaping form only)
    def switch(self, s, rest, env, ctx):
        inner = s["inner"]
        env.pending, env.prelets = [], []
        cond = self.expr(inner[0], env)
        pend, lets = env.pending, env.prelets
        env.pending, env.prelets = [], []
        items = self.flatten_switch(inner[-1])
        nm = env.fresh("sw", lty(cond.ty))
        out = f"let {nm} := {cond.s}\n"
        labels = [(i, it) for i, it in enumerate(items) if it[0] != "stmt"]

        def code_from(pos):
            seq = []
            for it in items[pos:]:
                if it[0] != "stmt":
                    continue
                if it[1]["kind"] == "BreakStmt":
                    return seq + rest
                seq.append(it[1])
            return seq + rest

        arms, default = [], None
        for pos, it in labels:
            if it[0] == "case":
                arms.append((it[1], pos))
            else:
                default = pos
        text = ""
        tail = self.block(code_from(default) if default is not None else rest, env.copy(), ctx)
        for val, pos in reversed(arms):
            lit = f"({val} : Int)" if cond.ty.kind == "i" else val
            tail = f"if {nm} = {lit} then\n{I(self.block(code_from(pos), env.copy(), ctx))}\nelse\n{I(tail)}"
        text = out + tail
        return self.bind(env, ctx, pend, lets, text)

    # ------------------------------------------------------------------ loops
    def loop(self, s, rest, env, ctx):
        k = s["kind"]
        inner = s["inner"]
        pre = ""
        saved = {}
        if k == "ForStmt":
            init, cond, inc, body = inner[0], inner[2], inner[3], inner[4]
            if init.get("kind"):
                for nm in declared_names(init):
                    saved[nm] = env.vars.get(nm)
                env.pending, env.prelets = [], []
                if init["kind"] == "BinaryOperator" and init.get("opcode") == ",":
                    pre = self.comma(init, env)
                else:
                    pre = self.simple(init, env) if init["kind"] != "CompoundStmt" else self.simple_or_join(init, env)
                if env.pending:
                    raise Unsupported("fuel-taking call in a for-initialiser")
        elif k == "WhileStmt":
            cond, inc, body = inner[0], {}, inner[1]
        else:
            body, cond, inc = inner[0], inner[1], {}
        self.nloops += 1
        lnum = self.nloops
        lname_ = f"{self.lean_name}_loop{lnum}"
        # state: variables assigned in the loop that exist outside it, stores and out-params touched in it
        scope = {"inner": [x for x in (cond, inc, body) if x.get("kind")]}
        local = set(declared_names(body))
        st_vars = [nm for nm in assigned_names(scope) if nm in env.vars and nm not in local]
        touched_w, touched_o = self.touched(scope)
        state = [("var", nm) for nm in st_vars] + [("w", b) for b in touched_w] + [("out", o) for o in touched_o]
        before = list(env.types.keys())
        lenv = env.copy()
        names, types, inits = [], [], []
        for kind, key in state:
            if kind == "var":
                o = env.vars[key]
                if o.ptr is not None or o.ty.kind == "ptr":
                    if o.ptr is None:
                        raise Unsupported(f"pointer {key} enters a loop unset")
                    nm = lenv.fresh(key + "_o")
                    lenv.vars[key] = V("", o.ty, ptr=(o.ptr[0], nm))
                    inits.append(str(o.ptr[1]))
                    types.append("Nat")
                else:
                    nm = lenv.fresh(key, lty(o.ty))
                    lenv.vars[key] = V(nm, o.ty)
                    inits.append(o.s)
                    types.append("Int" if o.ty.kind == "i" else "Nat")
            elif kind == "w":
                nm = lenv.fresh(key.replace("@arr:", "") + "_w", LW)
                lenv.writes[key] = W(nm)
                inits.append(env.writes.get(key, W()).expr())
                types.append("List (Nat × Nat)")
            else:
                nm = lenv.fresh(key.replace(".", "_") + "_opt", "Option Nat")
                lenv.outs[key] = "?" + nm
                o = env.outs.get(key)
                inits.append("none" if o is None else (o[1:] if o.startswith("?") else f"some {o}"))
                types.append("Option Nat")
            names.append(nm)
        if not state:
            names, types, inits = ["_u"], ["Unit"], ["()"]
        sigma = " × ".join(types)
        pat = "(" + ", ".join(names) + ")" if len(names) > 1 else names[0]

        fn = self

        class LCtx(Ctx):
            def state_tuple(self_, e):
                vals = []
                for kind, key in state:
                    if kind == "var":
                        v = e.vars[key]
                        vals.append(str(v.ptr[1]) if v.ptr is not None else v.s)
                    elif kind == "w":
                        vals.append(e.writes.get(key, W()).expr())
                    else:
                        o = e.outs.get(key)
                        vals.append("none" if o is None else (o[1:] if o.startswith("?") else f"some {o}"))
                if not state:
                    return "()"
                return "(" + ", ".join(vals) + ")" if len(vals) > 1 else paren(vals[0])

            def cont(self_, e):
                t = ""
                if inc.get("kind"):
                    e.pending, e.prelets = [], []
                    t = fn.simple(inc, e) if inc["kind"] not in ("BinaryOperator",) or inc.get("opcode") != "," \
                        else fn.comma(inc, e)
                    if e.pending:
                        raise Unsupported("fuel-taking call in a for-increment")
                if k == "DoStmt":
                    e.pending, e.prelets = [], []
                    c = fn.expr(cond, e)
                    if e.pending:
                        raise Unsupported("fuel-taking call in a do-while condition")
                    t += fn.flush_lets(e)
                    return t + f"if {fn.nz(c)} then\n  {CALL} {self_.state_tuple(e)}\nelse\n  .done {self_.state_tuple(e)}"
                return t + f"{CALL} {self_.state_tuple(e)}"

        lctx = LCtx("loop", self)
        CALL = f"{lname_} @CAPS@ fuel"
        # body
        if k == "DoStmt":
            btext = self.block([body], lenv.copy(), lctx)
            step = btext
        else:
            cenv = lenv.copy()
            cenv.pending, cenv.prelets = [], []
            c = self.expr(cond, cenv) if cond.get("kind") else V("True", Ty("i", 32), prop=True)
            if cenv.pending:
                raise Unsupported("fuel-taking call in a loop condition")
            clets = self.flush_lets(cenv)
            done = lctx.state_tuple(cenv)
            btext = self.block([body], cenv, lctx)
            step = clets + f"if {self.nz(c)} then\n{I(btext)}\nelse\n  .done {done}"
        # captured identifiers: every Lean name known outside the loop that the loop text mentions
        known = self.known_names(env, before)
        caps = [nm for nm in known if re.search(r"(?<![\w.'])" + re.escape(nm) + r"(?![\w'])", step) and nm not in names]
        if any(known[nm] == "?" for nm in caps):
            raise Unsupported("a loop refers to the tuple result of a call made before it")
        capsig = " ".join(f"({nm} : {known[nm]})" for nm in caps)
        step = step.replace("@CAPS@", " ".join(caps)).replace("  ", "  ")
        rho = self.rho()
        text = (f"/-- loop {lnum} of `{self.name}`: state ({', '.join(key for _, key in state) or 'none'}) -/\n"
                f"def {lname_} {capsig} : Nat → {sigma} → LoopR ({sigma}) ({rho})\n"
                f"  | 0, _ => .nofuel\n  | fuel + 1, {pat} =>\n{I(step, 4)}\n")
        text = re.sub(r" +\n", "\n", text.replace("  fuel + 1", "fuel + 1"))
        self.loops.append(text)
        # the call site
        outs_names = []
        for (kind, key), nm0 in zip(state, names):
            if kind == "var":
                o = env.vars[key]
                if o.ptr is not None:
                    nm = env.fresh(key + "_o")
                    env.vars[key] = V("", o.ty, ptr=(o.ptr[0], nm))
                else:
                    nm = env.fresh(key, lty(o.ty))
                    env.vars[key] = V(nm, o.ty)
            elif kind == "w":
                nm = env.fresh(key.replace("@arr:", "") + "_w", LW)
                env.writes[key] = W(nm)
            else:
                nm = env.fresh(key.replace(".", "_") + "_opt", "Option Nat")
                env.outs[key] = "?" + nm
            outs_names.append(nm)
        if not state:
            outs_names = ["_"]
        opat = "(" + ", ".join(outs_names) + ")" if len(outs_names) > 1 else outs_names[0]
        init_t = "(" + ", ".join(inits) + ")" if len(inits) > 1 else paren(inits[0])
        infinite = (k == "WhileStmt" and cond.get("kind") and const_int(self.expr_text_safe(cond)) not in (None, 0)
                    and not loop_escape(body, ("BreakStmt",)))
        if infinite:
            after = ctx.nofuel() + "   -- unreachable: `while (1)` without break leaves only by return"
        else:
            after = self.block(([("pop", saved)] if saved else []) + rest, env, ctx)
        call = f"{lname_} {' '.join(caps)} fuel {init_t}".replace("  ", " ")
        return (pre + f"match {call} with\n| .nofuel => {ctx.nofuel()}\n| .ret r => {ctx.pass_ret('r')}\n"
                      f"| .done {opat} =>\n{I(after)}")

    def comma(self, n, env):
        a, b = n["inner"]
        ta = self.comma(a, env) if a.get("kind") == "BinaryOperator" and a.get("opcode") == "," else self.simple(a, env)
        tb = self.comma(b, env) if b.get("kind") == "BinaryOperator" and b.get("opcode") == "," else self.simple(b, env)
        return ta + tb

    def touched(self, scope):
        """write buffers stored to and out-parameters assigned below scope (syntactic, through local pointers)"""
        ws, os_ = [], []
        ptr_roots = {}

        def root(n):
            n = skip_casts(n)
            while n.get("kind") in ("ArraySubscriptExpr", "BinaryOperator", "UnaryOperator", "ParenExpr",
                                    "ImplicitCastExpr", "CStyleCastExpr"):
                n = n["inner"][0]
            if n.get("kind") == "DeclRefExpr":
                return n["referencedDecl"]["name"]
            return None

        def walk(n):
            if not isinstance(n, dict):
                return
            k = n.get("kind")
            if (k == "BinaryOperator" and n.get("opcode") == "=") or k == "CompoundAssignOperator":
                lhs = skip_parens(n["inner"][0])
                if lhs.get("kind") in ("ArraySubscriptExpr",) or (lhs.get("kind") == "UnaryOperator" and lhs.get("opcode") == "*"):
                    ws.append(("store", lhs))
                elif lhs.get("kind") == "MemberExpr":
                    base = skip_casts(lhs["inner"][0])
                    if base.get("kind") == "DeclRefExpr":
                        key = f"{base['referencedDecl']['name']}.{lhs['name']}"
                        if key in self.out_keys() and key not in os_:
                            os_.append(key)
            if k == "CallExpr":
                callee = self.tr.done.get(callee_name(n))
                if callee is not None and callee.write_bufs:
                    ws.append(("call", n))
                cn = callee_name(n)
                if cn in ("memcpy", "__builtin_memcpy"):
                    ws.append(("store", n["inner"][1]))
                if callee is None and cn not in ("assert", "__assert_fail", "memcpy", "__builtin_memcpy"):
                    try:
                        sub = Fn2(self.tr, self.cfile, cn)
                        ws.append(("inline", n, sub))
                    except Exception:
                        pass
            for c in n.get("inner", []) or []:
                walk(c)

        walk(scope)
        bufs = []
        # conservative: a store anywhere in the loop may hit any write buffer / out param reachable by pointers
        if ws:
            for b in self.write_bufs + self.local_arrays:
                bufs.append(b)
            for o in self.out_params:
                if o not in os_:
                    os_.append(o)
        return bufs, [o for o in self.out_keys() if o in os_]

    def known_names(self, env, before):
        """Lean identifiers in scope -> Lean type (for capture by loop definitions): the function's parameters and
        every let-bound name created before the loop"""
        known = {}
        for p in self.params:
            nm, ty = p["name"], parse_type(p["type"])
            if nm in self.read_bufs:
                known[lname(nm)] = "Nat → Nat"
            elif nm in self.struct_fields:
                for fld, fty in self.struct_fields[nm]:
                    known[f"{lname(nm)}_{fld}"] = lty(fty)
                known[f"{lname(nm)}_given"] = "Bool"
            elif nm in self.write_bufs:
                known[f"{nm}0"] = "Nat → Nat"
            elif ty.kind != "ptr":
                known[lname(nm)] = lty(ty)
        for nm in before:
            known[nm] = env.types[nm]
        return known

    def rho(self):
        comps = []
        if self.ret.kind != "void":
            comps.append("Int" if self.ret.kind == "i" else "Nat")
        comps += ["Option Nat"] * len(self.out_keys()) + ["List (Nat × Nat)"] * len(self.write_bufs)
        return " × ".join(comps) if comps else "Unit"

    # ------------------------------------------------------------------ whole function
    def translate(self):
        env = Env2()
        env.pending, env.prelets = [], []
        env.types = {}
        for p in self.params:
            ty = parse_type(p["type"])
            nm = p["name"]
            if ty.kind == "ptr":
                if nm in self.struct_fields:
                    env.vars[nm] = V(nm, ty)
                else:
                    env.vars[nm] = V("", ty, ptr=(lname(nm) if nm in self.read_bufs else nm, 0))
            else:
                env.vars[nm] = V(lname(nm), ty)
        ctx = Ctx("fn", self)
        body = self.block(list(self.body.get("inner", [])), env, ctx)
        params = ["(fuel : Nat)"] if self.uses_fuel else []
        for p in self.params:
            nm, ty = p["name"], parse_type(p["type"])
            if nm in self.read_bufs:
                params.append(f"({lname(nm)} : Nat → Nat)")
            elif nm in self.struct_fields:
                for fld, fty in self.struct_fields[nm]:
                    params.append(f"({lname(nm)}_{fld} : {'Int' if fty.kind == 'i' else 'Nat'})")
                if nm in self.given:
                    params.append(f"({lname(nm)}_given : Bool)")
            elif nm in self.rmw:
                params.append(f"({nm}0 : Nat → Nat)")
            elif ty.kind == "ptr":
                continue
            else:
                params.append(f"({lname(nm)} : {'Int' if ty.kind == 'i' else 'Nat'})")
        rty = self.rho()
        if self.uses_fuel:
            rty = f"Option ({rty})"
        doc = (f"/-- `{self.name}` from `{os.path.relpath(self.cfile, REPO)}`"
               + (f"; read buffers {self.read_bufs}" if self.read_bufs else "")
               + (f"; stores through {self.write_bufs} as (index, value) in program order" if self.write_bufs else "")
               + (f"; contents on entry of {self.rmw} are parameters `…0`" if self.rmw else "")
               + (f"; out-parameters {self.out_keys()} (none = not stored)" if self.out_keys() else "")
               + ("; `fuel` bounds the loop iterations (none = exhausted)" if self.uses_fuel else "") + " -/")
        # loop definitions were produced before their parameter list was final for rmw buffers: patch the captures
        return "".join(t + "\n" for t in self.loops) + f"{doc}\ndef {self.lean_name} {' '.join(params)} : {rty} :=\n{I(body)}\n"


def ctx_ret(fn, env, ctx, retv):
    return ctx.ret(fn.ret_tuple(env, retv))


def loop_escape(n, kinds=("BreakStmt", "ContinueStmt")):
    """a break/continue that belongs to the enclosing loop (not to an inner switch / loop)"""
    if not isinstance(n, dict):
        return False
    k = n.get("kind")
    if k in kinds:
        return True
    if k in LOOPS:
        return False
    if k == "SwitchStmt":
        return loop_escape({"inner": n.get("inner", [])[-1:]}, ("ContinueStmt",)) if "ContinueStmt" in kinds else False
    return any(loop_escape(c, kinds) for c in n.get("inner", []) or [])


def skip_casts(n):
    while n.get("kind") in ("ParenExpr", "ImplicitCastExpr", "CStyleCastExpr"):
        n = n["inner"][0]
    return n


# typed fresh names: Env2.fresh records nothing about types; known_names() infers Nat/Int from the C type of the
# variable the name belongs to.

class Translator2(Translator):
    def enum_value(self, cfile, name):
        """value of an enumerator: evaluated by gcc against the headers the translation unit includes"""
        if name not in self.enums:
            import subprocess
            import tempfile
            incs = re.findall(r'^\s*#include\s+"([^"]+)"', open(cfile).read(), re.M)
            if cfile.endswith(".h"):
                incs.append(os.path.basename(cfile))
            src = "#include <stdio.h>\n" + "".join(f'#include "{i}"\n' for i in incs) + \
                  f'int main(void){{printf("%lld", (long long)({name}));return 0;}}\n'
            with tempfile.TemporaryDirectory(prefix="c2l.") as d:
                pth = os.path.join(d, "e.c")
                open(pth, "w").write(src)
                r = subprocess.run(["gcc", "-std=gnu11", "-w", "-I", SRC, "-I", os.path.dirname(cfile), pth, "-o",
                                    os.path.join(d, "e")], capture_output=True, text=True)
                if r.returncode != 0:
                    return Translator.enum_value(self, cfile, name)
                self.enums[name] = int(subprocess.run([os.path.join(d, "e")], capture_output=True, text=True).stdout)
        return self.enums[name]

    def global_const(self, cfile, name):
        """value of a file-scope `static const` integer with a literal initialiser"""
        key = (cfile, name)
        if key not in self.enums:
            val = None
            for o in c2lean.clang_ast(cfile, name):
                if o.get("kind") == "VarDecl" and o.get("name") == name and "const" in o["type"]["qualType"]:
                    init = [c for c in o.get("inner", []) if c.get("kind")]
                    if init:
                        lit = skip_casts(init[0])
                        if lit.get("kind") == "IntegerLiteral":
                            val = int(lit["value"])
            if val is None:
                raise Unsupported(f"reference to {name}, which is not a parameter, local or constant")
            self.enums[key] = val
        return self.enums[key]

    def function(self, cfile, name, lean_name=None, legacy=False):
        f = (c2lean.Fn if legacy else Fn2)(self, cfile, name, lean_name)
        text = f.translate()
        self.done[name] = f
        return text


# (output module, [(C file relative to src — or harness file —, C function, Lean name)])
TAGGED_IMPORTS = ("varintTagged.c:varintTaggedLen:taggedLen:legacy,varintTagged.c:varintTaggedPut64:taggedPut64:legacy,"
                  "varintTagged.c:varintTaggedGet:taggedGet:legacy")
TARGETS2 = {
    "CCSimple": [
        ("varintChainedSimple.c", "varintChainedSimpleEncode64", "csEncode64"),
        ("varintChainedSimple.c", "varintChainedSimpleLength", "csLength"),
        ("varintChainedSimple.c", "varintChainedSimpleDecode64", "csDecode64"),
    ],
    "CBits": [
        ("varintBitstream.h", "varintBitstreamSet", "bitstreamSet"),
        ("varintBitstream.h", "varintBitstreamGet", "bitstreamGet"),
        ("harness/vw_bits.c", "vw_bitsPrepareSigned", "bitsPrepareSigned"),
        ("harness/vw_bits.c", "vw_bitsRestoreSigned", "bitsRestoreSigned"),
    ],
    "CRLE": [
        ("import", "CTagged", TAGGED_IMPORTS),
        ("varintRLE.c", "varintRLEAnalyze", "rleAnalyze"),
        ("varintRLE.c", "varintRLEEncode", "rleEncode"),
        ("varintRLE.c", "varintRLEGetRunCount", "rleGetRunCount"),
        ("varintRLE.c", "varintRLEEncodeWithHeader", "rleEncodeWithHeader"),
        ("varintRLE.c", "varintRLESize", "rleSize"),
        ("varintRLE.c", "varintRLEIsBeneficial", "rleIsBeneficial"),
    ],
    "CRLEDec": [
        ("import", "CTagged", TAGGED_IMPORTS),
        ("import", "CTaggedAdd", "varintTagged.c:varintTaggedGet64:taggedGet64"),
        ("varintRLE.c", "varintRLEDecodeRun", "rleDecodeRun"),
        ("varintRLE.c", "varintRLEDecode", "rleDecode"),
        ("varintRLE.c", "varintRLEDecodeWithHeader", "rleDecodeWithHeader"),
        ("varintRLE.c", "varintRLEGetAt", "rleGetAt"),
        ("varintRLE.c", "varintRLEGetCount", "rleGetCount"),
    ],
    "CTaggedAdd": [
        ("import", "CTagged", TAGGED_IMPORTS),
        ("varintTagged.c", "varintTaggedGet64", "taggedGet64"),
        ("varintTagged.c", "varintTaggedAdd", "taggedAdd"),
        ("varintTagged.c", "varintTaggedAddNoGrow", "taggedAddNoGrow"),
        ("varintTagged.c", "varintTaggedAddGrow", "taggedAddGrow"),
    ],
    "CExternal": [
        ("varintExternal.c", "varintExternalCopyUsedBytesLittleEndian_", "extCopyUsedLE"),
        ("varintExternal.c", "varintExternalLoadFromEncodingLittleEndian_", "extLoadLE"),
        ("varintExternal.c", "varintExternalPut", "extPut"),
        ("varintExternal.c", "varintExternalPutFixedWidth", "extPutFixedWidth"),
        ("varintExternal.c", "varintExternalGet", "extGet"),
        ("varintExternal.c", "varintExternalAdd_", "extAdd"),
        ("varintExternal.c", "varintExternalAddNoGrow", "extAddNoGrow"),
        ("varintExternal.c", "varintExternalAddGrow", "extAddGrow"),
    ],
    "CSplit": [
        ("import", "CExternal", "varintExternal.c:varintExternalLoadFromEncodingLittleEndian_:extLoadLE,"
                                "varintExternal.c:varintExternalPutFixedWidth:extPutFixedWidth,"
                                "varintExternal.c:varintExternalGet:extGet"),
        ("harness/vw_split.c", "vw_splitLength", "splitLength"),
        ("harness/vw_split.c", "vw_splitPut", "splitPut"),
        ("harness/vw_split.c", "vw_splitGet", "splitGet"),
        ("harness/vw_split.c", "vw_splitGetLen", "splitGetLen"),
        ("harness/vw_split.c", "vw_split16Length", "split16Length"),
        ("harness/vw_split.c", "vw_split16Put", "split16Put"),
        ("harness/vw_split.c", "vw_split16Get", "split16Get"),
        ("harness/vw_split.c", "vw_split16GetLen", "split16GetLen"),
        ("harness/vw_split.c", "vw_split16GetLenQuick", "split16GetLenQuick"),
        ("harness/vw_split.c", "vw_splitFullLength", "splitFullLength"),
        ("harness/vw_split.c", "vw_splitFullPut", "splitFullPut"),
        ("harness/vw_split.c", "vw_splitFullGet", "splitFullGet"),
        ("harness/vw_split.c", "vw_splitFullGetLen", "splitFullGetLen"),
        ("harness/vw_split.c", "vw_splitFullGetLenQuick", "splitFullGetLenQuick"),
        ("harness/vw_split.c", "vw_splitNZLength", "splitNZLength"),
        ("harness/vw_split.c", "vw_splitNZPut", "splitNZPut"),
        ("harness/vw_split.c", "vw_splitNZGet", "splitNZGet"),
        ("harness/vw_split.c", "vw_splitNZGetLen", "splitNZGetLen"),
        ("harness/vw_split.c", "vw_splitNZGetLenQuick", "splitNZGetLenQuick"),
    ],
    "CDelta": [
        ("import", "CExternal", "varintExternal.c:varintExternalLoadFromEncodingLittleEndian_:extLoadLE,"
                                "varintExternal.c:varintExternalPutFixedWidth:extPutFixedWidth,"
                                "varintExternal.c:varintExternalGet:extGet"),
        ("import", "CSizes", "varintDelta.c:varintDeltaZigZag:deltaZigZag:legacy,"
                             "varintDelta.c:varintDeltaZigZagDecode:deltaZigZagDecode:legacy"),
        ("varintDelta.c", "varintDeltaPut", "deltaPut"),
        ("varintDelta.c", "varintDeltaGet", "deltaGet"),
        ("varintDelta.c", "varintDeltaEncode", "deltaEncode"),
        ("varintDelta.c", "varintDeltaDecode", "deltaDecode"),
        ("varintDelta.c", "varintDeltaEncodeUnsigned", "deltaEncodeUnsigned"),
        ("varintDelta.c", "varintDeltaDecodeUnsigned", "deltaDecodeUnsigned"),
    ],
    "CFOR": [
        ("import", "CTagged", "varintTagged.c:varintTaggedLen:taggedLen:legacy"),
        ("import", "CSizes", "varintFOR.c:varintFORSize:forSize:legacy"),
        ("varintFOR.c", "varintFORComputeWidth", "forComputeWidth"),
        ("varintFOR.c", "varintFORAnalyze", "forAnalyze"),
    ],
    "CFORDec": [
        ("import", "CTagged", TAGGED_IMPORTS),
        ("import", "CTaggedAdd", "varintTagged.c:varintTaggedGet64:taggedGet64"),
        ("import", "CExternal", "varintExternal.c:varintExternalLoadFromEncodingLittleEndian_:extLoadLE,"
                                "varintExternal.c:varintExternalGet:extGet"),
        ("varintFOR.c", "varintFORReadMetadata", "forReadMetadata"),
        ("varintFOR.c", "varintFORGetMinValue", "forGetMinValue"),
        ("varintFOR.c", "varintFORGetCount", "forGetCount"),
        ("varintFOR.c", "varintFORGetOffsetWidth", "forGetOffsetWidth"),
        ("varintFOR.c", "varintFORGetAt", "forGetAt"),
        ("varintFOR.c", "varintFORDecode", "forDecode"),
        ("varintFOR.c", "varintFORBatchDecode", "forBatchDecode"),
        ("varintFOR.c", "varintFORDecodeBlock", "forDecodeBlock"),
    ],
    "CChainedW": [
        ("varintChained.c", "putVarint64", "chainedPut64"),
        ("varintChained.c", "varintChainedPutVarint", "chainedPutVarint"),
        ("varintChained.c", "varintChainedVarintLen", "chainedVarintLen"),
    ],
    "CTaggedQ": [
        ("import", "CTagged", "varintTagged.c:varintTaggedLen:taggedLen:legacy,"
                              "varintTagged.c:varintTaggedPut64FixedWidth:taggedPut64FixedWidth:legacy,"
                              "varintTagged.c:varintTaggedGet:taggedGet:legacy"),
        ("varintTagged.c", "varintTaggedGet64ReturnValue", "taggedGet64ReturnValue"),
        ("harness/vw_tagged.c", "vw_taggedLenQuick", "taggedLenQuick"),
        ("harness/vw_tagged.c", "vw_taggedGetLenQuick", "taggedGetLenQuick"),
        ("harness/vw_tagged.c", "vw_taggedGet64Quick", "taggedGet64Quick"),
        ("harness/vw_tagged.c", "vw_taggedPutFixedQuick", "taggedPutFixedQuick"),
    ],
    "CExtBE": [
        ("varintExternalBigEndian.c", "_varintExternalBigEndianCopyUsedBytesLittleEndian", "extbeCopyUsed"),
        ("varintExternalBigEndian.c", "_varintExternalBigEndianLoadFromEncodingLittleEndian", "extbeLoad"),
        ("varintExternalBigEndian.c", "varintExternalBigEndianPut", "extbePut"),
        ("varintExternalBigEndian.c", "varintExternalBigEndianPutFixedWidth", "extbePutFixedWidth"),
        ("varintExternalBigEndian.c", "varintExternalBigEndianGet", "extbeGet"),
    ],
    "CAdaptive": [
        ("varintAdaptive.c", "varintAdaptiveCheckSorted", "adaptiveCheckSorted"),
    ],
    "CDim": [
        ("import", "CExternal", "varintExternal.c:varintExternalLoadFromEncodingLittleEndian_:extLoadLE,"
                                "varintExternal.c:varintExternalPutFixedWidth:extPutFixedWidth,"
                                "varintExternal.c:varintExternalGet:extGet"),
        ("varintDimension.c", "varintDimensionPack", "dimPack"),
        ("varintDimension.c", "varintDimensionUnpack", "dimUnpack"),
        ("varintDimension.c", "varintDimensionPairDimension", "dimPairDimension"),
        ("varintDimension.c", "varintDimensionPairEncode", "dimPairEncode"),
        ("varintDimension.c", "varintDimensionPairDecode", "dimPairDecode"),
        ("varintDimension.c", "getEntryByteOffset", "dimEntryOffset"),
        ("varintDimension.c", "varintDimensionPairEntryGetUnsigned", "dimEntryGetUnsigned"),
        ("varintDimension.c", "varintDimensionPairEntrySetUnsigned", "dimEntrySetUnsigned"),
        ("varintDimension.c", "varintDimensionPairEntryGetBit", "dimEntryGetBit"),
        ("varintDimension.c", "varintDimensionPairEntrySetBit", "dimEntrySetBit"),
        ("varintDimension.c", "varintDimensionPairEntryToggleBit", "dimEntryToggleBit"),
    ],
    "CExtQ": [
        ("import", "CExternal", "varintExternal.c:varintExternalLoadFromEncodingLittleEndian_:extLoadLE,"
                                "varintExternal.c:varintExternalPutFixedWidth:extPutFixedWidth,"
                                "varintExternal.c:varintExternalGet:extGet"),
        ("harness/vw_ext.c", "vw_extPutFixedQuick", "extPutFixedQuick"),
        ("harness/vw_ext.c", "vw_extGetQuick", "extGetQuick"),
    ],
    "CDictH": [
        ("varintDict.c", "size_mul_overflow", "dictMulOverflow"),
    ],
    "CBP": [
        ("varintBP128.c", "varintBP128BitsNeeded64", "bpBitsNeeded64"),
        ("varintBP128.c", "varintBP128MaxBitWidth64", "bpMaxBitWidth64"),
    ],
    "C32": [
        ("import", "CTagged", TAGGED_IMPORTS),
        ("import", "CCSimple", "varintChainedSimple.c:varintChainedSimpleDecode64:csDecode64"),
        ("varintTagged.c", "varintTaggedGetVarint32", "taggedGetVarint32"),
        ("varintTagged.c", "varintTaggedPutVarint32", "taggedPutVarint32"),
        ("varintChainedSimple.c", "varintChainedSimpleEncode32", "csEncode32"),
        ("varintChainedSimple.c", "varintChainedSimpleDecode32Fallback", "csDecode32Fallback"),
    ],
    "CElias": [
        ("varintElias.c", "floorLog2", "eliasFloorLog2"),
        ("varintElias.c", "varintEliasGammaBits", "eliasGammaBits"),
        ("varintElias.c", "varintEliasDeltaBits", "eliasDeltaBits"),
    ],
    "CPFOR": [
        ("import", "CTagged", TAGGED_IMPORTS),
        ("import", "CTaggedAdd", "varintTagged.c:varintTaggedGet64:taggedGet64"),
        ("import", "CExternal", "varintExternal.c:varintExternalLoadFromEncodingLittleEndian_:extLoadLE,"
                                "varintExternal.c:varintExternalGet:extGet"),
        ("varintPFOR.c", "varintPFORCalculateMarker", "pforMarker"),
        ("varintPFOR.c", "varintPFORSize", "pforSize"),
        ("varintPFOR.c", "varintPFORGetAt", "pforGetAt"),
    ],
    "CGroup": [
        ("import", "CSizes", "varintGroup.c:varintGroupWidthDecode_:groupWidthDecode:legacy,"
                             "varintGroup.c:varintGroupWidthEncode_:groupWidthEncode:legacy,"
                             "varintGroup.c:varintGroupBitmapSize_:groupBitmapSize:legacy"),
        ("import", "CExternal", "varintExternal.c:varintExternalLoadFromEncodingLittleEndian_:extLoadLE,"
                                "varintExternal.c:varintExternalGet:extGet"),
        ("varintGroup.c", "varintGroupGetFieldWidth", "groupGetFieldWidth"),
        ("varintGroup.c", "varintGroupGetSize", "groupGetSize"),
        ("varintGroup.c", "varintGroupSize", "groupSize"),
        ("varintGroup.c", "varintGroupGetField", "groupGetField"),
        ("varintGroup.c", "varintGroupDecode", "groupDecode"),
    ],
    # the template header src/varintPacked.h as instantiated by harness/vw_packed.c (12-bit values, uint32_t slots)
    "CPacked": [
        ("harness/vw_packed.c", "varintPacked12Get", "packed12Get"),
        ("harness/vw_packed.c", "varintPacked12Set", "packed12Set"),
        ("harness/vw_packed.c", "varintPacked12SetHalf", "packed12SetHalf"),
        ("harness/vw_packed.c", "varintPacked12SetIncr", "packed12SetIncr"),
        ("harness/vw_packed.c", "varintPacked12BinarySearch", "packed12BinarySearch"),
        ("harness/vw_packed.c", "varintPacked12Member", "packed12Member"),
        ("harness/vw_packed.c", "varintPacked12Insert", "packed12Insert"),
        ("harness/vw_packed.c", "varintPacked12InsertSorted", "packed12InsertSorted"),
        ("harness/vw_packed.c", "varintPacked12Delete", "packed12Delete"),
        ("harness/vw_packed.c", "varintPacked12DeleteMember", "packed12DeleteMember"),
    ],
    "CPacked13": [
        ("harness/vw_packed.c", "varintPacked13Get", "packed13Get"),
        ("harness/vw_packed.c", "varintPacked13Set", "packed13Set"),
        ("harness/vw_packed.c", "varintPacked13SetHalf", "packed13SetHalf"),
        ("harness/vw_packed.c", "varintPacked13SetIncr", "packed13SetIncr"),
        ("harness/vw_packed.c", "varintPacked13BinarySearch", "packed13BinarySearch"),
        ("harness/vw_packed.c", "varintPacked13Member", "packed13Member"),
        ("harness/vw_packed.c", "varintPacked13Insert", "packed13Insert"),
        ("harness/vw_packed.c", "varintPacked13InsertSorted", "packed13InsertSorted"),
        ("harness/vw_packed.c", "varintPacked13Delete", "packed13Delete"),
        ("harness/vw_packed.c", "varintPacked13DeleteMember", "packed13DeleteMember"),
    ],
}


def generate(module, targets=None):
    tr = Translator2()
    imports, body = ["CPrelude"], ""
    for cf, fn, ln in (targets or TARGETS2)[module]:
        if cf == "import":
            imports.append(fn)
            for spec in ln.split(","):
                c, f, l = spec.split(":")[:3]
                legacy = spec.endswith(":legacy")
                tr.function(resolve(c), f, l, legacy=legacy)
            continue
        body += tr.function(resolve(cf), fn, ln) + "\n"
    head = "".join(f"import Varint.Gen.{m}\n" for m in imports)
    return (head + "set_option linter.unusedVariables false\n" + c2lean.PRELUDE.replace(c2lean.SX_DEF, "") + body +
            "end Varint.Gen.C\n")


def resolve(c):
    if c.startswith("harness/"):
        return os.path.join(os.path.dirname(os.path.dirname(os.path.abspath(__file__))), c)
    return os.path.join(SRC, c)


if __name__ == "__main__":
    cf, fn = sys.argv[1], sys.argv[2]
    tr = Translator2()
    for extra in sys.argv[3:]:
        c, f, l = extra.split(":")[:3]
        tr.function(resolve(c), f, l, legacy=extra.endswith(":legacy"))
    try:
        sys.stdout.write(tr.function(resolve(cf), fn, fn))
    except Unsupported as e:
        sys.stderr.write(f"c2lean2: unsupported construct: {e}\n")
        sys.exit(3)
