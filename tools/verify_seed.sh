#!/bin/bash
# verify_seed.sh <worktree-with-change-applied> "<source files relative to wt/src needed by demo.c>"
# confirms (1) builds + suite passes with the change, (2) demo fails with the change,
# (3) demo passes on the clean tree. Prints a summary line.
wt=$1; shift
srcs=""; for s in $1; do srcs="$srcs $wt/src/$s"; done
cd "$wt" || exit 2
b=$(mktemp -d /tmp/vseed.XXXXXX)
cmake -G Ninja -S "$wt" -B "$b" -DCMAKE_BUILD_TYPE=RelWithDebInfo -DCMAKE_C_FLAGS=-Wno-error >/dev/null 2>&1 && cmake --build "$b" -j16 >/dev/null 2>&1 && ctest --test-dir "$b" -j8 --timeout 900 >"$b/ct.log" 2>&1
suite=$?
grep "tests passed" "$b/ct.log"
cc="gcc -O2 -w -I$wt/src $wt/demo.c $srcs -o $b/demo -lm -lpthread"
$cc || echo "demo compile failed (with change)"
"$b/demo" >/dev/null 2>&1; with=$?
git diff > "$b/p.patch"
git checkout -q -- . ; $cc || echo "demo compile failed (clean)"; "$b/demo" >/dev/null 2>&1; without=$?
git apply "$b/p.patch"
rm -rf "$b"
echo "suite_rc=$suite demo_with_change_rc=$with demo_clean_rc=$without"
