#!/usr/bin/env python3
"""Orchestrator of the Lean-4 proof + correspondence checks.   ./check <Cxx> [--tier quick|thorough]

One run of a property check does (DESIGN.md section 4.3):
  1. regenerate lean/Varint/Gen from /repo, rebuild the harness from /repo's working tree
  2. lake build the model driver and the property's theorems (the Lean kernel checks every proof)
  3. audit: #print axioms of every obligation, grep for sorry/admit/axiom/native_decide/...
  4. correspondence: seeded op files through the real code (harness) and the model (vdriver), diff of
     the fields this property speaks about, plus the property monitors evaluated on the implementation
  5. known findings; evidence file; VIOLATION line + replay file when something no longer checks
"""
import argparse
import fcntl
import hashlib
import json
import os
import random
import re
import shutil
import subprocess
import sys
import time

HERE = os.path.dirname(os.path.abspath(__file__))
VERIF = os.path.dirname(HERE)
REPO = os.environ.get("VERIF_REPO", "/repo")
LEAN = os.path.join(VERIF, "lean")
HARN = os.path.join(VERIF, "harness")
WORK = os.path.join(VERIF, "work")
sys.path.insert(0, HERE)
import genops  # noqa: E402
import props  # noqa: E402

ALLOWED_AXIOMS = {"propext", "Classical.choice", "Quot.sound"}
TRUSTED_BASE = [
    "Lean 4.33.0 kernel (lake build); axioms allowed per theorem: propext, Classical.choice, Quot.sound (audited by #print axioms on every run)",
    "no sorry/admit/axiom/native_decide/bv_decide/implemented_by/unsafe in lean/Varint (grep on every run)",
    "tools/gen.py: constants evaluated by gcc from /repo headers, README tables parsed, nm over objects (regenerated every run)",
    "correspondence harness (harness/*.c linked against /repo/src of the working tree) and vdriver: model = code only on the operations sampled",
    "gcc/clang, libc, x86-64 little-endian; UB is modelled as an observable fault (sanitizer abort)",
]

FORBIDDEN = re.compile(r"\b(sorry|admit|native_decide|bv_decide|implemented_by|unsafe)\b|^\s*axiom\s|maxHeartbeats\s+0")


def log(msg):
    print(f"[check] {msg}", flush=True)


def sh(cmd, **kw):
    return subprocess.run(cmd, capture_output=True, text=True, **kw)


# --------------------------------------------------------------------------- generation / build
def regen():
    r = sh([sys.executable, os.path.join(HERE, "gen.py")])
    if r.returncode != 0:
        return False, (r.stdout + r.stderr)
    return True, r.stdout.strip()


def repo_hash():
    h = hashlib.sha256()
    for root in (os.path.join(REPO, "src"), HARN):
        for dp, dn, fn in os.walk(root):
            dn[:] = sorted(d for d in dn if d != "build")
            for f in sorted(fn):
                if f.endswith((".c", ".h", ".inc", ".flags")):
                    p = os.path.join(dp, f)
                    h.update(p.encode())
                    with open(p, "rb") as fh:
                        h.update(fh.read())
    return h.hexdigest()[:16]


CONFIGS = {
    "asan": ["gcc", "-std=gnu11", "-O1", "-g", "-fsanitize=address,undefined", "-fno-sanitize-recover=all",
             "-fno-omit-frame-pointer"],
    "o2": ["gcc", "-std=gnu11", "-O2", "-g", "-DNDEBUG", "-mtune=native"],
    "o0": ["gcc", "-std=gnu11", "-O0", "-g"],
    "native": ["gcc", "-std=gnu11", "-O2", "-g", "-DNDEBUG", "-march=native"],
    "tsan": ["gcc", "-std=gnu11", "-O1", "-g", "-fsanitize=thread", "-fno-omit-frame-pointer"],
}

LIB_SOURCES = ["varintTagged.c", "varintExternal.c", "varintExternalBigEndian.c", "varintChained.c",
               "varintChainedSimple.c"]
HARNESS_SOURCES = ["vh_main.c", "vh_scalar.c", "vh_stubs.c"]


def harness_sources():
    hs = [f for f in sorted(os.listdir(HARN)) if f.startswith("vh_") and f.endswith(".c")]
    return hs


def lib_sources():
    """library translation units linked as they are (those not #included by a harness file)"""
    included = set()
    for f in harness_sources():
        with open(os.path.join(HARN, f)) as fh:
            for m in re.finditer(r'#include\s+"(varint\w+\.c)"', fh.read()):
                included.add(m.group(1))
    out = []
    for f in sorted(os.listdir(os.path.join(REPO, "src"))):
        if not f.endswith(".c") or f.endswith("Test.c") or f in ("varintCompare.c",):
            continue
        if f in included:
            continue
        out.append(f)
    return out


def build_harness(cfg):
    """compile harness + library sources of the working tree; cached by content hash"""
    hh = repo_hash()
    bdir = os.path.join(HARN, "build", cfg)
    exe = os.path.join(bdir, "vh")
    stamp = os.path.join(bdir, "stamp")
    os.makedirs(bdir, exist_ok=True)
    lock = open(os.path.join(HARN, "build", f".{cfg}.lock"), "w")
    fcntl.flock(lock, fcntl.LOCK_EX)
    try:
        if os.path.exists(exe) and os.path.exists(stamp) and open(stamp).read() == hh:
            return exe, None
        flags = CONFIGS[cfg] + ["-w", "-I", os.path.join(REPO, "src"), "-I", HARN, "-DVARINT_VERIF"]
        srcs = [os.path.join(HARN, f) for f in harness_sources()] + \
               [os.path.join(REPO, "src", f) for f in lib_sources()]
        procs = []
        objs = []
        for s in srcs:
            o = os.path.join(bdir, os.path.basename(s) + ".o")
            objs.append(o)
            procs.append((s, subprocess.Popen(flags + ["-c", s, "-o", o], stdout=subprocess.PIPE,
                                              stderr=subprocess.STDOUT, text=True)))
        errs = []
        for s, p in procs:
            o, _ = p.communicate()
            if p.returncode != 0:
                errs.append(f"{s}:\n{o}")
        if errs:
            return None, "\n".join(errs)[-6000:]
        link = CONFIGS[cfg] + objs + ["-o", exe, "-lm", "-lpthread"]
        wraps = os.path.join(HARN, "wrap.flags")
        if os.path.exists(wraps):
            link += open(wraps).read().split()
        r = sh(link)
        if r.returncode != 0:
            return None, (r.stdout + r.stderr)[-6000:]
        with open(stamp, "w") as f:
            f.write(hh)
        return exe, None
    finally:
        fcntl.flock(lock, fcntl.LOCK_UN)
        lock.close()


class LakeLock:
    def __enter__(self):
        os.makedirs(WORK, exist_ok=True)
        self.f = open(os.path.join(WORK, ".lake.lock"), "w")
        fcntl.flock(self.f, fcntl.LOCK_EX)
        return self

    def __exit__(self, *a):
        fcntl.flock(self.f, fcntl.LOCK_UN)
        self.f.close()


def lake_build(targets):
    with LakeLock():
        r = sh(["lake", "build"] + targets, cwd=LEAN)
    return r.returncode == 0, r.stdout + r.stderr


def theorem_at(path, line):
    """name of the theorem/def enclosing `line` of a Lean file"""
    try:
        src = open(path).read().splitlines()
    except OSError:
        return None
    for i in range(min(line, len(src)) - 1, -1, -1):
        m = re.match(r"\s*(?:private\s+|protected\s+)?(?:theorem|lemma|def|example|instance)\s+([\w.'«»]+)?", src[i])
        if m:
            return m.group(1) or f"example@{i + 1}"
    return None


def parse_lean_errors(output):
    errs = []
    for m in re.finditer(r"error: ([\w/.]+\.lean):(\d+):(\d+): (.*)", output):
        path = os.path.join(LEAN, m.group(1))
        errs.append({"file": m.group(1), "line": int(m.group(2)), "theorem": theorem_at(path, int(m.group(2))),
                     "msg": m.group(4)[:300]})
    return errs


def audit(prop, theorems):
    """#print axioms on every obligation + forbidden-token grep. returns (ok list, problems list)"""
    problems = []
    for dp, dn, fn in os.walk(os.path.join(LEAN, "Varint")):
        for f in fn:
            if not f.endswith(".lean"):
                continue
            p = os.path.join(dp, f)
            incomment = 0
            for ln_no, ln in enumerate(open(p), 1):
                # strip block and line comments (coarse but conservative)
                s = ln
                if incomment:
                    if "-/" in s:
                        s = s.split("-/", 1)[1]
                        incomment = 0
                    else:
                        continue
                while "/-" in s:
                    pre, rest = s.split("/-", 1)
                    if "-/" in rest:
                        s = pre + " " + rest.split("-/", 1)[1]
                    else:
                        s = pre
                        incomment = 1
                        break
                s = s.split("--", 1)[0]
                if FORBIDDEN.search(s):
                    problems.append(f"forbidden token in {os.path.relpath(p, LEAN)}:{ln_no}: {ln.strip()[:120]}")
    if not theorems:
        return [], problems
    os.makedirs(WORK, exist_ok=True)
    mods = sorted({t.rsplit(".", 1)[0] for t in theorems})
    af = os.path.join(WORK, f"Audit_{prop}.lean")
    with open(af, "w") as f:
        for m in mods:
            f.write(f"import {m}\n")
        for t in theorems:
            f.write(f"#print axioms {t}\n")
    with LakeLock():
        r = sh(["lake", "env", "lean", af], cwd=LEAN)
    out = r.stdout + r.stderr
    ok = []
    for t in theorems:
        m = re.search(r"'" + re.escape(t) + r"' (depends on axioms: \[([^\]]*)\]|does not depend on any axioms)", out)
        if not m:
            problems.append(f"obligation {t} not found / not checked: " + out.strip()[-300:])
            continue
        axs = set(a.strip() for a in (m.group(2) or "").replace("\n", " ").split(",") if a.strip())
        bad = axs - ALLOWED_AXIOMS
        if bad:
            problems.append(f"obligation {t} depends on unexpected axioms {sorted(bad)}")
        else:
            ok.append({"theorem": t, "axioms": sorted(axs)})
    return ok, problems


# --------------------------------------------------------------------------- correspondence
def run_variant(exe, ops, workdir, tag, variant):
    """a variant = the same operations under a perturbation (C15): another order (`perm_seed`), residue painted on
    stack and heap (`env`), or under valgrind memcheck (`valgrind`). Results are mapped back to the original order."""
    order = list(range(len(ops)))
    if variant.get("perm_seed") is not None:
        random.Random(variant["perm_seed"]).shuffle(order)
    pops = [ops[i] for i in order]
    wrapper = None
    vglog = None
    if variant.get("valgrind"):
        vglog = os.path.join(workdir, f"{tag}.vglog")
        wrapper = ["valgrind", "--quiet", "--error-exitcode=0", "--undef-value-errors=yes", "--leak-check=no",
                   "--track-origins=no", f"--log-file={vglog}"]
    res, mons, crashes = run_harness(exe, pops, workdir, tag, env_extra=variant.get("env"), wrapper=wrapper)
    if vglog and os.path.exists(vglog):
        cur = None
        seen = set()
        for ln in open(vglog, errors="replace"):
            m = re.search(r"VHOP (\d+)", ln)
            if m:
                cur = int(m.group(1)) - 1
                continue
            if cur is not None and ("uninitialised" in ln or "Invalid read" in ln or "Invalid write" in ln):
                key = (cur, "uninit" if "uninitialised" in ln else "invalid")
                if key not in seen and 0 <= cur < len(pops):
                    seen.add(key)
                    mons.append((cur, "C15", "valgrind memcheck: " + re.sub(r"^==\d+== ", "", ln.strip())))
    results = [None] * len(ops)
    for j, i in enumerate(order):
        results[i] = res[j]
    mons = [(order[j], p_, t) for (j, p_, t) in mons if j < len(order)]
    crashes = [(order[j], k, e) for (j, k, e) in crashes if j < len(order)]
    return results, mons, crashes


def run_harness(exe, ops, workdir, tag, env_extra=None, timeout=3600, wrapper=None):
    """returns (result_lines aligned with ops, monitor lines [(opidx, text)], crashes [(opidx, stderr)])"""
    results = [None] * len(ops)
    monitors = []
    crashes = []
    start = 0
    env = dict(os.environ)
    env["ASAN_OPTIONS"] = "detect_leaks=0:abort_on_error=0:allocator_may_return_null=1:max_allocation_size_mb=4096"
    env["UBSAN_OPTIONS"] = "print_stacktrace=0:halt_on_error=1"
    env["TSAN_OPTIONS"] = "halt_on_error=1:second_deadlock_stack=1:exitcode=66"
    if env_extra:
        env.update(env_extra)
    restarts = 0
    while start < len(ops):
        inp = "\n".join(ops[start:]) + "\n"
        p = subprocess.run((wrapper or []) + [exe], input=inp, capture_output=True, text=True, env=env, timeout=timeout)
        idx = start - 1
        for ln in p.stdout.splitlines():
            if ln.startswith("!"):
                m = re.match(r"!(\w+) (\d+) (.*)", ln)
                if m and idx >= start - 0:
                    monitors.append((idx, m.group(1), m.group(3)))
                continue
            idx += 1
            if idx < len(ops):
                results[idx] = ln
        done = idx + 1
        if done >= len(ops):
            break
        # crashed (or stopped) while executing op `done`
        kind = "crash"
        err = p.stderr[-3000:]
        m = re.search(r"ERROR: AddressSanitizer: ([\w-]+)", err)
        if m:
            kind = "asan:" + m.group(1)
            m2 = re.search(r"(READ|WRITE) of size", err)
            if m2:
                kind += ":" + m2.group(1).lower()
        elif "ThreadSanitizer" in err:
            m = re.search(r"WARNING: ThreadSanitizer: ([\w -]+)", err)
            kind = "tsan:" + (m.group(1).strip().replace(" ", "-") if m else "report")
        elif "runtime error:" in err:
            m = re.search(r"runtime error: (.*)", err)
            kind = "ubsan:" + (m.group(1)[:80].replace(" ", "_") if m else "ub")
        elif p.returncode == -14:
            kind = "timeout:operation-did-not-terminate"
        elif p.returncode < 0:
            kind = f"signal:{-p.returncode}"
        results[done] = "CRASH " + kind
        crashes.append((done, kind, err))
        start = done + 1
        restarts += 1
        if restarts > 200:
            for i in range(start, len(ops)):
                results[i] = "SKIPPED too-many-crashes"
            break
    return results, monitors, crashes


def run_driver(ops, timeout=3600):
    exe = os.path.join(LEAN, ".lake", "build", "bin", "vdriver")
    p = subprocess.run([exe], input="\n".join(ops) + "\n", capture_output=True, text=True, timeout=timeout)
    lines = p.stdout.splitlines()
    if len(lines) < len(ops):
        lines += [f"DRIVER-STOPPED {p.stderr[-200:]!r}"] * (len(ops) - len(lines))
    return lines


def fields(line):
    d = {}
    for tok in (line or "").split():
        if "=" in tok:
            k, v = tok.split("=", 1)
            d[k] = v
        else:
            d.setdefault("_", [])
            d["_"].append(tok)
    return d


def compare(spec, ops, impl, model):
    """returns list of (opidx, [differing keys])"""
    diffs = []
    for i, (a, b) in enumerate(zip(impl, model)):
        if a == b:
            continue
        keys = spec.relevant_keys(ops[i])
        if keys is None:
            diffs.append((i, ["*"]))
            continue
        fa, fb = fields(a), fields(b)
        dk = [k for k in keys if fa.get(k) != fb.get(k)]
        if a.startswith("CRASH") or a.startswith("SKIPPED") or b.startswith("DRIVER-STOPPED"):
            dk = ["*"]
        if dk:
            diffs.append((i, dk))
    return diffs


# --------------------------------------------------------------------------- main check
def write_replay(prop, name, payload):
    d = os.path.join(WORK, "replays")
    os.makedirs(d, exist_ok=True)
    p = os.path.join(d, f"{prop}_{name}.json")
    with open(p, "w") as f:
        json.dump(payload, f, indent=1)
    return p


def load_known():
    p = os.path.join(VERIF, "known_findings.json")
    try:
        return json.load(open(p))
    except FileNotFoundError:
        return []


def check_property(prop, tier, seed):
    t0 = time.time()
    spec = props.PROPS[prop]
    violations = []   # (replay path, found_input: bool, summary)
    notes = []
    rng = random.Random((seed << 8) ^ int(prop[1:]))
    rdir = os.path.join(WORK, "replays")
    if os.path.isdir(rdir):
        for f in os.listdir(rdir):
            if f.startswith(prop + "_"):
                os.remove(os.path.join(rdir, f))
    obligations = props.obligations(prop)

    # 1. regenerate + harness
    ok, msg = regen()
    log(msg if ok else "gen FAILED: " + msg)
    gen_failed = not ok
    cfgs = spec.configs(tier)
    exes = {}
    for cfg in cfgs:
        exe, err = build_harness(cfg)
        if exe is None:
            rp = write_replay(prop, f"harness_build_{cfg}", {"property": prop, "kind": "harness-build-failed",
                                                            "config": cfg, "compiler_output": err})
            violations.append((rp, False, f"harness does not build against the working tree ({cfg})"))
        else:
            exes[cfg] = exe

    # 2. lean build
    lean_targets = ["vdriver"] + spec.lean_modules
    built, bout = lake_build(lean_targets)
    broken = []
    if not built:
        broken = parse_lean_errors(bout)
        log(f"lake build FAILED: {len(broken)} error(s)")
        for e in broken[:10]:
            log(f"   {e['file']}:{e['line']} in {e['theorem']}: {e['msg'][:160]}")
        # the driver alone must still build for the search
        drv_ok, _ = lake_build(["vdriver"])
        if not drv_ok:
            notes.append("vdriver does not build; correspondence skipped")
    # 3. audit
    audited, problems = ([], [])
    if built:
        audited, problems = audit(prop, obligations)
        for p_ in problems:
            log("audit: " + p_)
    discharged = len(audited) if built else 0

    # 4. correspondence + monitors
    ops = spec.gen(rng, tier)
    corpus = props.corpus_ops(prop)
    ops = corpus + ops
    stats = {"ops": len(ops), "by_op": {}, "configs": list(exes.keys())}
    for o in ops:
        k = o.split(" ", 1)[0]
        stats["by_op"][k] = stats["by_op"].get(k, 0) + 1
    model = None
    driver_exe = os.path.join(LEAN, ".lake", "build", "bin", "vdriver")
    if os.path.exists(driver_exe):
        model = run_driver(ops)
    mon_hits = []
    diff_hits = []
    crash_hits = []
    samples = []
    distinct = set()
    known = [k for k in load_known() if k.get("property") == prop and k.get("status") == "known"]
    known_seen = {}
    runs = []
    for cfg, exe in exes.items():
        for vi, variant in enumerate(spec.variants(cfg, tier)):
            runs.append((cfg if not variant else f"{cfg}+{variant.get('name', vi)}", exe, variant))
    stats["runs"] = [r[0] for r in runs]
    for cfg, exe, variant in runs:
        if variant:
            impl, monitors, crashes = run_variant(exe, ops, WORK, f"{prop}_{cfg}".replace("+", "_"), variant)
        else:
            impl, monitors, crashes = run_harness(exe, ops, WORK, f"{prop}_{cfg}")
        for (i, mprop, text) in monitors:
            if mprop != prop:
                continue
            kf = props.match_known(known, ops[i], text)
            if kf:
                known_seen.setdefault(kf["id"], (ops[i], text))
                continue
            mon_hits.append((cfg, i, text))
        for (i, kind, err) in crashes:
            kf = props.match_known(known, ops[i], "CRASH " + kind)
            if kf:
                known_seen.setdefault(kf["id"], (ops[i], kind))
                continue
            crash_hits.append((cfg, i, kind, err))
        if model is not None:
            for (i, keys) in compare(spec, ops, impl, model):
                if impl[i] and impl[i].startswith(("CRASH", "SKIPPED")):
                    continue  # reported as crash / not executed after too many crashes
                kf = props.match_known(known, ops[i], "DIFF")
                if kf:
                    known_seen.setdefault(kf["id"], (ops[i], "diff"))
                    continue
                diff_hits.append((cfg, i, keys, impl[i], model[i]))
        for i, r in enumerate(impl):
            if r and not r.startswith(("CRASH", "SKIPPED", "#", "ok", "bad")):
                distinct.add(r)
        if not samples:
            step = max(1, len(ops) // 6)
            samples = [{"op": ops[i][:400], "impl": (impl[i] or "")[:400],
                        "model": (model[i] if model else "")[:400]} for i in range(0, len(ops), step)][:8]

    # 5. decide
    def first(xs, n=5):
        return xs[:n]

    if mon_hits:
        cfg, i, text = mon_hits[0]
        rp = write_replay(prop, "monitor", {
            "property": prop, "kind": "property-monitor-failed-on-implementation", "config": cfg,
            "ops": [ops[i]], "monitor": text,
            "all": [{"config": c, "op": ops[j], "monitor": t} for c, j, t in first(mon_hits, 20)],
            "count": len(mon_hits)})
        violations.append((rp, True, f"{len(mon_hits)} monitor failure(s), first: {ops[i][:120]} :: {text[:160]}"))
    if crash_hits:
        cfg, i, kind, err = crash_hits[0]
        rp = write_replay(prop, "crash", {
            "property": prop, "kind": "implementation-crashed (sanitizer report or signal)", "config": cfg,
            "ops": [ops[i]], "crash": kind, "stderr": err,
            "all": [{"config": c, "op": ops[j], "crash": k} for c, j, k, _ in first(crash_hits, 20)]})
        violations.append((rp, True, f"{len(crash_hits)} crash(es), first: {ops[i][:120]} :: {kind}"))
    if diff_hits:
        cfg, i, keys, a, b = diff_hits[0]
        is_viol = spec.diff_is_violation
        rp = write_replay(prop, "correspondence", {
            "property": prop, "kind": "correspondence: implementation and model differ", "config": cfg,
            "ops": [ops[i]], "keys": keys, "impl": a, "model": b,
            "note": ("the property pins these outputs, so the differing op is itself the failing input"
                     if is_viol else
                     "model no longer describes the code; the theorems no longer transfer. "
                     "No monitor failed on the implementation for these ops."),
            "all": [{"config": c, "op": ops[j], "keys": k, "impl": x, "model": y}
                    for c, j, k, x, y in first(diff_hits, 20)], "count": len(diff_hits)})
        found = is_viol or bool(mon_hits) or bool(crash_hits)
        if not (mon_hits or crash_hits) or is_viol:
            violations.append((rp, found, f"{len(diff_hits)} correspondence difference(s), first: {ops[i][:120]} keys={keys}"))
    if broken or gen_failed:
        found = bool(mon_hits or crash_hits or (diff_hits and spec.diff_is_violation))
        if not found:
            rp = write_replay(prop, "obligation", {
                "property": prop, "kind": "proof obligation no longer checks",
                "broken": broken[:20], "gen_error": msg if gen_failed else None,
                "note": "searched the implementation with the property monitors and the model correspondence; no failing input found"})
            names = sorted({str(e["theorem"]) for e in broken})[:6]
            violations.append((rp, False, "lean build failed in " + ", ".join(names)))
    if problems:
        rp = write_replay(prop, "audit", {"property": prop, "kind": "axiom/sorry audit failed", "problems": problems})
        violations.append((rp, False, "audit: " + problems[0][:200]))

    # known findings
    for k in known:
        if k["id"] in known_seen:
            print(f"KNOWN-FINDING: property={prop} {k['id']} {k['what']}", flush=True)
        else:
            # the recorded witness no longer fails the recorded way: not an alarm, but say so
            notes.append(f"known finding {k['id']} did not reproduce in this run")

    wall = time.time() - t0
    disc = discharged if obligations else 0
    ev = {
        "property_id": prop, "tier": tier, "seed": seed, "level": "proof",
        "coverage": {
            # when nothing was discharged (the Lean build broke) the proof keys are withheld: the schema reads
            # obligations/discharged as a proof-level claim; the counts are still reported under other names
            **({"obligations": max(1, len(obligations)), "discharged": disc} if disc > 0 else
               {"obligations_stated": len(obligations), "obligations_discharged": 0,
                "explanation": "the Lean build failed on this tree: no obligation is discharged, see violations"}),
            "checker_cmd": f"cd lean && lake build {' '.join(lean_targets)} && lake env lean work/Audit_{prop}.lean  (#print axioms)",
            "trusted_base": TRUSTED_BASE + spec.extra_trust,
            "theorems": audited,
            "not_yet_proved": props.missing(prop),
            "evaluations": len(ops) * max(1, len(runs)),
            "distinct_nontrivial": len(distinct),
            "rule": spec.rule,
            "samples": samples,
            "input_distribution": stats,
            "monitor_failures": len(mon_hits), "crashes": len(crash_hits), "correspondence_diffs": len(diff_hits),
            "known_findings_reproduced": sorted(known_seen.keys()),
            "notes": notes,
        },
        "assumptions": spec.assumptions,
        "wall_s": round(wall, 2),
        "violations": len(violations),
    }
    os.makedirs(os.path.join(VERIF, "evidence"), exist_ok=True)
    with open(os.path.join(VERIF, "evidence", f"{prop}.json"), "w") as f:
        json.dump(ev, f, indent=1)
    log(f"{prop} {tier}: {len(ops)} ops x {len(exes)} config(s), {discharged}/{len(obligations)} obligations, "
        f"{len(mon_hits)} monitor, {len(crash_hits)} crash, {len(diff_hits)} diff, {wall:.1f}s")
    if violations:
        for rp, found, summary in violations:
            log("  " + summary)
        # one VIOLATION line per distinct replay
        for rp, found, summary in violations:
            print(f"VIOLATION property={prop} replay={rp}" + ("" if found else " no-failing-input-found"), flush=True)
        return 1
    return 0


def replay(path):
    data = json.load(open(path))
    prop = data.get("property")
    ops = data.get("ops") or []
    print(json.dumps({k: v for k, v in data.items() if k not in ("all", "stderr")}, indent=1)[:4000])
    if not ops:
        print("(no concrete input in this replay file: it names the obligation/correspondence that no longer checks)")
        return 1
    regen()
    cfg = data.get("config", "asan")
    exe, err = build_harness(cfg)
    if exe is None:
        print(err)
        return 1
    lake_build(["vdriver"])
    impl, monitors, crashes = run_harness(exe, ops, WORK, "replay")
    model = run_driver(ops)
    bad = False
    for i, o in enumerate(ops):
        print("op    :", o[:500])
        print("impl  :", (impl[i] or "")[:1000])
        print("model :", model[i][:1000])
        for (j, p_, t) in monitors:
            if j == i:
                print(f"MONITOR {p_}: {t}")
                bad = bad or p_ == prop
        if impl[i] != model[i]:
            bad = True
    for (j, k, e) in crashes:
        print("CRASH", k)
        print(e[-1500:])
        bad = True
    print("still failing" if bad else "no longer failing")
    return 1 if bad else 0


def setup():
    ok, msg = regen()
    log(msg)
    if not ok:
        return 1
    for cfg in ("asan", "o2"):
        exe, err = build_harness(cfg)
        if exe is None:
            log("harness build failed:\n" + (err or ""))
            return 1
    built, out = lake_build(["vdriver", "Varint"])
    if not built:
        print(out[-6000:])
        return 1
    log("setup complete")
    return 0


def main():
    ap = argparse.ArgumentParser()
    ap.add_argument("what")
    ap.add_argument("path", nargs="?")
    ap.add_argument("--tier", default=os.environ.get("VERIF_TIER", "quick"))
    a = ap.parse_args()
    seed = int(os.environ.get("VERIF_SEED", "1"))
    if a.what == "setup":
        sys.exit(setup())
    if a.what == "replay":
        sys.exit(replay(a.path))
    if a.what not in props.PROPS:
        print(f"unknown property {a.what}")
        sys.exit(2)
    sys.exit(check_property(a.what, a.tier if a.tier in ("quick", "thorough") else "quick", seed))


if __name__ == "__main__":
    main()
