"""Seeded, boundary-directed generators of operation lines (one PRNG state per run).

Every generator takes (rng, tier) and returns a list of op lines. Values are hex without prefix.
"""
import random

M64 = (1 << 64) - 1
SCALAR_FAMS = ["tagged", "ext", "extbe", "chained", "csimple", "split", "sfull", "snz", "s16"]


def boundaries():
    b = set()
    base = [0, 1, 2, 63, 64, 65, 127, 128, 129, 239, 240, 241, 242, 247, 248, 249, 255, 256, 257, 2287, 2288, 2289,
            16383, 16384, 16446, 16447, 16448, 16701, 16702, 65535, 65536, 67823, 67824, 81981, 81982,
            4194303, 4194304, 4210686, 4210687, 4210749, 4210750, 4210751, 4211004, 4211005, 4211006, 4276284,
            4276285, 4276286, 16777215, 16777216, 16793661, 16793662, 20987964, 20987965, 20987966,
            1077952509, 1077952510, 4294967295, 4294967296, 4294983741, 4294983742, 4299178044, 4299178045,
            4299178046]
    b.update(base)
    for k in range(1, 65):
        for d in (-2, -1, 0, 1):
            b.add(((1 << k) + d) & M64)
    for off in (63, 64, 16446, 16447, 4210749, 4210750, 1077952509, 240, 2288):
        for j in range(1, 9):
            for d in (-1, 0, 1, 2):
                b.add((off + (1 << (8 * j)) + d - 1) & M64)
    for j in range(1, 10):
        for d in (-1, 0, 1):
            b.add(((1 << (7 * j)) + d) & M64)
    b.add(M64)
    b.add(M64 - 1)
    return sorted(b)


BOUNDS = boundaries()


def logu(rng):
    k = rng.randint(1, 64)
    v = rng.getrandbits(k) | (1 << (k - 1))
    c = rng.random()
    if c < 0.1:
        v = (1 << k) - 1
    elif c < 0.2:
        v = 1 << (k - 1)
    return v & M64


def scalar_values(rng, tier, nrand=None):
    n = nrand if nrand is not None else (3000 if tier == "quick" else 60000)
    vals = list(BOUNDS)
    vals += [logu(rng) for _ in range(n)]
    return vals


def hx(v):
    return format(v, "x")


# ---------------------------------------------------------------- C01 / C04
def gen_scalar_all(rng, tier, fams=None):
    ops = []
    fams = fams or SCALAR_FAMS
    vals = scalar_values(rng, tier)
    aligns = [0] if tier == "quick" else list(range(8))
    for al in aligns:
        ops.append(f"align {al}")
        use = vals if al == 0 else BOUNDS + [logu(rng) for _ in range(2000)]
        for f in fams:
            for v in use:
                if f == "snz" and v == 0:
                    continue
                ops.append(f"{f}.all {hx(v)}")
    ops.append("align 0")
    # the decoders' inputs start k bytes before a page boundary (k = 1..9): every encoding longer than k straddles it
    edge = [v for v in BOUNDS if v < 300 or v >= (1 << 14)]
    for k in range(1, 10):
        ops.append(f"place {k}")
        use = edge if tier != "quick" else [v for v in edge if rng.random() < 0.35 or v >= (1 << 55)]
        for f in fams:
            for v in use:
                if f == "snz" and v == 0:
                    continue
                ops.append(f"{f}.all {hx(v)}")
    ops.append("place 0")
    return ops


def tagged_len(v):
    for k, m in enumerate([240, 2287, 67823, (1 << 24) - 1, (1 << 32) - 1, (1 << 40) - 1, (1 << 48) - 1,
                           (1 << 56) - 1]):
        if v <= m:
            return k + 1
    return 9


def ext_len(v):
    n = 1
    while v >> 8:
        v >>= 8
        n += 1
    return n


def gen_scalar_fixed(rng, tier):
    ops = []
    vals = scalar_values(rng, tier, 800 if tier == "quick" else 20000)
    aligns = [0, 3] if tier == "quick" else list(range(8))
    for al in aligns:
        ops.append(f"align {al}")
        for v in (vals if al == aligns[0] else BOUNDS):
            tl = tagged_len(v)
            for w in range(1, 10):
                # every legal width, plus (fewer) illegal ones: those are compared with the model only
                if w == tl or (w >= 4 and w >= tl) or rng.random() < 0.15:
                    ops.append(f"tagged.fixed {hx(v)} {w}")
            el = ext_len(v)
            for w in range(1, 9):
                if w >= el or rng.random() < 0.15:
                    ops.append(f"ext.fixed {hx(v)} {w}")
                    ops.append(f"extbe.fixed {hx(v)} {w}")
    ops.append("align 0")
    for k in range(1, 9):
        ops.append(f"place {k}")
        for v in [x for x in BOUNDS if x >= (1 << 14) and (tier != "quick" or rng.random() < 0.3 or x >= (1 << 55))]:
            el = ext_len(v)
            for w in range(max(el, k), 9):
                ops.append(f"ext.fixed {hx(v)} {w}")
                ops.append(f"extbe.fixed {hx(v)} {w}")
            if tagged_len(v) >= 4:
                ops.append(f"tagged.fixed {hx(v)} {tagged_len(v)}")
    ops.append("place 0")
    return ops


def gen_signed(rng, tier):
    ops = []
    for w in (3, 5, 6, 7):
        lim = (1 << (8 * w - 1)) - 1
        pts = {0, 1, -1, 2, -2, 5, -5, 127, -127, 128, -128, 255, -255, 256, -256, lim, -lim, lim - 1, -(lim - 1)}
        for k in range(1, 8 * w - 1):
            for d in (-1, 0, 1):
                x = (1 << k) + d
                if abs(x) <= lim:
                    pts.add(x)
                    pts.add(-x)
        n = 300 if tier == "quick" else 20000
        for _ in range(n):
            k = rng.randint(1, 8 * w - 1)
            x = rng.getrandbits(k)
            if x <= lim:
                pts.add(x if rng.random() < 0.5 else -x)
        for s in sorted(pts):
            ops.append(f"signed.rt {w} {s}")
    return ops


def gen_scalar_dec(rng, tier):
    """byte strings the formats admit but the encoders would not necessarily produce"""
    ops = []
    n = 1500 if tier == "quick" else 40000

    def rb(k):
        return bytes(rng.getrandbits(8) for _ in range(k))

    for _ in range(n):
        # chained: random flags on 9 bytes (leading zero groups, arbitrary 9-byte payloads)
        body = bytearray(rb(10))
        stop = rng.randint(0, 9)
        for i in range(9):
            if i < stop:
                body[i] |= 0x80
            elif i == stop:
                body[i] &= 0x7f
        if rng.random() < 0.2:
            for i in range(rng.randint(1, 4)):
                body[i] = 0x80
        ops.append("chained.dec hex:" + bytes(body).hex())
        body2 = bytearray(rb(10))
        stop = rng.randint(0, 9)
        for i in range(9):
            if i < stop:
                body2[i] |= 0x80
            elif i == stop:
                body2[i] &= 0x7f
        ops.append("csimple.dec hex:" + bytes(body2).hex())
        # tagged: any first byte with 9 bytes available
        t = bytearray(rb(9))
        if rng.random() < 0.5:
            t[0] = rng.choice([0, 240, 241, 248, 249, 250, 251, 252, 253, 254, 255])
        ops.append("tagged.dec hex:" + bytes(t).hex())
        # split families: type byte with admissible payload width
        for fam, vartag, mask in (("split", 0x80, 0x3f), ("sfull", 0xc0, 0x0f), ("snz", 0xc0, 0x0f),
                                  ("s16", 0xc0, 0x0f)):
            p = bytearray(rb(10))
            c = rng.random()
            if c < 0.5:
                p[0] = vartag | rng.randint(1, 8)
            elif fam == "split":
                p[0] = rng.randint(0, 0x7f)
            else:
                p[0] = rng.randint(0, 0xbf)
            ops.append(f"{fam}.dec hex:" + bytes(p).hex())
    return ops


def gen_sweeps(rng, tier):
    ops = []
    cnt = 20000 if tier == "quick" else 2000000
    for f in SCALAR_FAMS:
        ops.append(f"sweep {f} {hx(rng.getrandbits(63))} {hx(cnt)}")
    return ops


# ---------------------------------------------------------------- C05
def gen_tagged_cmp(rng, tier):
    ops = []
    bs = [v for v in BOUNDS if True]
    key = [0, 1, 239, 240, 241, 2287, 2288, 67823, 67824, (1 << 24) - 1, 1 << 24, (1 << 32) - 1, 1 << 32,
           (1 << 40) - 1, 1 << 40, (1 << 48) - 1, 1 << 48, (1 << 56) - 1, 1 << 56, M64 - 1, M64]
    pool = sorted(set(key + [v for v in bs if rng.random() < (0.25 if tier == "quick" else 1.0)]))
    for a in pool:
        for b in pool:
            ops.append(f"tagged.cmp {hx(a)} {hx(b)}")
    n = 20000 if tier == "quick" else 1000000
    for _ in range(n):
        a = logu(rng)
        c = rng.random()
        if c < 0.5:
            # differ in exactly one payload byte
            j = rng.randint(0, 7)
            b = a ^ (rng.randint(1, 255) << (8 * j))
        elif c < 0.7:
            b = (a + rng.choice([-1, 1])) & M64
        else:
            b = logu(rng)
        ops.append(f"tagged.cmp {hx(a)} {hx(b & M64)}")
    nt = 5000 if tier == "quick" else 100000
    for _ in range(nt):
        k = rng.randint(2, 4)
        a = [rng.choice(pool) if rng.random() < 0.5 else logu(rng) for _ in range(k)]
        b = list(a)
        # share a prefix, then diverge
        j = rng.randint(0, k - 1)
        for i in range(j, k):
            if rng.random() < 0.7:
                b[i] = rng.choice(pool) if rng.random() < 0.5 else logu(rng)
        ops.append(f"tagged.cmpt {k} " + " ".join(hx(x) for x in a) + " " + " ".join(hx(x) for x in b))
    return ops


# ---------------------------------------------------------------- C12
def i64(v):
    return v - (1 << 64) if v >= (1 << 63) else v


def gen_add(rng, tier):
    ops = []
    edges_t = [240, 2287, 67823, (1 << 24) - 1, (1 << 32) - 1, (1 << 40) - 1, (1 << 48) - 1, (1 << 56) - 1]
    edges_e = [(1 << (8 * k)) - 1 for k in range(1, 8)]
    IMAX, IMIN = (1 << 63) - 1, -(1 << 63)

    def clampi(x):
        return max(IMIN, min(IMAX, x))

    cases = set()
    for e in edges_t + edges_e + [0, 1, IMAX, IMAX - 1, (1 << 63), (1 << 63) + 1, M64, M64 - 1]:
        for dv in (-2, -1, 0, 1, 2):
            v = (e + dv) & M64
            for am in (-3, -2, -1, 0, 1, 2, 3, 255, 256, -256, 65536, IMAX, IMIN, IMAX - 1, IMIN + 1,
                       clampi(e + 1 - i64(v)), clampi(e - i64(v)), clampi(-i64(v)), clampi(-i64(v) - 1),
                       clampi(IMAX - i64(v)), clampi(IMAX - i64(v) + 1), clampi(IMIN - i64(v)),
                       clampi(IMIN - i64(v) - 1)):
                cases.add((v, am))
    # carries and borrows that stop INSIDE a wide value (no change of width, high bytes untouched): the low j bytes
    # are all ones (or all zeros) below an arbitrary byte j of a w-byte value; small, 16-bit and 32-bit amounts
    for w in range(2, 9):
        for j in range(1, w):
            for _ in range(2 if tier == "quick" else 12):
                top = rng.randint(1, 255) if w < 8 else rng.randint(1, 127)
                mid = rng.getrandbits(8 * max(0, w - 1 - j)) if w - 1 - j > 0 else 0
                bytej = rng.randint(1, 0xFE)
                if j == w - 1:
                    hi = min(bytej, top) or 1
                else:
                    hi = (top << (8 * (w - 1 - j))) | (mid & ~0xFF) | bytej
                ones = (1 << (8 * j)) - 1
                for r in (0, 1, 200, 32766):
                    if r <= ones:
                        for am in (r + 1, r + 2, r + 256, 32767):
                            if am <= 32767 or r == 0:
                                cases.add((((hi << (8 * j)) | (ones - r)) & M64, am))
                        for am in (-(r + 1), -(r + 2), -(r + 256), -32768):
                            cases.add((((hi << (8 * j)) | r) & M64, am))
    n = 3000 if tier == "quick" else 100000
    for _ in range(n):
        v = logu(rng)
        c = rng.random()
        if c < 0.4:
            am = i64(logu(rng)) if rng.random() < 0.5 else -i64(logu(rng) >> 1)
        elif c < 0.7:
            tgt = rng.choice(edges_t + edges_e) + rng.randint(-1, 2)
            am = clampi(tgt - i64(v))
        else:
            am = rng.randint(-300, 300)
        cases.add((v, clampi(am)))
    for v, am in sorted(cases):
        for force in (0, 1):
            ops.append(f"tagged.add {hx(v)} {am} {force}")
            tl = tagged_len(v)
            for w in sorted({max(4, tl), 9, rng.randint(max(4, tl), 9)}):
                if w != tl:
                    ops.append(f"tagged.add {hx(v)} {am} {force} {w}")
            el = ext_len(v)
            widths = {el, 8} | ({el + 1} if el < 8 else set())
            for w in sorted(widths):
                ops.append(f"ext.add {hx(v)} {w} {am} {force}")
    return ops


# ---------------------------------------------------------------- C14 (tagged part)
def gen_tagged_getn(rng, tier):
    ops = []
    # exhaustive: all byte strings of length <= 2 with every n in -1..3
    # the declared size never exceeds the bytes really handed over (a larger n is the caller's error)
    for n in (-1, 0):
        ops.append(f"tagged.getn hex: {n}")
    for b0 in range(256):
        for n in (0, 1):
            ops.append(f"tagged.getn hex:{b0:02x} {n}")
    step = 1 if tier != "quick" else 7
    for b0 in list(range(236, 256)) + [0, 100]:
        for b1 in range(0, 256, step):
            for n in (1, 2):
                ops.append(f"tagged.getn hex:{b0:02x}{b1:02x} {n}")
    # every truncation of valid encodings
    cnt = 400 if tier == "quick" else 20000
    for v in BOUNDS + [logu(rng) for _ in range(cnt)]:
        enc = tagged_enc(v)
        for n in range(0, len(enc) + 1):
            ops.append(f"tagged.getn hex:{enc[:n].hex()} {n}")
        ops.append(f"tagged.getn hex:{enc.hex()} {rng.randint(0, len(enc))}")
        pad = enc + bytes(rng.getrandbits(8) for _ in range(3))
        ops.append(f"tagged.getn hex:{pad.hex()} {rng.randint(0, len(pad))}")
    for _ in range(cnt * 3):
        ln = rng.randint(0, 12)
        bs = bytearray(rng.getrandbits(8) for _ in range(ln))
        if ln and rng.random() < 0.6:
            bs[0] = rng.randint(241, 255)
        ops.append(f"tagged.getn hex:{bytes(bs).hex()} {rng.randint(-1, ln)}")
    return ops


def tagged_enc(v):
    if v <= 240:
        return bytes([v])
    if v <= 2287:
        return bytes([(v - 240) // 256 + 241, (v - 240) % 256])
    if v <= 67823:
        return bytes([249, (v - 2288) // 256, (v - 2288) % 256])
    n = tagged_len(v)
    return bytes([246 + n]) + v.to_bytes(n - 1, "big")


# ---------------------------------------------------------------- C04 maxima (README cells + header constants)
README_FAM = {"Tagged": "tagged", "Split": "split", "Split Full": "sfull", "Split Full No Zero": "snz",
              "Split Full 16": "s16", "Chained": "chained"}


def gen_maxima(readme_path):
    import re
    ops = []
    rows = []
    for ln in open(readme_path):
        if ln.startswith("|"):
            rows.append([c.strip() for c in ln.strip().strip("|").split("|")])
    for r in rows:
        if len(r) < 6 or r[0] not in README_FAM and r[0] != "External":
            continue
        cells = r[2:6]
        for k, c in enumerate(cells, 1):
            c = c.replace(",", "")
            if not re.fullmatch(r"\d+", c):
                continue
            m = int(c)
            if r[0] == "External":
                # "external metadata": k payload bytes; "first byte": k-1 payload bytes after a length byte
                kk = k if r[1] == "external metadata" else k - 1
                if kk >= 1:
                    ops.append(f"maxcell ext {kk} {hx(m)}")
            elif r[1] in ("first", "second"):
                # level table: the cell is the largest value of that level with k bytes -> it needs <= k bytes,
                # exactness (next value needs more) only holds for the family maximum rows, checked via table 1
                continue
            else:
                ops.append(f"maxcell {README_FAM[r[0]]} {k} {hx(m)}")
    for k in range(1, 10):
        ops.append(f"hdrmax tagged {k}")
        if k != 3:
            ops.append(f"hdrmax sfull {k}")
            ops.append(f"hdrmax snz {k}")
    return ops


# ---------------------------------------------------------------- array codecs (C02 C03 C13 C16)
ARRAY_CODECS = ["delta", "deltau", "for", "forb", "pfor", "group", "dict", "rle", "rleh", "egamma", "edelta",
                "bp32", "bp64", "bpd32", "bpd64"]
LENS_QUICK = [1, 2, 3, 7, 8, 9, 15, 16, 17, 63, 64, 65, 127, 128, 129, 130, 240, 241, 255, 256, 257, 300, 383, 384,
              385, 1000, 2287, 2288, 4095, 4096, 4097]
LENS_THOROUGH = LENS_QUICK + [9999, 10000, 10001, 16383, 16384, 65535, 65536, 65537]
RANGES = sorted(set([0, 1, 2, 15, 16, 100, 127, 128, 239, 240, 241, 254, 255, 256, 257, 2287, 2288, 65534, 65535, 65536,
                     67823, 67824, (1 << 24) - 2, (1 << 24) - 1, 1 << 24, (1 << 32) - 2, (1 << 32) - 1, 1 << 32,
                     (1 << 40) - 1, 1 << 40, (1 << 48) - 1, 1 << 48, (1 << 56) - 2, (1 << 56) - 1, 1 << 56,
                     (1 << 62), (1 << 63) - 1, 1 << 63, M64 - 1, M64] +
                    [(1 << k) - 1 for k in range(1, 65)] + [1 << k for k in range(1, 64)]))
LOS = [0, 1, 63, 240, 241, 255, 256, 2287, 2288, 65535, 67824, 1 << 24, (1 << 32) - 1, 1 << 32, 1 << 40, 1 << 56,
       (1 << 63) - 1, 1 << 63]
SHAPES = "radcupo"


def arr_spec(rng, n, shape=None, lo=None, rg=None, maxbits=64):
    shape = shape or rng.choice(SHAPES)
    rg = rng.choice(RANGES) if rg is None else rg
    lim = (1 << maxbits) - 1
    rg = min(rg, lim)
    lo = rng.choice(LOS) if lo is None else lo
    if lo + rg > lim:
        lo = lim - rg if rng.random() < 0.7 else 0
    return f"@{shape}:{hx(rng.getrandbits(62))}:{hx(n)}:{hx(lo)}:{hx(rg)}"


def explicit(vals):
    return f"{hx(len(vals))} " + " ".join(hx(v) for v in vals)


def gen_rle_hostile(rng, tier):
    """hostile run-length streams for the capacity-taking RLE decoders: run lengths above the capacity, equal to the room
    left, 0 in the middle, and close to 2^64 (a sum decoded-so-far + run length that wraps)"""
    ops = []
    big = [M64, M64 - 1, M64 - 2, M64 - 4, M64 - 99, 1 << 63, (1 << 63) + 5, (1 << 32), (1 << 32) - 1]
    for cap in (0, 1, 2, 7, 100, 128, 1000):
        for hdr in (0, 1):
            shapes = []
            for b in big:
                shapes.append([(5, 7), (b, 9)])
                shapes.append([(1, 7), (b - 1, 9), (3, 4)])
                shapes.append([(b, 9)])
            shapes += [[(cap, 3)], [(cap + 1, 3)], [(max(cap, 1) - 1, 3), (1, 4), (1, 5)], [(2, 3), (0, 9), (4, 4)],
                       [(cap // 2, 1), (cap - cap // 2, 2), (1, 3)], [(3, 1)] * 5]
            if tier == "quick":
                shapes = [sh for sh in shapes if rng.random() < 0.45]
            for sh in shapes:
                # with a header the decoder reads runs until `total` elements are produced: a well-formed stream
                # holds at least that many (the decoder takes no input length, so reading on is the caller's contract)
                S = sum(a & M64 for a, _ in sh)
                totals = [0] if not hdr else sorted({min(cap, S), max(min(cap, S), 1) - 1, cap + 1, 0})
                for total in totals:
                    ops.append(f"rle.cap cap={hx(cap)} hdr={hdr} total={hx(total)} " +
                               " ".join(f"{hx(a & M64)} {hx(v)}" for a, v in sh))
    return ops


def gen_arrays(rng, tier, codecs=None):
    codecs = codecs or ARRAY_CODECS
    lens = LENS_QUICK if tier == "quick" else LENS_THOROUGH
    per_len = 2 if tier == "quick" else 6
    ops = []
    specials = [[0], [M64], [0, M64], [M64, 0], [M64] * 5, [0] * 9, [1, 2, 3], [5, 5, 7, 7, 7, 9],
                [M64, M64 - 1, 0, 1], [1 << 63, 0, (1 << 63) - 1], [240, 241, 2287, 2288, 67823, 67824],
                list(range(100, 80, -1)), [255] * 3 + [0], [0, 255, 256], [0, 65535, 65536], [7] * 130,
                [(1 << 32) - 1, 1 << 32, (1 << 32) + 1], [3, 1, 2] * 50]
    for c in codecs:
        maxbits = 32 if c in ("bp32", "bpd32") else 64
        for s in specials:
            if c == "group" and len(s) > 64:
                continue
            if c == "delta":
                s = [x if x < (1 << 62) else (x | (3 << 62)) & M64 for x in s]  # keep differences representable
                s = [x if x < (1 << 62) or x >= M64 - (1 << 61) else x >> 3 for x in s]
            ops.append(f"{c}.rt {explicit(s)}")
        ops.append(f"{c}.rt 0")
        glen = [1, 2, 3, 4, 5, 7, 8, 9, 31, 32, 33, 63, 64, 65, 255, 256] if c == "group" else lens
        for n in glen:
            for _ in range(per_len):
                if c == "delta":
                    # signed: magnitudes below 2^62 around zero so that differences are representable
                    rg = min(rng.choice(RANGES), (1 << 62) - 1)
                    lo = rng.choice([0, 1, M64 - 5, M64 - (rg // 2), M64 - rg]) & M64
                    if lo + rg > M64 and lo < (1 << 63):
                        lo = 0
                    ops.append(f"{c}.rt @{rng.choice(SHAPES)}:{hx(rng.getrandbits(62))}:{hx(n)}:{hx(lo)}:{hx(rg)}")
                elif c == "pfor":
                    t = rng.choice([0x5a, 0x5f, 0x63, 0x5f, 0x5f, 0, 1, 0x32, 0x64])
                    if rng.random() < 0.5:
                        # outlier shapes whose in-range span is 256^k - 1 (marker coincidence) or just around it
                        k = rng.randint(1, 7)
                        span = (1 << (8 * k)) - 1 + rng.choice([-1, 0, 0, 0, 1])
                        lo = rng.choice([0, 1, 1000, 1 << 33])
                        body = [lo + rng.randint(0, span) for _ in range(max(0, min(n, 400) - 3))]
                        vals = [lo, lo + span] + body + [lo + span + rng.choice([1, 1000, 1 << 40])] * (1 if n > 2 else 0)
                        rng.shuffle(vals)
                        vals = [v & M64 for v in vals][:max(1, min(n, 400))]
                        ops.append(f"pfor.rt {explicit(vals)} t={hx(t)}")
                    else:
                        ops.append(f"pfor.rt {arr_spec(rng, n)} t={hx(t)}")
                else:
                    ops.append(f"{c}.rt {arr_spec(rng, n, maxbits=maxbits)}")
    # sorted data with ONE descent: at the very end (a counter that restarted), at the very start, in the middle;
    # even and odd lengths around unroll factors / block sizes (a presorted fast path that misses a pair)
    for c in codecs:
        maxbits = 32 if c in ("bp32", "bpd32") else 64
        rl = [2, 3, 8, 31, 32, 33, 34, 63, 64, 65, 127, 128, 129, 130, 1000, 1001]
        if c == "group":
            rl = [2, 3, 8, 31, 32, 33, 63, 64]
        if tier != "quick":
            rl = rl + [255, 256, 257, 4096, 4097]
        for n in rl:
            base = rng.choice([5000, 1 << 16, (1 << 24) + 5]) if maxbits == 64 else rng.choice([5000, 1 << 16])
            step = rng.choice([1, 1, 3, 100])
            asc = [base + step * i for i in range(n)]
            variants = [asc[:-1] + [rng.choice([0, 7, base - 1])],          # last below first
                        asc[:-1] + [asc[-2] - 1 if n > 1 else asc[0]],       # last below its predecessor only
                        [asc[-1] + 9] + asc[1:],                             # first above everything
                        asc[:n // 2] + [rng.choice([0, base - 1])] + asc[n // 2 + 1:]]   # one dip in the middle
            if c in ("bpd32", "bpd64"):
                variants = variants[:1] if False else [asc]                  # delta BP128 is specified for non-decreasing input
            for v in variants:
                v = [x & ((1 << maxbits) - 1) for x in v][:n]
                if c == "pfor":
                    for t in (0x5a, 0x5f, 0x63):
                        ops.append(f"pfor.rt {explicit(v)} t={hx(t)}")
                else:
                    ops.append(f"{c}.rt {explicit(v)}")
    # the global minimum / maximum appear only AFTER a block boundary (positions 4097.., 8193..) of an array whose
    # earlier part is already wide (spread above 2^56) or narrow: an analysis that scans in blocks and stops early,
    # or keeps per-block statistics, reports the extremes of a prefix
    for c in codecs:
        if c not in ("for", "forb", "pfor", "bp64", "bp32"):
            continue
        maxbits = 32 if c == "bp32" else 64
        top = (1 << maxbits) - 1
        for n in ([4098, 4100, 8200] if tier == "quick" else [4098, 4099, 4100, 8193, 8200, 12300, 16400, 65540]):
            for wide in (True, False):
                if wide:
                    body = [(1 << (maxbits - 24)) + rng.getrandbits(maxbits - 2) for _ in range(n)]
                    body[0], body[1] = 1 << (maxbits - 24), top - (1 << 20)       # prefix already spans > 2^(maxbits-8)
                else:
                    body = [(1 << 20) + rng.getrandbits(10) for _ in range(n)]
                late = rng.choice([n - 1, n - 2, 4097 if n > 4098 else n - 1, n - 3])
                body[late] = rng.choice([0, 7])
                body[n - 1 if late != n - 1 else n - 2] = top - rng.choice([0, 3])
                if c == "pfor":
                    ops.append(f"pfor.rt {explicit(body)} t={hx(rng.choice([0x5f, 0x64]))}")
                else:
                    ops.append(f"{c}.rt {explicit(body)}")
    # element COUNTS at the boundaries of the tagged varint that stores them in the header (1/2/3/4-byte count field):
    # a header reader that mis-decodes one form of the count is invisible below 67824 elements
    for c in codecs:
        if c not in ("for", "forb", "pfor", "rleh"):
            continue
        ns = [241, 2288, 67824, 67825] if tier == "quick" else [240, 241, 2287, 2288, 67823, 67824, 67825, 70000]
        for n in ns:
            spec = arr_spec(rng, n, lo=rng.choice([0, 1000, 1 << 33]), rg=rng.choice([0xff, 0xffff, 3]))
            ops.append(f"pfor.rt {spec} t=5f" if c == "pfor" else f"{c}.rt {spec}")
    # run lengths straddling the tagged-length boundaries, as first, interior and last run
    for c in ("rle", "rleh"):
        if c in codecs:
            for L in [239, 240, 241, 242, 2287, 2288, 2289, 67823, 67824, 67825]:
                v = rng.choice([0, 7, 240, 241, M64])
                ops.append(f"{c}.rt @c:1:{hx(L)}:{hx(v)}:0")
                ops.append(f"{c}.rt {explicit([1, 2, 3] + [v] * L)}")
                ops.append(f"{c}.rt {explicit([v] * L + [5, 5, 6])}")
                ops.append(f"{c}.rt {explicit([4] + [v] * L + [9] * 3)}")
    # very long runs (streaming / splitting thresholds live at powers of two): 2^k - 1, 2^k, 2^k + 1, 2^k + 2 for
    # k = 16, 17 (thorough: up to 20), starting at an even and at an odd element index, as interior and as last run
    for c in ("rle", "rleh"):
        if c in codecs:
            for k in ([16, 17] if tier == "quick" else [12, 16, 17, 18, 20]):
                for d in (-1, 0, 1, 2):
                    L = (1 << k) + d
                    v = rng.choice([0, 7, M64])
                    lead = rng.choice([[3], [3, 4], [3, 4, 5]])
                    ops.append(f"{c}.rt {explicit(lead + [v] * L)}")
                    ops.append(f"{c}.rt {explicit(lead[:1] + [v] * L + [9, 9, 8])}")
    # dictionary cardinalities straddling the index-width boundaries (exactly k distinct values)
    if "dict" in codecs:
        ks = [1, 2, 255, 256, 257, 65535, 65536, 65537]
        for k in ks:
            base = rng.choice([0, 1, 1 << 20, 1 << 40])
            stride = rng.choice([1, 3, 257])
            vals = [base + stride * i for i in range(k)]
            rng.shuffle(vals)
            if k < 1000 or tier != "quick":
                ops.append(f"dict.rt {explicit(vals)}")
            extra = vals + [rng.choice(vals) for _ in range(rng.randint(1, 300))]
            rng.shuffle(extra)
            ops.append(f"dict.rt {explicit(extra)}")
    # Elias bit streams: every code length at every bit phase of the writer (k one-bit codes first), odd / even /
    # all-ones / single-bit payloads (a word-window fast path that drops a bit needs one exact (phase, length) pair)
    for c in ("egamma", "edelta"):
        if c in codecs:
            for bl in range(1, 65):
                pats = {(1 << (bl - 1)), (1 << bl) - 1, (1 << (bl - 1)) | 1, (1 << (bl - 1)) | (rng.getrandbits(bl) | 1) & ((1 << bl) - 1)}
                for k in range(8):
                    for v in sorted(pats):
                        if tier == "quick" and rng.random() < 0.5:
                            continue
                        pre = [1] * k if rng.random() < 0.7 else [rng.choice([1, 2, 3])] * k
                        ops.append(f"{c}.rt {explicit(pre + [v, 1, 2])}")
    # zig-zag definition
    for s in [0, 1, -1, 2, -2, 63, -64, (1 << 62), -(1 << 62), (1 << 63) - 1, -(1 << 63), -(1 << 63) + 1]:
        ops.append(f"zigzag {s}")
    for _ in range(200 if tier == "quick" else 20000):
        k = rng.randint(1, 63)
        x = rng.getrandbits(k)
        ops.append(f"zigzag {x if rng.random() < 0.5 else -x}")
    return ops


# ---------------------------------------------------------------- C11 bitstream
def gen_bits(rng, tier):
    ops = []
    for W in (8, 16, 32, 64):
        for o in range(W):
            for n in range(1, W + 1):
                if tier == "quick" and W == 64 and rng.random() < 0.5 and not (o + n in (63, 64, 65) or o == 0 or n in (1, 63, 64)):
                    continue
                word = rng.choice([0, 0, 1, 2, 5])
                off = word * W + o
                full = (1 << n) - 1
                vals = {full, rng.getrandbits(n), 1 << (n - 1)}
                if tier != "quick":
                    vals |= {0, 1, rng.getrandbits(n), full - 1 if n > 1 else 0}
                for v in vals:
                    init = rng.choice(["0", "f", "r" + hx(rng.getrandbits(60))])
                    ops.append(f"bits{W}.set init={init} {hx(off)} {hx(n)} {hx(v)}")
    # far offsets: bit 31 / bit 32 / bit 33 of the bit offset set (streams of 256 MiB and more, sparse mapping);
    # every in-slot phase that straddles or ends a slot
    for W in (8, 16, 32, 64):
        bases = [1 << 31, (1 << 31) + (1 << 20), 1 << 32, (1 << 32) + (1 << 31), 1 << 33]
        for base in bases:
            for _ in range(3 if tier == "quick" else 60):
                o = rng.randrange(W)
                n = rng.randint(1, W)
                if rng.random() < 0.7:           # straddle the slot boundary
                    n = min(W, max(n, W - o + 1))
                v = rng.choice([(1 << n) - 1, rng.getrandbits(n), 1 << (n - 1)])
                init = rng.choice(["0", "f", "r" + hx(rng.getrandbits(60))])
                ops.append(f"bits{W}.far init={init} {hx(base + W * rng.randrange(3) + o)} {hx(n)} {hx(v)}")
    for n in range(2, 65):
        lim = (1 << (n - 1)) - 1
        pts = {0, 1, -1, lim, -lim, lim // 2, -(lim // 2)}
        for _ in range(6 if tier == "quick" else 200):
            x = rng.getrandbits(n - 1)
            pts.add(x if rng.random() < 0.5 else -x)
        for s in sorted(pts):
            if abs(s) <= lim:
                ops.append(f"bits.signed {hx(n)} {s}")
    return ops


# ---------------------------------------------------------------- C09 packed arrays
def packed_insts():
    import math
    out = []
    for b in range(1, 33):
        for S in (8, 16, 32, 64):
            period = S // math.gcd(b, S)
            if all(((i * b) % S) + b <= 2 * S for i in range(period)):
                out.append((b, S, "d"))
    out += [(12, 8, "c"), (12, 8, "p"), (12, 32, "q"), (3, 8, "c"), (7, 8, "c"), (16, 8, "c")]
    return out


def gen_packed_far(rng, tier):
    """elements whose bit position index*bits reaches and passes 2^32 (and 2^33): a 32-bit product would wrap"""
    ops = []
    insts = [i for i in packed_insts() if i[2] != "p" and i[0] >= 2]
    fixed = [(12, 32, "d"), (12, 8, "d"), (12, 8, "c"), (12, 32, "q"), (32, 32, "d"), (7, 64, "d"), (3, 8, "c"),
             (17, 16, "d"), (2, 8, "d"), (31, 64, "d")]
    pick = [i for i in fixed if i in insts] + rng.sample(insts, 6 if tier == "quick" else 40)
    for (b, S, var) in pick:
        first = -(-(1 << 32) // b)             # first index with index*b >= 2^32
        cands = [first - 2, first, first + rng.randrange(1, 1000)]
        second = -(-(1 << 33) // b)
        if second + 4 < (1 << 32) - 1:
            cands.append(second)
        for i0 in cands:
            if 16 <= i0 and i0 + 4 < (1 << 32) - 1:
                ops.append(f"packed.far b={hx(b)} s={hx(S)} v={var} i={hx(i0)}")
    return ops


def gen_packed(rng, tier):
    ops = gen_packed_far(rng, tier)
    reps = 1 if tier == "quick" else 6
    for (b, S, var) in packed_insts():
        vmax = (1 << b) - 1
        for _ in range(reps):
            # A: element isolation with arbitrary prior contents; storage is exactly n slots
            n = rng.choice([1, 2, 3, 5, 8])
            cap = (n * S) // b
            if cap == 0:
                n = (b + S - 1) // S + 1
                cap = (n * S) // b
            init = rng.choice(["0", "f", "r" + hx(rng.getrandbits(60))])
            steps = []
            ref = {}
            for _k in range(rng.randint(8, 30)):
                i = rng.choice([0, cap - 1, rng.randrange(cap), rng.randrange(cap)])
                c = rng.random()
                if c < 0.6 or i not in ref:
                    v = rng.choice([0, vmax, 1, 1 << (b - 1), rng.getrandbits(b)])
                    steps.append(f"set:{hx(i)}:{hx(v)}")
                    ref[i] = v
                elif c < 0.8:
                    room = vmax - ref[i]
                    d = rng.choice([0, min(1, room), room, rng.randint(0, room)])
                    steps.append(f"incr:{hx(i)}:{d}")
                    ref[i] += d
                else:
                    steps.append(f"half:{hx(i)}")
                    ref[i] //= 2
            ops.append(f"packed.hist b={hx(b)} s={hx(S)} v={var} n={hx(n)} init={init} " + " ".join(steps))
            # B: sorted multiset semantics
            n = rng.choice([2, 4, 9])
            cap = max(1, (n * S) // b)
            if cap < 3:
                n = (3 * b + S - 1) // S + 1
                cap = (n * S) // b
            arr = []
            steps = []
            pool = [rng.getrandbits(b) for _ in range(6)] + [0, vmax]
            for _k in range(rng.randint(10, 40)):
                c = rng.random()
                v = rng.choice(pool)
                if (c < 0.5 and len(arr) < cap - 1) or not arr:
                    if len(arr) >= cap - 1:
                        continue
                    steps.append(f"inss:{hx(len(arr))}:{hx(v)}")
                    import bisect
                    arr.insert(bisect.bisect_left(arr, v), v)
                elif c < 0.65:
                    steps.append(f"mem:{hx(len(arr))}:{hx(v)}")
                elif c < 0.8:
                    steps.append(f"bs:{hx(len(arr))}:{hx(v)}")
                elif c < 0.92:
                    steps.append(f"delm:{hx(len(arr))}:{hx(v)}")
                    if v in arr:
                        arr.remove(v)
                else:
                    off = rng.randrange(len(arr))
                    steps.append(f"del:{hx(len(arr))}:{hx(off)}")
                    arr.pop(off)
            ops.append(f"packed.hist b={hx(b)} s={hx(S)} v={var} n={hx(n)} init=0 " + " ".join(steps))
            # C: positional insert / delete
            ln = 0
            steps = []
            for _k in range(rng.randint(6, 25)):
                if ln < cap - 1 and (ln == 0 or rng.random() < 0.6):
                    off = rng.randint(0, ln)
                    steps.append(f"ins:{hx(ln)}:{hx(off)}:{hx(rng.getrandbits(b))}")
                    ln += 1
                elif ln > 0:
                    off = rng.randrange(ln)
                    steps.append(f"del:{hx(ln)}:{hx(off)}")
                    ln -= 1
            ops.append(f"packed.hist b={hx(b)} s={hx(S)} v={var} n={hx(n)} init={rng.choice(['0', 'f'])} " + " ".join(steps))
    # D: LONG arrays (1030 .. 4300 elements): positional delete / insert whose moved tail is just below, at and
    # above 1024 / 2048 / 4096 elements (a tail moved in blocks has seams there), on random contents; and a long sorted
    # array built by sorted insertion, then delete-member / membership at both ends and in the middle
    fixed = [(12, 32, "d"), (3, 8, "d"), (32, 32, "d"), (7, 64, "d"), (12, 8, "c"), (17, 16, "d"), (1, 8, "d")]
    insts = [i for i in fixed if i in packed_insts()]
    if tier != "quick":
        insts += rng.sample([i for i in packed_insts() if i[2] != "p"], 12)
    for (b, S, var) in insts:
        for ln0 in ([1030, 2100, 4300] if tier == "quick" else [1026, 1030, 2049, 2100, 3000, 4097, 4300]):
            n = (ln0 + 8) * b // S + 2
            ln = ln0
            steps = []
            for tail in (1023, 1024, 1025, 1026, 2047, 2048, 2049, 4096, 4097, ln0 - 1, ln0 // 2, 0, 1):
                if tail < ln:
                    steps.append(f"del:{hx(ln)}:{hx(ln - 1 - tail)}")
                    ln -= 1
                    steps.append(f"ins:{hx(ln)}:{hx(ln - tail if tail <= ln else 0)}:{hx(rng.getrandbits(b))}")
                    ln += 1
            ops.append(f"packed.hist b={hx(b)} s={hx(S)} v={var} n={hx(n)} init=r{hx(rng.getrandbits(60))} " + " ".join(steps))
        if b >= 12:
            ln0 = 1100 if tier == "quick" else 2300
            n = (ln0 + 8) * b // S + 2
            arr = []
            steps = []
            import bisect
            vals = sorted(rng.sample(range(1 << b), ln0)) if (1 << b) > 4 * ln0 else [rng.getrandbits(b) for _ in range(ln0)]
            rng.shuffle(vals)
            for v in vals:
                steps.append(f"inss:{hx(len(arr))}:{hx(v)}")
                arr.insert(bisect.bisect_left(arr, v), v)
            for pos in (0, 1, 30, len(arr) - 1026, len(arr) - 1025, len(arr) // 2, len(arr) - 2):
                if 0 <= pos < len(arr):
                    v = arr[pos]
                    steps.append(f"mem:{hx(len(arr))}:{hx(v)}")
                    steps.append(f"delm:{hx(len(arr))}:{hx(v)}")
                    arr.remove(v)
                    steps.append(f"bs:{hx(len(arr))}:{hx(v)}")
            ops.append(f"packed.hist b={hx(b)} s={hx(S)} v={var} n={hx(n)} init=0 " + " ".join(steps))
    # E: sorted arrays LARGER THAN 32 KiB with runs of equal elements (init=s<run>): membership / lower bound must return
    # the FIRST equal element also when the run straddles an index that is a multiple of 64 / 1024 / 4096 (a search that
    # first narrows to a block and then searches inside it returns the block's first element instead)
    for (b, S, var) in [i for i in ([(13, 32, "d"), (12, 32, "d")] if tier == "quick" else [(13, 32, "d"), (12, 32, "d"), (17, 16, "d")])
                        if i in packed_insts()]:
        for run in ((5,) if tier == "quick" else (3, 5, 7, 9)):
            ln = 25000 if tier == "quick" else 40000
            if ln // run >= (1 << b):
                continue
            n = (ln * b + S - 1) // S + 2
            steps = []
            for mlt in (64, 128, 1024, 4096, 64 * 301, 64 * 377):
                v = mlt // run
                if (v + 1) * run <= ln:
                    steps.append(f"mem:{hx(ln)}:{hx(v)}")
                    steps.append(f"bs:{hx(ln)}:{hx(v)}")
            steps.append(f"mem:{hx(ln)}:{hx((ln - 1) // run)}")
            steps.append(f"bs:{hx(ln)}:{hx(0)}")
            ops.append(f"packed.hist b={hx(b)} s={hx(S)} v={var} n={hx(n)} init=s{hx(run)} " + " ".join(steps))
    return ops


# ---------------------------------------------------------------- C08 bitmap histories
def gen_bitmap(rng, tier):
    ops = []
    nh = 250 if tier == "quick" else 4000
    edge = [0, 1, 7, 8, 255, 256, 4095, 4096, 4097, 32767, 32768, 65534, 65535]

    def val():
        return rng.choice(edge) if rng.random() < 0.3 else rng.randrange(65536)

    def rng_pair(longp):
        if rng.random() < longp:
            ln = rng.choice([4096, 4097, 4098, 5000, 9000, 30000, 65535])
        else:
            ln = rng.choice([0, 1, 2, 50, 300, 4095, 4096])
        lo = rng.randrange(0, 65536 - min(ln, 65535))
        hi = min(65535, lo + ln)
        return lo, hi

    for h in range(nh):
        toks = []
        style = h % 5
        n = rng.randint(6, 40)
        # seeds that put the set near 4096 members
        if style == 0:
            toks.append(f"addr:0:{hx(rng.choice([4094, 4095, 4096]))}")
        elif style == 1:
            lo, hi = rng_pair(1.0)
            toks.append(f"addr:{hx(lo)}:{hx(hi)}")
        elif style == 2:
            lo, hi = rng_pair(1.0)
            # members placed on and around the ends of the long range that follows
            for v in rng.sample([max(0, lo - 1), lo, min(65535, lo + 1), max(0, hi - 1), hi, min(65535, hi + 1), val()], 3):
                toks.append(f"add:{hx(v)}")
            toks.append(f"addr:{hx(lo)}:{hx(hi)}")   # long range on a non-empty set
        elif style == 3:
            toks.append(f"b.addr:0:{hx(rng.choice([100, 4096, 4097, 6000]))}")
            toks.append(f"addr:{hx(50)}:{hx(rng.choice([60, 4200, 8000]))}")
        if h % 7 == 3:
            # a multi-run RUNS container (only a deserialised one has several runs): runs that end and start inside
            # the same 8-value group, end off a byte boundary, total above or below the 4096 switch
            runs, pos = [], rng.choice([0, 3, 4090])
            target = rng.choice([300, 4096, 4100, 9000])
            while sum(l for _, l in runs) < target and len(runs) < 40 and pos < 65000:
                ln = rng.choice([1, 2, 5, 9, 13, 100, 1000, 2047, 4096])
                ln = min(ln, 65536 - pos)
                runs.append((pos, ln))
                pos += ln + rng.choice([1, 2, 3, 5, 7, 8, 9, 64, 1000])
            toks = [("b." if rng.random() < 0.3 else "") + "druns:" + ",".join(f"{hx(a)}-{hx(b)}" for a, b in runs)]
            if toks[0].startswith("b."):
                toks.append("swap")
        for _ in range(n):
            c = rng.random()
            p = "b." if rng.random() < 0.25 else ""
            if c < 0.25:
                toks.append(f"{p}add:{hx(val())}")
            elif c < 0.45:
                # removals aimed at the populated region so that cardinality crosses 4096 downwards
                v = rng.randrange(0, 4200) if rng.random() < 0.6 else val()
                toks.append(f"{p}rem:{hx(v)}")
            elif c < 0.55:
                lo, hi = rng_pair(0.4)
                toks.append(f"{p}addr:{hx(lo)}:{hx(hi)}")
            elif c < 0.63:
                lo, hi = rng_pair(0.3)
                toks.append(f"{p}remr:{hx(lo)}:{hx(hi)}")
            elif c < 0.67:
                toks.append(f"{p}clear")
            elif c < 0.72:
                toks.append(f"{p}clone")
            elif c < 0.78:
                vs = ",".join(hx(val()) for _ in range(rng.randint(1, 12)))
                toks.append(f"{p}addm:{vs}")
            elif c < 0.86:
                toks.append(f"{p}enc")
            elif c < 0.97:
                toks.append(rng.choice(["or", "and", "xor", "andnot"]))
            else:
                toks.append("swap")
        ops.append("bitmap.hist " + " ".join(toks))
    # container-state matrix: each operand is put into one of the internal containers while holding only a FEW
    # members taken from a narrow zone (first byte of the bit array, last byte, around a byte boundary, middle),
    # then every set operation is applied in both operand orders, followed by clone/serialise of the result.
    #   A = array container, few members;  B = dense container with few members (grown past 4096, cleared, refilled:
    #   Clear keeps the container type);  R = one long run (add-range on an empty set);  D = dense, many members
    zones = [[0, 1, 2, 5, 7], [6, 7, 8, 9, 15, 16], [65528, 65530, 65535], [32767, 32768, 40000], [0, 65535], [3]]

    def setup(pfx, kind, members):
        t = []
        if kind == "A":
            t += [f"{pfx}add:{hx(v)}" for v in members]
        elif kind == "B":
            t += [f"{pfx}add:{hx(1)}", f"{pfx}addr:0:{hx(rng.choice([4200, 5000]))}", f"{pfx}clear"]
            t += [f"{pfx}add:{hx(v)}" for v in members]
        elif kind == "R":
            lo = rng.choice([0, 3, 60000 - 4200])
            t += [f"{pfx}addr:{hx(lo)}:{hx(lo + rng.choice([4097, 4200]))}"]
        else:
            t += [f"{pfx}add:{hx(9)}", f"{pfx}addr:0:{hx(rng.choice([4300, 6000]))}"]
            t += [f"{pfx}add:{hx(v)}" for v in members]
        return t

    kinds = ["A", "B", "R", "D"]
    zi = 0
    for ka in kinds:
        for kb in kinds:
            for op in ("and", "or", "xor", "andnot"):
                # the unusual state (dense container, few members) is swept over every zone; the others rotate
                zsel = range(len(zones)) if "B" in (ka, kb) else [zi % len(zones)]
                zi += 1
                for z in zsel:
                    za = zones[z]
                    ma = rng.sample(za, rng.randint(max(1, len(za) - 2), len(za)))
                    shared = rng.choice([v for v in ma if v % 8 != 0] or ma)
                    others = [v for v in rng.choice(zones) if v != shared]
                    mb = [shared] + rng.sample(others, min(len(others), rng.randint(0, max(0, len(ma) - 1))))
                    toks = setup("", ka, ma) + setup("b.", kb, mb)
                    toks += [op, "swap", op, "enc", op]
                    ops.append("bitmap.hist " + " ".join(toks))
    return ops


# ---------------------------------------------------------------- C10 dimension
def gen_dim(rng, tier):
    ops = []
    pts = set()
    for d in range(1, 10):
        for dd in (-1, 0, 1):
            pts.add(max(0, (16 ** d) + dd))
    pts |= {0, 1, 15, 255, (1 << 32) - 1, 1 << 32, (1 << 32) + 1, (1 << 40), M64}
    pts = sorted(pts)
    for r in pts:
        for c in pts:
            if rng.random() < (0.5 if tier == "quick" else 1.0):
                ops.append(f"dim.pack {hx(r)} {hx(c)}")
    for _ in range(300 if tier == "quick" else 20000):
        ops.append(f"dim.pack {hx(logu(rng) >> rng.choice([0, 16, 32, 40]))} {hx(logu(rng) >> rng.choice([0, 16, 32, 40]))}")
    # all 72 width combinations (rows width 0..8, cols width 1..8) with extreme counts
    for wr in range(0, 9):
        for wc in range(1, 9):
            rvals = [0] if wr == 0 else [1 << (8 * (wr - 1)), (1 << (8 * wr)) - 1, rng.getrandbits(8 * wr) | (1 << (8 * (wr - 1)))]
            cvals = [max(1, 1 << (8 * (wc - 1))), (1 << (8 * wc)) - 1, rng.getrandbits(8 * wc) | (1 << (8 * (wc - 1)))]
            for r in rvals:
                for c in cvals:
                    ops.append(f"dim.pair {hx(r)} {hx(c)}")
    # column counts whose stored width has its top bit set (a sign-extended or truncated re-read of the count
    # moves every cell below row 0): huge sparse matrices, only a few pages of which are ever touched
    for cols in [(1 << 32) - 1, 1 << 31, (1 << 31) + 5, (1 << 24) - 1, 1 << 23, 0x8000, 0xFFFF, 0x80, 0xFF,
                 (1 << 32) + 7, (1 << 33) - 1]:
        for rows in (2, 3):
            ops.append(f"dim.far rows={hx(rows)} cols={hx(cols)} w=0")
        if cols <= (1 << 32):
            ops.append(f"dim.far rows=2 cols={hx(cols)} w=1")
        if cols <= (1 << 31):
            ops.append(f"dim.far rows=3 cols={hx(cols)} w={rng.choice([2, 3, 4, 8])}")
    # headers longer than one machine word (rows width + cols width > 8 bytes, up to 16): the row count is only a
    # header field, rows 1..3 are touched
    for wr, wc in [(7, 2), (8, 1), (8, 2), (5, 4), (6, 3), (4, 5), (8, 4), (7, 3), (2, 7), (1, 8), (8, 8)]:
        rows = (1 << (8 * (wr - 1))) + rng.getrandbits(8 * (wr - 1))
        cols = (1 << (8 * (wc - 1))) + (rng.getrandbits(8 * (wc - 1)) if wc > 1 else rng.randrange(1, 255))
        if wc >= 5:
            cols = (1 << (8 * (wc - 1))) + rng.randrange(1, 1000)
        for w in ([0, rng.choice([1, 3, 8])] if cols < (1 << 31) else [0]):
            ops.append(f"dim.far rows={hx(rows)} cols={hx(cols)} w={w} tall=1")
    # matrices
    n = 150 if tier == "quick" else 3000
    for _ in range(n):
        rows = rng.choice([0, 1, 2, 3, 7, 16, 40])
        cols = rng.choice([1, 2, 3, 8, 9, 17, 255, 256, 257, 300])
        if rows * cols > 6000:
            cols = 17
        w = rng.choice(["0", "0", "1", "2", "3", "4", "5", "6", "7", "8", "f4", "f8"])
        nrows = rows if rows else 1
        wb = 1 if w == "0" else 4 if w == "f4" else 8 if w == "f8" else int(w)
        steps = []
        for _k in range(rng.randint(4, 25)):
            r = rng.choice([0, nrows - 1, rng.randrange(nrows)])
            c = rng.choice([0, cols - 1, rng.randrange(cols)])
            if w == "0":
                if rng.random() < 0.3:
                    steps.append(f"tog:{hx(r)}:{hx(c)}")
                else:
                    steps.append(f"set:{hx(r)}:{hx(c)}:{rng.choice([0, 1])}")
            else:
                v = rng.choice([0, (1 << (8 * wb)) - 1, rng.getrandbits(8 * wb)])
                steps.append(f"set:{hx(r)}:{hx(c)}:{hx(v)}")
        init = rng.choice(["0", "f", "r" + hx(rng.getrandbits(60))])
        ops.append(f"dim.cells rows={hx(rows)} cols={hx(cols)} w={w} init={init} " + " ".join(steps))
    return ops


# ---------------------------------------------------------------- C07 float
def dbits(x):
    import struct
    return struct.unpack("<Q", struct.pack("<d", x))[0]


def gen_float(rng, tier):
    ops = []
    pool = [0, 1 << 63, 1, (1 << 52) - 1, 1 << 52, (1 << 52) + 1, 0x7FEFFFFFFFFFFFFF, 0x7FF0000000000000,
            0xFFF0000000000000, 0x7FF8000000000001, 0x7FF0000000000001, 0xFFFFFFFFFFFFFFFF, dbits(1.0), dbits(-1.0),
            dbits(1.9999999999), dbits(0.1), dbits(3.141592653589793), dbits(1e-200), dbits(1e200), dbits(1e-308),
            dbits(1e308), dbits(-2.5e-7), dbits(123456.789), 0x3FFFFFFFFFFFFFFF, 0x400FFFFFFFFFFFFF, 0x7FEFFFFFFFFFFFFE,
            0x001FFFFFFFFFFFFF, 0x3FEFFFFFFFFFFFFF]

    def rnd():
        c = rng.random()
        if c < 0.3:
            return rng.choice(pool)
        s = rng.getrandbits(1) << 63
        if c < 0.5:
            # mantissas that carry on rounding: all ones in the top k fraction bits
            k = rng.choice([4, 10, 23, 30, 52])
            fr = ((1 << 52) - 1) & ~((1 << (52 - k)) - 1) | rng.getrandbits(max(0, 52 - k))
            e = rng.choice([1, 2, 1022, 1023, 1024, 2045, 2046, rng.randint(1, 2046)])
            return s | (e << 52) | fr
        if c < 0.7:
            e = rng.randint(1023 - 30, 1023 + 30)
        else:
            e = rng.randint(1, 2046)
        return s | (e << 52) | rng.getrandbits(52)

    nper = 6 if tier == "quick" else 200
    for p in range(4):
        for m in range(3):
            ops.append(f"float.rt p={p} m={m} 0")
            ops.append(f"float.rt p={p} m={m} {explicit(pool)}")
            for _ in range(nper):
                n = rng.choice([1, 2, 3, 7, 8, 9, 16, 17, 40])
                vals = [rnd() for _ in range(n)]
                if rng.random() < 0.3:
                    # same magnitude: COMMON_EXPONENT's typical data
                    e = rng.randint(1, 2046)
                    vals = [(v & ~(0x7FF << 52)) | (min(2046, max(1, e + rng.randint(-3, 3))) << 52) for v in vals]
                ops.append(f"float.rt p={p} m={m} {explicit(vals)}")
            # exponent spreads on both sides of the 8-bit delta limit of the common-exponent layout; the extreme
            # values either carry into the next exponent when rounded or do not
            for spread in (254, 255, 256, 257):
                for hi_carry in (False, True):
                    for lo_carry in (False, True):
                        elo = rng.randint(1, 2046 - spread)
                        ones = (1 << 52) - 1
                        flo = ones if lo_carry else rng.getrandbits(40)
                        fhi = ones if hi_carry else rng.getrandbits(40)
                        vals = [(elo << 52) | flo, ((elo + spread) << 52) | fhi]
                        mid = [s_ | (rng.randint(elo, elo + spread) << 52) | rng.getrandbits(52)
                               for s_ in (0, 1 << 63)]
                        ops.append(f"float.rt p={p} m={m} {explicit(vals + mid)}")
            if tier != "quick":
                ops.append(f"float.rt p={p} m={m} {explicit([rnd() for _ in range(3000)])}")
    thr = [dbits(2.0 ** -23), dbits(2.0 ** -10), dbits(2.0 ** -4)]
    es = set()
    for t in thr:
        es |= {t - 1, t, t + 1}
    es |= {dbits(x) for x in (1e-10, 1e-9, 1e-12, 1.19e-7, 5e-4, 6e-4, 9.7e-4, 9.8e-4, 0.03, 0.04, 0.0624, 0.0626, 0.5, 0.999)}
    for _ in range(40 if tier == "quick" else 3000):
        es.add(dbits(10 ** rng.uniform(-12, -0.001)))
    for e in sorted(es):
        m = rng.randrange(3)
        vals = [rnd() for _ in range(rng.choice([1, 5, 12]))]
        ops.append(f"float.auto e={hx(e)} m={m} {explicit(vals)}")
    return ops


# ---------------------------------------------------------------- C06 adaptive
def gen_adaptive(rng, tier, slice_only=False):
    ops = []
    big = tier != "quick"
    lens = [1, 2, 3, 5, 19, 20, 100, 101, 255, 256, 1000, 4096, 4097] + ([9999, 10000, 10001, 20000, 65537] if big else [10001])
    ops.append("adaptive.rt 0")
    reps = 1 if slice_only else (2 if tier == "quick" else 8)
    for n in sorted(set(lens + [9999, 10000, 10001])):
        for _ in range(reps):
            only_bitmap_like = n not in lens
            # BITMAP leaf: strictly ascending below 65536, dense; at and above 10000 elements uniqueness is only
            # sampled, so the same inputs with a duplicate the sampler cannot see must not go to BITMAP
            if n <= 10001 and n >= 2:
                span = min(65535, n * rng.choice([1, 2, 5, 15, 19, 21, 40]))
                if span >= n:
                    lo = rng.randint(0, 65535 - span)
                    vals = sorted(rng.sample(range(lo, lo + span + 1), n))
                    ops.append(f"adaptive.rt {explicit(vals)}")
                    # descending / with one duplicate: must NOT lose order or duplicates
                    ops.append(f"adaptive.rt {explicit(vals[::-1])}")
                    dup = list(vals)
                    dup[rng.randrange(1, n)] = dup[0] if n > 1 else dup[0]
                    ops.append(f"adaptive.rt {explicit(sorted(dup))}")
                    if n > 30:
                        dup = list(vals)
                        j = rng.randrange(11, n - 1)
                        j += 1 if j % 10 == 0 else 0
                        dup[j] = dup[j - 1]
                        ops.append(f"adaptive.rt {explicit(dup)}")
            if only_bitmap_like:
                continue
            # DICT leaf
            ops.append(f"adaptive.rt @u:{hx(rng.getrandbits(60))}:{hx(n)}:{hx(rng.choice([0, 7, 1 << 40]))}:{hx(rng.choice([1, 3, 9]))}")
            ops.append(f"adaptive.rt @c:1:{hx(n)}:{hx(rng.choice([0, 5, M64]))}:0")
            # DELTA leaves
            ops.append(f"adaptive.rt @a:{hx(rng.getrandbits(60))}:{hx(n)}:{hx(rng.choice([0, 1000, 1 << 50]))}:{hx(n * rng.choice([1, 10, 900, 5000]))}")
            ops.append(f"adaptive.rt @d:{hx(rng.getrandbits(60))}:{hx(n)}:{hx(rng.choice([0, 1000, 1 << 50]))}:{hx(n * rng.choice([1, 10, 900, 5000]))}")
            # PFOR leaf (clustered, one or few outliers) incl. spans of 256^k - 1
            ops.append(f"adaptive.rt @o:{hx(rng.getrandbits(60))}:{hx(n)}:{hx(rng.choice([0, 1000]))}:{hx(rng.choice([255, 256, 65535, 1 << 24, 1 << 40, M64 // 2]))}")
            # FOR / TAGGED leaves
            ops.append(f"adaptive.rt @r:{hx(rng.getrandbits(60))}:{hx(n)}:{hx(rng.choice([0, 1 << 33]))}:{hx(max(1, n * rng.choice([1, 50, 99, 100, 101])))}")
            ops.append(f"adaptive.rt @r:{hx(rng.getrandbits(60))}:{hx(n)}:0:{hx(rng.choice([M64, 1 << 60, 1 << 33]))}")
            # periodic data that misleads the sampler above 10000 elements
            ops.append(f"adaptive.rt @p:{hx(rng.getrandbits(60))}:{hx(n)}:{hx(rng.choice([0, 1 << 56]))}:{hx(rng.choice([1 << 62, 1 << 40, 1600]))}")
    # dense ascending arrays below 65536 with exactly ONE descent, placed at round indices and their neighbours (a
    # sortedness scan that is blocked / unrolled / restarted misses the pair at a block seam)
    seams = set()
    for base in (8, 16, 32, 64, 100, 128, 256, 500, 512, 1000, 1024, 2000, 2048, 3000, 4096, 5000, 8192):
        for k in (1, 2, 3):
            for d in (-1, 0, 1):
                seams.add(base * k + d)
    seams = sorted(p for p in seams if 2 <= p < 9000)
    if tier == "quick":
        seams = [p for p in seams if p < 4200]
    for p in seams:
        n = p + rng.choice([1, 2, 40])
        vals = [3 + 2 * i for i in range(n)]                 # strictly ascending, max < 65536 for n < 9000
        if rng.random() < 0.5:
            vals[p] = vals[p - 1] - 1                          # a dip of one element
        else:
            vals = vals[:p] + [1 + 2 * i for i in range(n - p)]   # second ascending run starting lower
        ops.append(f"adaptive.rt {explicit(vals)}")
    # the bitmap universe is 0..65535: dense strictly ascending arrays whose maximum is 65534 / 65535 / 65536 / 65537
    for mx in (65534, 65535, 65536, 65537, 65540):
        for n in (2, 3, 100, 1000, 4097, 9999):
            stepk = rng.choice([1, 2, 7, 13]) if n * 13 < 60000 else 1
            vals = [mx - stepk * (n - 1 - i) for i in range(n)]
            if vals[0] >= 0:
                ops.append(f"adaptive.rt {explicit(vals)}")
    # above 10000 elements uniqueness is estimated from a sample: few-distinct arrays on both sides of the 15 % dictionary
    # threshold, lengths that are and are not multiples of the sampling stride
    for n in (10001, 10007, 10010) + ((12345, 20011) if big else ()):
        for card in (100, 140, 160, 1000):
            ops.append(f"adaptive.rt @u:{hx(rng.getrandbits(60))}:{hx(n)}:{hx(rng.choice([0, 1 << 40]))}:{hx(card)}")
    if big:
        # an array whose distinct values repeat with the sampler's period
        for n in (20000, 30001):
            step = n // (n // 10)
            vals = [((i // step) % 3) if i % step == 0 else (1 << 56) + i for i in range(n)]
            ops.append(f"adaptive.rt {explicit(vals)}")
    if slice_only:
        return ops
    # forced encodings on arrays inside each encoding's documented domain
    for n in [1, 2, 19, 100, 257, 1000] + ([5000] if big else []):
        for t in (0, 1, 2, 3, 5):
            ops.append(f"adaptive.with t={t} {arr_spec(rng, n)}")
        span = min(65535, n * rng.choice([1, 3, 40]))
        if span >= n:
            vals = sorted(rng.sample(range(0, span + 1), n))
            ops.append(f"adaptive.with t=4 {explicit(vals)}")
    for t in (0, 1, 2, 3, 5):
        ops.append(f"adaptive.with t={t} {explicit([0, M64, 1 << 63, 1])}")
    ops.append(f"adaptive.with t=4 {explicit(list(range(0, 65536, 13)))}")
    return ops


# ---------------------------------------------------------------- C14 bounded decoders
def py_dict_parts(vals):
    """(dictSize field, entries, count field, indices, index width)"""
    d = sorted(set(vals))
    w = 1 if len(d) == 0 else max(1, (max(len(d) - 1, 0).bit_length() + 7) // 8)
    pos = {x: i for i, x in enumerate(d)}
    return (tagged_enc(len(d)), b"".join(tagged_enc(x) for x in d), tagged_enc(len(vals)),
            b"".join(pos[v].to_bytes(w, "little") for v in vals), w)


def py_dict_enc(vals):
    a, b, c, d, _ = py_dict_parts(vals)
    return a + b + c + d


def py_bits_pack(bits):
    out = bytearray((len(bits) + 7) // 8)
    for i, b in enumerate(bits):
        if b:
            out[i // 8] |= 1 << (7 - i % 8)
    return bytes(out)


def py_gamma_bits(v):
    n = v.bit_length() - 1
    return [0] * n + [(v >> (n - i)) & 1 for i in range(n + 1)]


def py_delta_bits(v):
    n = v.bit_length() - 1
    return py_gamma_bits(n + 1) + [(v >> (n - 1 - i)) & 1 for i in range(n)]


def py_bitmap_enc(kind, members):
    members = sorted(set(members))
    out = bytearray([kind]) + len(members).to_bytes(4, "little")
    if kind == 0:
        for m in members:
            out += m.to_bytes(2, "little")
    elif kind == 1:
        bits = bytearray(8192)
        for m in members:
            bits[m // 8] |= 1 << (m % 8)
        out += bits
    else:
        runs = []
        for m in members:
            if runs and runs[-1][0] + runs[-1][1] + 1 == m:
                runs[-1][1] += 1
            else:
                runs.append([m, 0])
        out += len(runs).to_bytes(4, "little")
        for s, l in runs:
            out += s.to_bytes(2, "little") + l.to_bytes(2, "little")
    return bytes(out)


def py_rle_enc(vals):
    out = bytearray()
    i = 0
    while i < len(vals):
        j = i
        while j < len(vals) and vals[j] == vals[i]:
            j += 1
        out += tagged_enc(j - i) + tagged_enc(vals[i])
        i = j
    return bytes(out)


def mutations(rng, enc, nmut, full_trunc_upto=80):
    """every truncation (all prefixes when short, sampled when long), bit flips, byte overwrites with hostile values,
    insertions of 0xff runs"""
    outs = [enc]
    n = len(enc)
    cuts = range(n) if n <= full_trunc_upto else sorted(set(list(range(0, 24)) + [n - k for k in range(1, 24)] +
                                                         [rng.randrange(n) for _ in range(24)]))
    outs += [enc[:c] for c in cuts]
    for _ in range(nmut):
        b = bytearray(enc)
        if not b:
            break
        k = rng.random()
        if k < 0.35:
            i = rng.randrange(min(len(b), 12)) if rng.random() < 0.7 else rng.randrange(len(b))
            b[i] ^= 1 << rng.randrange(8)
        elif k < 0.6:
            i = rng.randrange(min(len(b), 12))
            b[i] = rng.choice([0xFF, 0xFE, 0xFB, 0xFA, 0xF9, 0xF8, 0xF1, 0xF0, 0x00, 0x01, 0x80])
        elif k < 0.8:
            i = rng.randrange(min(len(b), 10))
            hostile = rng.choice([tagged_enc(x) for x in (M64, 1 << 32, (1 << 32) - 1, 1 << 20, (1 << 20) + 1, 1 << 31, 65536, 4097)] +
                                 [bytes([0xFF] * 4), bytes([0xFF] * 8), bytes([0, 0, 0, 0x80])])
            b[i:i + len(hostile)] = hostile
        else:
            i = rng.randrange(len(b) + 1)
            b[i:i] = bytes(rng.getrandbits(8) for _ in range(rng.randint(1, 4)))
        cut = len(b) if rng.random() < 0.6 else rng.randrange(len(b) + 1)
        outs.append(bytes(b[:cut]))
    return outs


def gen_bounded(rng, tier):
    ops = []
    quick = tier == "quick"
    ops += gen_tagged_getn(rng, tier)
    caps = [0, 1, 2, 5, 100, 100000]
    # all byte strings of length <= 1, length 2 with interesting first bytes (thorough: all of length 2)
    shorts = [b""] + [bytes([a]) for a in range(256)]
    firsts = range(256) if not quick else [0, 1, 2, 3, 0x10, 0x7F, 0x80, 0xF0, 0xF1, 0xF8, 0xF9, 0xFA, 0xFB, 0xFE, 0xFF]
    shorts += [bytes([a, b]) for a in firsts for b in (range(256) if not quick else range(0, 256, 5))]
    for s in shorts:
        h = s.hex()
        ops.append(f"b.dict hex:{h}")
        ops.append(f"b.dictinto cap={hx(rng.choice(caps))} hex:{h}")
        ops.append(f"b.bitmap hex:{h}")
        ops.append(f"b.rle hex:{h}")
        for bits in sorted({0, max(0, 8 * len(s) - 3), 8 * len(s)}):
            ops.append(f"b.gamma bits={hx(bits)} cap={hx(rng.choice(caps))} hex:{h}")
            ops.append(f"b.delta bits={hx(bits)} cap={hx(rng.choice(caps))} hex:{h}")
    narr = 14 if quick else 400
    nmut = 25 if quick else 120
    for _ in range(narr):
        n = rng.choice([1, 2, 3, 8, 17, 100, 255, 256, 257, 600])
        card = rng.choice([1, 2, 3, 200, 255, 256, 257, 70000])
        pool = [rng.choice([rng.getrandbits(8), rng.getrandbits(16), rng.getrandbits(40), rng.getrandbits(64)])
                for _ in range(min(card, n))]
        vals = [rng.choice(pool) for _ in range(n)]
        for m in mutations(rng, py_dict_enc(vals), nmut):
            ops.append(f"b.dict hex:{m.hex()}")
            ops.append(f"b.dictinto cap={hx(rng.choice([0, 1, n - 1, n, n + 1, 100000]))} hex:{m.hex()}")
        # RLE streams
        rv = []
        while len(rv) < n:
            rv += [rng.choice(pool)] * rng.choice([1, 1, 2, 7, 240, 241, 3000])
        for m in mutations(rng, py_rle_enc(rv), nmut):
            ops.append(f"b.rle hex:{m.hex()}")
        # hand-made RLE pairs no encoder emits: run length AND value with 7/8/9-byte tags, behind 0-3 ordinary runs, cut at
        # every length (a reader that trusts "two 64-bit varints fit in 16 bytes" over-reads by one or two bytes)
        if len([o for o in ops if o.startswith("b.rle hex:") and len(o) > 60]) < (400 if quick else 6000):
            pre = b"".join(bytes(tagged_enc(rng.choice([1, 2, 300]))) + bytes(tagged_enc(rng.choice([0, 5, 70000])))
                           for _ in range(rng.randint(0, 3)))
            for t1 in (253, 254, 255):
                for t2 in (253, 254, 255):
                    pair = bytes([t1]) + bytes(rng.getrandbits(8) | 1 for _ in range(t1 - 247)) + \
                           bytes([t2]) + bytes(rng.getrandbits(8) for _ in range(t2 - 247))
                    whole = pre + pair + bytes(tagged_enc(1)) + bytes(tagged_enc(9))
                    for cut in range(len(pre), len(whole) + 1):
                        if quick and cut < len(pre) + 12 and rng.random() < 0.5:
                            continue
                        ops.append(f"b.rle hex:{whole[:cut].hex()}")
        # Elias streams
        ev = [max(1, rng.getrandbits(rng.choice([1, 2, 7, 8, 31, 32, 33, 63, 64]))) for _ in range(min(n, 60))]
        for delta in (False, True):
            bits = []
            for v in ev:
                bits += py_delta_bits(v) if delta else py_gamma_bits(v)
            enc = py_bits_pack(bits)
            name = "b.delta" if delta else "b.gamma"
            cuts = sorted(set([0, 1, 2, 7, 8, 9, len(bits) - 1, len(bits), len(bits) // 2] +
                              [rng.randrange(len(bits) + 1) for _ in range(12)]))
            for c in cuts:
                if 0 <= c <= len(bits):
                    ops.append(f"{name} bits={hx(c)} cap={hx(rng.choice([0, 1, len(ev) - 1, len(ev), len(ev) + 5]))} hex:{enc.hex()}")
            for m in mutations(rng, enc, nmut // 2, full_trunc_upto=0):
                b = rng.choice([8 * len(m), max(0, 8 * len(m) - rng.randint(0, 7)), rng.randint(0, 8 * len(m))])
                ops.append(f"{name} bits={hx(b)} cap={hx(rng.choice([1, len(ev), 1000]))} hex:{m.hex()}")
        # bitmap serialisations of all three containers
        for kind in (0, 1, 2):
            k = rng.choice([0, 1, 5, 100, 4095, 4096, 4097]) if kind != 1 else rng.choice([0, 5000, 65536])
            lo = rng.randrange(0, 65536 - min(k, 60000)) if k < 60000 else 0
            members = (rng.sample(range(65536), k) if kind != 2 else list(range(lo, lo + k // 2)) + rng.sample(range(65536), k - k // 2))
            for m in mutations(rng, py_bitmap_enc(kind, members), nmut):
                ops.append(f"b.bitmap hex:{m.hex()}")
    # headers announcing enormous sizes in front of little data
    for card in (0xFFFFFFFF, 0x7FFFFFFF, 0x80000000, 0x10000, 4097, 2):
        for kind in (0, 1, 2, 3, 0xFF):
            for tail in (0, 1, 3, 4, 7, 8, 12):
                ops.append(f"b.bitmap hex:{bytes([kind]).hex()}{card.to_bytes(4, 'little').hex()}{(card.to_bytes(4, 'little') * 3)[:tail].hex()}")
    for dsz in (0, 1, 255, 256, 257, 65536, 65537, (1 << 20) - 1, 1 << 20, (1 << 20) + 1, 1 << 32, M64):
        for cnt in (0, 1, 2, 1 << 20, (1 << 61), (1 << 61) + 1, (1 << 64) - 1):
            for k in (0, 1, 2):
                body = tagged_enc(dsz) + b"".join(tagged_enc(i) for i in range(min(dsz, k))) + tagged_enc(cnt) + bytes(k)
                ops.append(f"b.dict hex:{body.hex()}")
                ops.append(f"b.dictinto cap={hx(rng.choice([1, 4, 100000]))} hex:{body.hex()}")
    # well-formed dictionaries (1-, 2- and 3-byte indices) whose count field alone is hostile: values whose product
    # with the index width or with sizeof(uint64_t) wraps around 2^64, and values just above what the buffer holds
    for dsz in [1, 2, 255, 256, 257, 300] + ([65536, 65537] if not quick else [65537]):
        vals = list(range(1000, 1000 + dsz))
        a, b, c, d, w = py_dict_parts(vals)
        wraps = {1 << 63, (1 << 63) + 1, (1 << 62), (1 << 62) + 1, (1 << 61), (1 << 61) + 3, M64, M64 - 1,
                 (1 << 64) // 3 + 1, (1 << 64) // 3 + 2, (1 << 64) // 3, ((1 << 64) + w - 1) // w, ((1 << 64) + w - 1) // w + 1,
                 len(vals) + 1, len(vals) * 2, 0, 1}
        for cnt in sorted(c_ for c_ in wraps if 0 <= c_ <= M64):
            for idx in (b"", d[:w], d[:2 * w + 1], d):
                body = a + b + tagged_enc(cnt) + idx
                ops.append(f"b.dict hex:{body.hex()}")
                ops.append(f"b.dictinto cap={hx(rng.choice([1, len(vals), 100000]))} hex:{body.hex()}")
        # hostile dictionary size in front of a well-formed rest
        for fake in (dsz + 1, dsz - 1 if dsz > 1 else 0, 1 << 20, (1 << 20) + 1, M64):
            body = tagged_enc(fake) + b + c + d
            ops.append(f"b.dict hex:{body.hex()}")
            ops.append(f"b.dictinto cap={hx(len(vals))} hex:{body.hex()}")
    # random strings
    for _ in range(300 if quick else 100000):
        ln = rng.choice([3, 4, 5, 6, 9, 12, 33, 200, 4096]) if rng.random() < 0.9 else rng.randint(0, 4096)
        if ln > 300 and rng.random() < 0.7:
            ln = rng.randint(3, 300)
        s = bytes(rng.getrandbits(8) for _ in range(ln))
        if rng.random() < 0.5 and ln:
            s = bytes([rng.choice([0, 1, 2, 3, 5])]) + s[1:]
        name = rng.choice(["b.dict", "b.dictinto", "b.bitmap", "b.rle", "b.gamma", "b.delta"])
        if name == "b.dictinto":
            ops.append(f"{name} cap={hx(rng.choice(caps))} hex:{s.hex()}")
        elif name in ("b.gamma", "b.delta"):
            ops.append(f"{name} bits={hx(rng.randint(max(0, 8 * ln - 9), 8 * ln))} cap={hx(rng.choice(caps))} hex:{s.hex()}")
        else:
            ops.append(f"{name} hex:{s.hex()}")
    return ops


# ---------------------------------------------------------------- C18 allocation failure sweeps
def gen_oom(rng, tier):
    ops = []
    quick = tier == "quick"
    reps = 2 if quick else 12
    lens = [1, 2, 5, 16, 17, 18, 33, 100, 300] + ([] if quick else [1000, 5000, 20000])
    for n in lens:
        for _ in range(reps):
            # dictionaries with <= 16 / > 16 distinct values
            card = rng.choice([1, 2, 15, 16, 17, 40, 300])
            spec = f"@u:{hx(rng.getrandbits(60))}:{hx(n)}:{hx(rng.choice([0, 1 << 40]))}:{hx(card)}"
            for what in ("enc", "size", "dec", "into"):
                ops.append(f"oom.dict op={what} {spec}")
            ops.append(f"oom.dictbuild {arr_spec(rng, rng.choice([1, 5, 16, 17, 40]))} {spec}")
            ops.append(f"oom.dictbuild {spec} {arr_spec(rng, rng.choice([1, 16, 17, 64]))}")
            # PFOR with and without exceptions
            for t in (0x5a, 0x5f, 0x63, 0x64):
                ops.append(f"oom.pfor op=enc t={hx(t)} @o:{hx(rng.getrandbits(60))}:{hx(n)}:{hx(rng.choice([0, 1000]))}:{hx(rng.choice([255, 65535, 1 << 40]))}")
            ops.append(f"oom.pfor op=enc t=5f @c:1:{hx(n)}:{hx(rng.getrandbits(20))}:0")
            ops.append(f"oom.pfor op=compute t=5f {arr_spec(rng, n)}")
    # a long-lived dictionary re-built across an index-width class (1-byte indices <-> 2-byte indices, growing
    # past the current capacity and shrinking): a failed re-build must leave the OLD dictionary fully usable
    for a, b in [(200, 300), (300, 200), (255, 257), (256, 257), (16, 300), (257, 256)] + ([] if quick else [(65000, 66000), (300, 70000)]):
        base = rng.choice([0, 1000, 1 << 40])
        va = [base + 3 * i for i in range(a)]
        vb = [base + 5 * i + 1 for i in range(b)]
        rng.shuffle(va)
        rng.shuffle(vb)
        ops.append(f"oom.dictbuild {explicit(va)} {explicit(vb)}")
    # float: all-special arrays have no mantissa block
    specials = [0, 1 << 63, 0x7FF0000000000000, 0xFFF0000000000000, 0x7FF8000000000001, 1, (1 << 52) - 1]
    for n in [1, 3, 8, 40]:
        for p in range(4):
            for m in range(3):
                vals = [rng.choice([dbits(1.5), dbits(-2.25e10), dbits(1e-5), rng.getrandbits(62) | (1 << 61)] + specials)
                        for _ in range(n)]
                ops.append(f"oom.float op=enc p={p} m={m} {explicit(vals)}")
                ops.append(f"oom.float op=dec p={p} m={m} {explicit(vals)}")
                sp = [rng.choice(specials) for _ in range(n)]
                ops.append(f"oom.float op=dec p={p} m={m} {explicit(sp)}")
    # adaptive: every leaf of the decision tree, automatic and forced, encode and decode
    for op in gen_adaptive(rng, "quick", slice_only=True):
        body = op.split(" ", 1)[1]
        n_tok = body.split(" ")[0]
        if n_tok.startswith("@"):
            cnt = int(n_tok.split(":")[2], 16)
        else:
            cnt = int(n_tok, 16)
        if cnt == 0 or cnt > (1100 if quick else 20000):
            continue
        ops.append(f"oom.adaptive op=enc t=auto {body}")
        if rng.random() < 0.5:
            ops.append(f"oom.adaptive op=dec t=auto {body}")
    for n in [1, 2, 17, 100, 300]:
        for t in (0, 1, 2, 3, 5):
            spec = arr_spec(rng, n)
            ops.append(f"oom.adaptive op=enc t={t} {spec}")
            ops.append(f"oom.adaptive op=dec t={t} {spec}")
        span = min(65535, n * rng.choice([1, 3, 40]))
        if span >= n:
            vals = sorted(rng.sample(range(0, span + 1), n))
            ops.append(f"oom.adaptive op=enc t=4 {explicit(vals)}")
            ops.append(f"oom.adaptive op=dec t=4 {explicit(vals)}")
    # a sorted array with duplicates below 65536: the analysis must not be fooled by a refused request
    for n in (50, 400):
        vals = sorted(rng.randrange(0, 3 * n) for _ in range(n))
        ops.append(f"oom.adaptive op=enc t=auto {explicit(vals)}")
        rng.shuffle(vals)
        ops.append(f"oom.adaptive op=enc t=auto {explicit(vals)}")
    ops.append(f"oom.adaptive op=enc t=4 {explicit(sorted(rng.sample(range(65536), 5000)))}")
    # bitmap: every operation from states of every container type and around every growth point
    def hist(kind):
        if kind == "empty":
            return []
        if kind == "small":
            return ["addm:" + ",".join(hx(v) for v in rng.sample(range(65536), rng.choice([1, 15, 16, 17, 31, 32, 33])))]
        if kind == "array":
            return [f"addr:{hx(lo)}:{hx(lo + k)}" for lo, k in [(rng.randrange(0, 30000), rng.choice([100, 1000, 4095, 4096]))]]
        if kind == "bitmap":
            lo = rng.randrange(0, 20000)
            return [f"add:{hx(rng.randrange(65536))}", f"addr:{hx(lo)}:{hx(lo + rng.choice([4097, 4200, 9000]))}"]
        if kind == "bitmap-edge":   # exactly 4097 members in a BITMAP container: one removal triggers the conversion
            lo = rng.randrange(0, 20000)
            return [f"add:{hx(lo)}", f"addr:{hx(lo)}:{hx(lo + 4097)}"]
        if kind == "runs":
            lo = rng.randrange(0, 20000)
            return [f"addr:{hx(lo)}:{hx(lo + rng.choice([4097, 5000, 30000]))}"]
        if kind == "cleared-runs":
            return ["addr:0:2000", "clear"]
        return []
    kinds = ["empty", "small", "array", "bitmap", "bitmap-edge", "runs", "cleared-runs"]
    for ka in kinds:
        for _ in range(1 if quick else 6):
            h = hist(ka)
            probe = rng.randrange(65536)
            finals = ["create", "clone", "dec", f"add:{hx(probe)}", f"rem:{hx(probe)}", f"addr:{hx(probe % 60000)}:{hx(probe % 60000 + rng.choice([1, 20, 300]))}",
                      f"remr:{hx(probe % 60000)}:{hx(probe % 60000 + rng.choice([1, 20]))}", "addr:100:2000", "addr:0:1400",
                      "addm:" + ",".join(hx(v) for v in rng.sample(range(65536), 20))]
            # a member to remove / a non-member to add, when the history is one range
            for tok in h:
                if tok.startswith("addr:"):
                    lo, hi = [int(x, 16) for x in tok.split(":")[1:]]
                    finals += [f"rem:{hx(lo)}", f"rem:{hx(hi - 1)}", f"add:{hx(hi % 65536)}", f"remr:{hx(lo)}:{hx(lo + 3)}"]
            for f in finals:
                ops.append(f"oom.bitmap op={f} " + " ".join(h))
            for kb in (["small", "array", "runs"] if quick else kinds):
                hb = ["b." + t for t in hist(kb)]
                for alg in ("or", "and", "xor", "andnot"):
                    if quick and ka in ("bitmap", "runs", "bitmap-edge") and kb == "runs" and alg in ("or", "xor"):
                        continue    # thousands of requests: thorough tier only
                    ops.append(f"oom.bitmap op={alg} " + " ".join(h + hb))
    return ops


# ---------------------------------------------------------------- C17 concurrent calls
def gen_mt(rng, tier):
    ops = []
    quick = tier == "quick"
    for n in ([1, 2, 17, 300, 2000] if quick else [1, 2, 17, 128, 300, 2000, 10001, 70000]):
        for threads in ([2, 16] if quick else [2, 3, 8, 16]):
            iters = (150 if n <= 300 else 40) if quick else (2000 if n <= 300 else 200)
            ops.append(f"mt threads={hx(threads)} iters={hx(iters)} seed={hx(rng.getrandbits(40))} n={hx(n)}")
    # large unsorted arrays through the adaptive analysis (its sampled estimate allocates scratch of input-dependent size)
    ops.append(f"mt threads=4 iters={hx(3 if quick else 12)} seed={hx(rng.getrandbits(40))} n={hx(170000)} only=adaptive")
    return ops
