#!/bin/sh
# Build /repo's working tree (guard off: no verification define) in a scratch directory
# outside /repo and /verif, run the pinned ctest suite, remove the directory.
set -u
d=$(mktemp -d /tmp/vbase.XXXXXX)
trap 'rm -rf "$d"' EXIT
cmake -G Ninja -S /repo -B "$d" -DCMAKE_BUILD_TYPE=RelWithDebInfo -DCMAKE_C_FLAGS=-Wno-error >"$d/cfg.log" 2>&1 || { cat "$d/cfg.log"; exit 2; }
cmake --build "$d" -j16 >"$d/build.log" 2>&1 || { tail -50 "$d/build.log"; exit 2; }
ctest --test-dir "$d" -j8 --timeout 900 >"$d/ctest.log" 2>&1
rc=$?
tail -25 "$d/ctest.log"
exit $rc

