#!/usr/bin/env python3
"""Regenerates lean/obligations.json: every `theorem` in lean/Varint/Props/Cxx.lean is an obligation
of property Cxx. `NOT_YET` lists, per property, clauses not yet carried by a theorem (honesty rule)."""
import json, os, re
HERE = os.path.dirname(os.path.abspath(__file__))
LEAN = os.path.join(os.path.dirname(HERE), "lean")
NOT_YET = {
    "C01": ["the reversed-layout (type byte last) forms of the split families and the 32-bit reader of the unrolled chained family are proved on the model and tied by the correspondence only (the 32-bit forms of tagged and chained-simple are translated: c_forms32); all nine families' put/get/length are proved on machine-translated code (the unrolled chained reader additionally as a literal transcription proved equal to the format-level reader)"],
    "C04": ["Elias gamma/delta bit definitions are carried with the Elias model under C02/C03 (code lengths proved there)"],
    "C02": ["every codec round trip is a theorem on the model (incl. the FOR block reader: for_block_roundtrip); on machine-translated code: delta, zigzag, RLE ± header + random access, FOR decode + random access, group decode + random access; PFOR, BP128, Elias, dictionary and the FOR/group ENCODERS are tied by the correspondence only"],
    "C03": [],
    "C13": ["PFOR takes no capacity (its decoder trusts the stored count)"],
    "C16": ["Elias, BP128, adaptive, float metadata structs: monitors + correspondence only so far (FOR, RLE, group, PFOR are proved)"],
    "C05": [],
    "C11": [],
    "C17": ["that the compiled codecs access nothing outside their arguments (the theorem's premise) and race freedom under the real "
            "memory model are facts about the binary: ThreadSanitizer run + regenerated statics list, not theorems (property is PARTIAL)"],
    "C15": ["completeness of the list of residue sites, and what the compiler does with an uninitialised read, are facts about the "
            "binary: carried by the perturbed correspondence runs and memcheck, not by a theorem (property is PARTIAL)"],
    "C18": ["crash- and leak-freedom (facts about the binary: observed by the sweep, not theorems); the stateless codecs are "
            "carried only as request-count tables tied by the correspondence (abortAll_spec), their value-level result under "
            "refusal is 'failure or the undisturbed result' by observation; (or/and/xor/andNot are now exact: *_exact)"],
    "C14": ["termination is by construction (total functions with explicit fuel) and the fuel of every loop is PROVED adequate for arbitrary bytes (rle_runcount_fuel_adequate, elias_gamma_fuel_adequate, rle_fuel_adequate, bp128_fuel_adequate, search_fuel_adequate)"],
    "C06": ["the selector's float comparisons are parameters of the theorems (they hold for every outcome); count < 2^32 (the PFOR count field)"],
    "C07": [],
    "C10": ["half-float cells not covered (F16C-only code)"],
    "C08": ["clone is the identity in the model (the C's deep copy is compared by the histories); the three containers are abstracted to one bit set in the model (their equivalence with the C is sampled by the histories)"],
    "C09": [],
    "C12": [],
}
out = {}
pd = os.path.join(LEAN, "Varint", "Props")
for f in sorted(os.listdir(pd)):
    m = re.fullmatch(r"(C\d+)\.lean", f)
    if not m:
        continue
    pid = m.group(1)
    src = open(os.path.join(pd, f)).read()
    names = re.findall(r"^theorem ([\w.']+)", src, re.M)
    out[pid] = {"theorems": [f"Varint.Props.{pid}.{n}" for n in names], "not_yet_proved": NOT_YET.get(pid, [])}
json.dump(out, open(os.path.join(LEAN, "obligations.json"), "w"), indent=1)
print({k: len(v["theorems"]) for k, v in out.items()})
