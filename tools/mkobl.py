#!/usr/bin/env python3
"""Regenerates lean/obligations.json: every `theorem` in lean/Varint/Props/Cxx.lean is an obligation
of property Cxx. `NOT_YET` lists, per property, clauses not yet carried by a theorem (honesty rule)."""
import json, os, re
HERE = os.path.dirname(os.path.abspath(__file__))
LEAN = os.path.join(os.path.dirname(HERE), "lean")
NOT_YET = {
    "C01": ["the hand-unrolled sqlite3 chained reader is modelled by its format-level reader (agreement with the C is sampled by the correspondence, not proved)"],
    "C04": ["uniqueness-in-length-class / shortest-encoding stated on the decoder for chained, chained-simple and the split families (tagged has tagged_canonical); Elias gamma/delta bit definitions (carried with the Elias model under C02)"],
    "C02": ["BP128 (4 forms) round trips and the FOR block reader: model = code on the correspondence stream and the monitors check the implementation, theorem not yet written (delta, zigzag, FOR + random access, RLE ± header + random access, group + random access, dictionary, Elias gamma/delta, PFOR at every threshold ARE proved)"],
    "C03": ["BP128, adaptive, float bounds: monitors + correspondence only so far (delta, RLE, FOR, group, dictionary, Elias, PFOR are proved)"],
    "C13": ["BP128, PFOR (takes no capacity), adaptive capacity theorems: monitors + correspondence only so far (FOR, RLE ± header, group, dictionary DecodeInto and both Elias decoders are proved)"],
    "C16": ["Elias, BP128, adaptive, float metadata: monitors + correspondence only so far (FOR, RLE, group, PFOR are proved)"],
    "C05": [],
    "C11": [],
    "C17": ["that the compiled codecs access nothing outside their arguments (the theorem's premise) and race freedom under the real "
            "memory model are facts about the binary: ThreadSanitizer run + regenerated statics list, not theorems (property is PARTIAL)"],
    "C15": ["completeness of the list of residue sites, and what the compiler does with an uninitialised read, are facts about the "
            "binary: carried by the perturbed correspondence runs and memcheck, not by a theorem (property is PARTIAL)"],
    "C18": ["crash- and leak-freedom (facts about the binary: observed by the sweep, not theorems); the stateless codecs are "
            "carried only as request-count tables tied by the correspondence (abortAll_spec), their value-level result under "
            "refusal is 'failure or the undisturbed result' by observation; (or/and/xor/andNot are now exact: *_exact)"],
    "C14": ["termination is by construction (the models are total functions whose loops are bounded by explicit fuel = input size); "
            "that the fuel of runCountAux suffices is tied by the correspondence, not proved"],
    "C06": ["losslessness of the PFOR, DICT and BITMAP arms (their codecs have no round-trip theorem yet) and hence the unconditional adaptive_roundtrip"],
    "C07": ["array-level framing round trip (decode (encode ds) = map roundTripOne ds) is not a theorem: encode bytes are compared with the model and the decoded values are checked on the implementation"],
    "C10": ["half-float cells not covered (F16C-only code)"],
    "C08": ["add-range fast path (single run on an empty set), clone and serialise/deserialise as theorems; that iteration is ascending and duplicate free (membership of `members` IS proved, and the four set operations are); the three containers are abstracted to one bit set in the model (their equivalence with the C is sampled by the histories)"],
    "C09": ["sorted insert / positional insert / delete / delete-member as refinement of a reference multiset (the shifting loops): checked by the harness against a reference array and by the correspondence, theorem not yet written; get/set isolation, lower-bound search, incr/half are proved"],
    "C12": [],
}
out = {}
pd = os.path.join(LEAN, "Varint", "Props")
for f in sorted(os.listdir(pd)):
    m = re.fullmatch(r"(C\d+)\.lean", f)
    if not m:
        continue
    pid = m.group(1)
    src = open(os.path.join(pd, f)).read()
    names = re.findall(r"^theorem ([\w.']+)", src, re.M)
    out[pid] = {"theorems": [f"Varint.Props.{pid}.{n}" for n in names], "not_yet_proved": NOT_YET.get(pid, [])}
json.dump(out, open(os.path.join(LEAN, "obligations.json"), "w"), indent=1)
print({k: len(v["theorems"]) for k, v in out.items()})
